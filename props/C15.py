"""C15 - Output depends only on document and config: no leakage across parses / workers."""
from __future__ import annotations

import json
import re

from lib import common
from lib.common import COQ, REPO, sh, write_if_changed

PID = "C15"
RULE = ("gen (every run): ast translator over every module -> coq/Gen/GlobalWrites.v: writes to state that outlives a parse, "
        "non-determinism sources, renderer attributes read before written per method, __init__ / setup_render assignments and "
        "merge_file_level's bindings / writes / returns as code, uses of the Sphinx environment in read-phase code; correspondence: the "
        "classification table is evaluated by coqc; per classified cell a probe history (all ordered pairs of the probe's documents) in a "
        "process forked from an import-only forkserver - 'later output differs from the fresh output' must equal class = Leak; "
        "merge_file_level on a shared config compared before/after, and no container of a field that some code mutates in place may be "
        "shared with the global; random histories run through the EXTRACTED model and through the implementation with the real "
        "process-level cells dumped before the first and after every parse - wherever the model has equal content the real object must be "
        "equal; search: every (document, configuration) first in a fresh process vs random histories, one-field configuration deltas "
        "(same document and path, A,B,B,A for every pair of values of every MdParserConfig field), one parser object rendering several "
        "documents, one docutils settings object shared by several publish calls (every boolean field flipped by front matter); "
        "relation = pformat() + warning stream at the default report level, scratch paths and object addresses masked; Sphinx: "
        "generated projects (10-20 documents with read-time cross-document links in every spelling to earlier and later documents, "
        "includes, math, footnotes, figure-md, roles, glossary) built serial / -j4 / -j4 shuffled / serial again (forking verified), two "
        "fixed projects (role registry, config aliasing), incremental rebuilds after three kinds of edit vs a fresh build; relation = "
        "written HTML (only the masks listed in the notes) + sorted warnings + env.myst_config before/after; non-trivial = a history "
        "position > 0 whose document emits warnings or uses a directive / role / include, or a Sphinx project with > 5 documents")
TRUSTED = [
    "coq/Hist/Hist.v tables: 'classification' (one class + probe + justification per regenerated write, 19 entries covering the 37 "
    "writes), 'ctor_scoped' (md, rules, _inventories: attributes of the parser object, not of one render), 'env_class' (attribute of "
    "the Sphinx environment -> complete-before-reading / current document / own slot / identity test / user-driven / filled-while-reading)",
    "the syntactic notion of 'shared state' of gen/c15_globalwrites.py: module-level names, names declared global, locals holding class "
    "objects (*_class, *_cls, cls, klass), access paths through config / env / app / settings / registry objects, setattr() on non-fresh "
    "objects, mutating method calls on those, functools caches, registry calls",
    "the abstraction of a parse to its classified writes plus an output that reads cells (coq/Hist/Hist.v Section Model)",
    "state kept by docutils, Sphinx, pygments, markdown-it and Jinja themselves (role / directive registries, language caches, lexer "
    "caches) is not in the table: it is exercised by the history search only (the three open findings are of this kind)",
    "fork / pickle / merge behaviour of Sphinx read workers and of incremental builds is runtime behaviour: exercised by the builds only; "
    "C15_merge_commutes is about the association-list model of env.metadata",
]
ORACLES = {
    "O_parse_model": "a parse performs the writes of Gen/GlobalWrites (and no other write to MyST-owned shared state) and its output is a "
                     "function of its input and of what reads of those cells observe: probe histories, extracted-model cell traces, random / "
                     "delta / object-reuse / shared-settings histories",
    "O_sphinx_merge": "BuildEnvironment.merge_info_from copies env.metadata[docname] for the worker's docnames; domain data written through "
                      "note_* APIs are merged from the workers: serial vs parallel vs shuffled builds",
    "O_env_complete": "found_docs, config, srcdir, myst_config, project paths and intersphinx inventories are complete before the first "
                      "document is read: serial vs parallel builds with read-time links to earlier and later documents",
    "O_third_party_state": "docutils / Sphinx / pygments global registries do not change what a later MyST parse produces: history search "
                           "(3 open findings where they do)",
}
ASSUMPTIONS = ["a process forked from a forkserver that has only imported the libraries is equivalent to a fresh interpreter",
               "PYTHONHASHSEED is fixed (set iteration order is part of neither the document nor the configuration)"]
LEVEL_TEXT = ("Proof (Coq, 12 theorems, all closed). Over tables REGENERATED from the source on every run: C15_writes_classified (each of the "
              "n_writes = 37 writes to shared state has a class; a new global write breaks it), C15_table_has_no_leak (no written cell is "
              "classified Leak; C15_open_leaks_are_leaks guards the empty open list), C15_render_state_reset and, on the assignment lists "
              "translated as code, C15_render_state_reset_src (for EVERY prior instance state each attribute a renderer method reads before "
              "writing is fresh after setup_render alone, except three justified constructor-scoped attributes that __init__ assigns), "
              "C15_merge_copies_src (merge_file_level never writes or returns the object passed as config), C15_read_phase_env_complete (no "
              "read-phase use of the Sphinx environment reads a table that is filled while documents are read), "
              "C15_no_nondeterminism_source. Over the abstract process model, with no bound: C15_history_independent - a real induction over "
              "histories: if no written cell is a Leak then for every history h and input i the output after h equals the fresh output "
              "(constant and per-document cells are rewritten before use, memo tables only hold what a miss computes - "
              "C15_cache_hit_equals_miss -, restored cells are unchanged); C15_history_independent_with_leak_refuted shows the premise is "
              "needed (what Include.option_spec was before 306a0d5); C15_merge_commutes - merging worker metadata with disjoint docnames "
              "gives the same map in any order (over permutations). Tie: regenerated tables and code, probe histories, the extracted model "
              "run against dumps of the real cells, and the search over histories and Sphinx builds.")
LEVEL_NOTE = ("Partial by nature: the model abstracts a parse to its classified writes; state owned by docutils / Sphinx / pygments / Jinja "
              "and the fork / pickle / merge semantics of Sphinx workers and incremental builds are exercised by the search only (quick 2.3k, "
              "thorough 26k observations; serial / -j4 / shuffled / repeated / incremental builds). Trusted: the classification, ctor_scoped "
              "and env_class tables with their justifications, the translator's notion of shared state. 3 open findings, all third-party "
              "state, reproduced on every run: docutils' process-wide role registry ({role} directive) leaks across documents, its Sphinx "
              "form (-j1 vs -j4 differ), docutils' 'Language not supported' warning only on first lookup. Repaired in /repo by this check's "
              "builder: 306a0d5 (Include.option_spec mutation), ca8c8e6 (default role leak), 7f4e1af (uuid4 equation labels); by the C11 "
              "builder after being found here: 0676245 (per-document footnote options written onto a shared settings object).")
COQCHK = True


# ------------------------------------------------------------------------------------------------ gen

def gen(ctx):
    from gen import c15_globalwrites
    text, writes, nondet, (reads, init, members), hashes = c15_globalwrites.generate(REPO)
    changed = write_if_changed(COQ / "Gen" / "GlobalWrites.v", text)
    ctx.gen_info["sources"] = hashes
    ctx.gen_info["Gen/GlobalWrites.v"] = {"sha": common.hashlib.sha256(text.encode()).hexdigest()[:16], "writes": len(writes),
                                          "nondet": len(nondet), "render_reads": len(reads), "render_init": len(init), "rewritten": changed}
    ctx.c15_writes = writes
    ctx.c15_nondet = nondet


# ------------------------------------------------------------------------------------------------ process pool

def pool_map(fn, jobs, procs=16):
    """Each job runs in a process forked from an import-only forkserver (maxtasksperchild=1)."""
    import multiprocessing as mp
    from concurrent.futures import ProcessPoolExecutor
    mpctx = mp.get_context("forkserver")
    mpctx.set_forkserver_preload(["gen.c15_preload"])
    # (executor workers are not daemonic: Sphinx may start its own read workers inside them)
    with ProcessPoolExecutor(max_workers=procs, mp_context=mpctx, max_tasks_per_child=1) as ex:
        return list(ex.map(fn, jobs))


def _hist_job(cases):
    from gen.c15_hist import run_history
    return run_history(cases)


def _sphinx_job(job):
    from gen.c15_hist import run_sphinx_build, run_sphinx_incremental
    if job.get("edit"):
        return run_sphinx_incremental(job)
    return run_sphinx_build(job)


QUOTED = re.compile(r"(\"[^\"]*\"|'[^']*'|`[^`]*`)")


def diff_signature(fresh, later):
    """signature of a history dependence: the first warning (or doctree line) present on one side only, with quoted
    strings, digits and paths masked, so that the same leak through another document has the same signature."""
    def norm(line):
        line = QUOTED.sub("*", line)
        line = re.sub(r"<ROOT>[^ :]*", "<P>", line)
        line = re.sub(r"\d+", "N", line)
        return re.sub(r"[^A-Za-z*<>]+", "-", line).strip("-")[:90]
    fw, lw = fresh["warn"].splitlines(), later["warn"].splitlines()
    only = [ln for ln in fw if ln not in lw] or [ln for ln in lw if ln not in fw]
    if only:
        return "history:warn:" + norm(only[0])
    fd, ld = fresh["doc"].splitlines(), later["doc"].splitlines()
    for a, b in zip(fd, ld):
        if a != b:
            return "history:doc:" + norm(a.strip())
    return "history:doc:length"


def coq_hist_table():
    d = common.BUILD / "c15"
    d.mkdir(parents=True, exist_ok=True)
    (d / "table.v").write_text("From Coq Require Import String.\nFrom MV Require Import Hist.Hist.\nOpen Scope string_scope.\n"
                               "Set Printing Width 1000000.\nEval vm_compute in hist_table.\n")
    with common.BuildLock():
        rc, out = sh(f"coqc -Q {COQ} MV -o {d}/table.vo {d}/table.v", cwd=d, timeout=300)
    if rc != 0:
        raise RuntimeError("coqc table.v failed: " + out[-1500:])
    m = re.search(r'=\s*"(.*)"\s*:\s*string', out, re.S)
    rows = []
    for ln in m.group(1).replace("\n", "").replace('""', '"').split(";"):
        if ln.strip():
            f = ln.split("|")
            rows.append({"file": f[0], "func": f[1], "target": "|".join(f[2:-2]), "klass": f[-2], "probe": f[-1]})
    return rows


def probe_histories(items):
    """probe id -> list of histories (each a list of item ids); the LAST item of a history is the one compared."""
    by_probe = {}
    for it in items:
        if it.get("probe"):
            by_probe.setdefault(it["probe"], []).append(it["id"])
    hs = {}
    for p, ids in by_probe.items():
        hs[p] = [[a, b] for a in ids for b in ids if a != b] + [[a, a] for a in ids]
    return hs


def inplace_fields(ctx):
    """configuration fields whose container some code of the package mutates in place (from the regenerated write table:
    '<...>md_config.<field>.<mutator>' / 'config.<field>[...]'): the per-document copy must not share them with the global"""
    out = set()
    for w in getattr(ctx, "c15_writes", []):
        m = re.search(r"(?:md_config|myst_config|config)\.(\w+)\.(?:add|update|append|pop|setdefault|extend|insert|remove|clear|discard)$", w["target"])
        if m and w["kind"] == "mutating-call":
            out.add(m.group(1))
        m = re.search(r"(?:md_config|myst_config)\.(\w+)\[", w["target"])
        if m:
            out.add(m.group(1))
    return out


def settings_fields(ctx):
    """configuration fields that the renderer copies onto document.settings (write targets 'self.document.settings.myst_<field>')"""
    return sorted({m.group(1) for w in getattr(ctx, "c15_writes", []) for m in [re.search(r"document\.settings\.myst_(\w+)$", w["target"])] if m})


def corr(ctx):
    from gen import c15_items
    rows = coq_hist_table()
    items = c15_items.targeted_items()
    by_id = {it["id"]: it for it in items}
    probes = probe_histories(items)
    for r in rows:
        ctx.count("class:" + r["klass"])
    wanted = sorted({r["probe"] for r in rows if r["probe"] not in ("-", "merge", "figure-md", "sphinx-metadata")} & set(probes))
    leak_probes = {r["probe"] for r in rows if r["klass"] == "Leak"}
    jobs, meta = [], []
    fresh_ids = sorted({h[-1] for p in wanted for h in probes[p]})
    for i in fresh_ids:
        jobs.append([by_id[i]])
        meta.append(("fresh", i, None))
    for p in wanted:
        for h in probes[p]:
            jobs.append([by_id[i] for i in h])
            meta.append(("hist", p, h))
    # merge_file_level on a shared config object
    merges = c15_items.merge_items()
    jobs.append(merges)
    meta.append(("merge", None, None))
    res = pool_map(_hist_job, jobs)
    fresh = {m[1]: r[0] for m, r in zip(meta, res) if m[0] == "fresh"}
    differs = {}
    for m, r in zip(meta, res):
        if m[0] == "hist":
            _, p, h = m
            ctx.corr_cases += 1
            ctx.nontriv(("probe", p, tuple(h)))
            later = r[-1]
            f = fresh[h[-1]]
            d = (later["doc"], later["warn"]) != (f["doc"], f["warn"])
            if d:
                differs.setdefault(p, []).append((h, diff_signature(f, later)))
        elif m[0] == "merge":
            for case, out in zip(merges, r):
                ctx.corr_cases += 1
                ctx.count("merge")
                if out.get("doc") != "MERGE":
                    ctx.disagree("merge_file_level raised", {"kind": "merge", "case": case}, out.get("doc"), "returns a new config")
                elif out["config_changed"] or out["returned_same_object"] or out["shared_mutable"] or \
                        [f for f in out.get("all_shared_mutable", []) if f in inplace_fields(ctx)]:
                    ctx.disagree("merge_file_level modified (or shares mutable values with) the global config object, classified FreshObject",
                                 {"kind": "merge", "case": case}, {k: out.get(k) for k in ("config_changed", "returned_same_object", "shared_mutable", "all_shared_mutable", "before", "after")},
                                 "global config unchanged")
    for p in wanted:
        predicted_leak = p in leak_probes
        observed = p in differs
        ctx.count(f"probe:{p}:{'differs' if observed else 'same'}")
        if observed != predicted_leak:
            h, sig = differs[p][0] if observed else (None, None)
            ctx.disagree(f"probe '{p}': later output {'differs from' if observed else 'equals'} the fresh output, table predicts "
                         f"{'Leak' if predicted_leak else 'no leak'}",
                         {"kind": "history", "history": [by_id[i] for i in h] if h else None, "probe": p}, sig, "Leak" if predicted_leak else "independent")
    ctx.sample({"probes": wanted, "fresh_runs": len(fresh_ids), "histories": sum(len(probes[p]) for p in wanted)})
    corr_cells(ctx, items)


CELLS = ["HTMLTranslator.visit_rubric", "HTMLTranslator.depart_rubric", "HTMLTranslator.visit_container", "HTMLTranslator.depart_container",
         "roles._roles['']", "roles._roles.pop", "functools.lru_cache", "Include.option_spec", "directive_class.option_spec['heading-offset']"]


def corr_cells(ctx, items):
    """Extracted model vs real process, on the contents of the process-level cells: random histories are run through
    the extracted Coq model (cell states before the first and after every parse) and through the implementation (the
    real objects are dumped at the same points).  Whenever the model says a cell has the same content at two points of
    a history, the real cell must have the same content there: constant cells reach their fixed value with the first
    parse and keep it, restored cells and cells the package does not write never change, the memo table only changes
    when a new input is parsed."""
    if not ctx.have_runner:
        return
    from lib.common import enc_strs, model_run
    rng = ctx.rng
    pool = [it for it in items if not it.get("writer")]
    num = {it["id"]: k for k, it in enumerate(pool)}
    hists = []
    for _ in range(ctx.budget(16, 120, 60)):
        hists.append([pool[rng.randrange(len(pool))] for _ in range(rng.randint(3, 10))])
    # histories that repeat inputs (the model then predicts an unchanged memo table)
    for _ in range(ctx.budget(6, 40, 20)):
        a, b = pool[rng.randrange(len(pool))], pool[rng.randrange(len(pool))]
        hists.append([a, b, a, b, b, a])
    real = pool_map(_hist_job, [[dict(it, dump_cells=True) for it in h] for h in hists])
    classes = model_run(PID, ["classes\t" + enc_strs(CELLS)])[0].split(";")
    lines = ["trace\t%s\t%s" % (enc_strs(CELLS), ",".join(str(num[it["id"]]) for it in h)) for h in hists]
    model = model_run(PID, lines)
    for h, r, m in zip(hists, real, model):
        ctx.corr_cases += 1
        if any("cells" not in x for x in r):
            ctx.count("cells:history-with-exception")
            continue
        mstates = [st.split("/") for st in m.split(" ")]
        rstates = [r[0]["cells_before"]] + [x["cells"] for x in r]
        if len(mstates) != len(rstates):
            ctx.disagree("cell trace: model and implementation give a different number of states", {"kind": "history", "history": h}, len(rstates), len(mstates))
            continue
        ctx.nontriv(("cells", tuple(it["id"] for it in h)))
        for ci, cell in enumerate(CELLS):
            for p in range(len(mstates)):
                for q in range(p + 1, len(mstates)):
                    if mstates[p][ci] == mstates[q][ci] and rstates[p][cell] != rstates[q][cell]:
                        ctx.count("cells:disagree:" + cell)
                        ctx.disagree(f"cell {cell!r} (class {classes[ci]}): the model has the same content after {p} and after {q} parses, "
                                     "the real object differs",
                                     {"kind": "history", "history": [dict(it) for it in h[:q]], "probe": "cells"},
                                     {"after_%d" % p: rstates[p][cell], "after_%d" % q: rstates[q][cell]}, mstates[p][ci])
                        break
                else:
                    continue
                break
        ctx.count("cells:histories")
    ctx.sample({"cell_trace_example": {"history": [it["id"] for it in hists[0]], "model": model[0][:300], "classes": dict(zip(CELLS, classes))}})


# ------------------------------------------------------------------------------------------------ search

def search(ctx):
    from gen import c01_docgen, c15_items
    rng = ctx.rng
    items = c15_items.targeted_items()
    n_rand = ctx.budget(60, 600, 300)
    for k in range(n_rand):
        c = c01_docgen.gen_case(rng, "docutils", False)
        c["id"] = f"rand{k}"
        # configurations that are known C01 findings would only add noise here
        c["settings"].pop("myst_words_per_minute", None)
        if "paragraph" in str(c["settings"].get("myst_disable_syntax")) or "words_per_minute" in c["text"] or "disable_syntax" in c["text"]:
            continue
        if "lipsum" in c["text"] or "|random" in c["text"]:
            continue  # Jinja's lipsum() / random filter are random by definition: the document asks for it
        items.append(c)
    by_id = {it["id"]: it for it in items}
    ids = list(by_id)
    jobs, meta = [], []
    # suspects from the correspondence first
    for s in ctx.suspects:
        if isinstance(s, dict) and s.get("kind") == "history" and s.get("history"):
            for it in s["history"]:
                by_id.setdefault(it["id"], it)
            jobs.append(s["history"])
            meta.append(("hist", [it["id"] for it in s["history"]]))
    # every item fresh
    for i in ids:
        jobs.append([by_id[i]])
        meta.append(("fresh", [i]))
    # regression history of the repaired Include.option_spec leak + long random histories
    for fixed in (["myst-include", "rst-include-offset"], ["default-role-myst", "default-role-use"], ["role-def-myst", "role-use"],
                  ["role-def-rst", "role-use"], ["lang-bogus", "lang-bogus-2"]):
        jobs.append([by_id[i] for i in fixed])
        meta.append(("hist", fixed))
    # one-field configuration deltas: same document, same path, configurations that differ in exactly one field (A,B,B,A)
    import importlib.util
    deltas, uncovered = c15_items.config_delta_histories(importlib.util.find_spec("linkify_it") is not None)
    for field, hist in deltas:
        for it in hist:
            by_id.setdefault(it["id"], it)
        jobs.append(hist)
        meta.append(("hist", [it["id"] for it in hist]))
        ctx.count("delta-history:" + field)
    for i in sorted({it["id"] for _, hist in deltas for it in hist}):
        jobs.append([by_id[i]])
        meta.append(("fresh", [i]))
    if uncovered:
        ctx.notes.append("configuration fields without a second value for the one-field delta histories: " + ", ".join(uncovered))
    # histories at the level of ONE parser object (create_md_parser ... md.render(t1); md.render(t2)) and of ONE docutils
    # settings object shared by several publish calls
    level_jobs = c15_items.md_reuse_histories(rng, ctx.budget(12, 120, 60)) + c15_items.shared_settings_histories(settings_fields(ctx))
    ctx.count("level-histories:md_reuse", sum(1 for j in level_jobs if j["kind"] == "md_reuse"))
    ctx.count("level-histories:shared_settings", sum(1 for j in level_jobs if j["kind"] == "shared_settings"))
    n_hist = ctx.budget(48, 600, 300)
    hlen = ctx.budget(25, 40, 40)
    for _ in range(n_hist):
        h = [ids[rng.randrange(len(ids))] for _ in range(hlen)]
        jobs.append([by_id[i] for i in h])
        meta.append(("hist", h))
    # level histories: each whole history is one job; the reference of every position is the same text alone
    ljobs, lmeta = [], []
    for j in level_jobs:
        ljobs.append([j])
        lmeta.append(("hist", j))
        for t in dict.fromkeys(j["texts"]):
            ljobs.append([dict(j, texts=[t])])
            lmeta.append(("fresh", (j["kind"], json.dumps(j.get("config") or j.get("settings"), sort_keys=True), t)))
    res_all = pool_map(_hist_job, jobs + ljobs)
    res, lres = res_all[:len(jobs)], res_all[len(jobs):]
    lfresh = {m[1]: r[0] for m, r in zip(lmeta, lres) if m[0] == "fresh"}
    lreported = set()
    for m, r in zip(lmeta, lres):
        if m[0] != "hist":
            continue
        j = m[1]
        for pos, (t, out) in enumerate(zip(j["texts"], r)):
            ctx.search_cases += 1
            f = lfresh[(j["kind"], json.dumps(j.get("config") or j.get("settings"), sort_keys=True), t)]
            if pos > 0:
                ctx.nontriv((j["kind"], pos, t[:40]))
            if (out["doc"], out["warn"]) == (f["doc"], f["warn"]):
                ctx.count(j["kind"] + ":same")
                continue
            if j["kind"] == "shared_settings":
                cur = j["labels"][pos]
                stale = next((l for l in reversed(j["labels"][:pos]) if l != cur), "nothing")
                sig = f"shared-settings:{j['field']}:current={cur}:stale-from={stale}"
                hist = dict(j, texts=j["texts"][:pos + 1], labels=j["labels"][:pos + 1])
            else:
                sig = "md-reuse:" + diff_signature(f, out).split(":", 1)[1]
                hist = dict(j, texts=j["texts"][:pos + 1])
            ctx.count(j["kind"] + ":differs")
            if sig in lreported:
                continue
            lreported.add(sig)
            what = ("a document rendered by a parser object that has rendered other documents before differs from the same document rendered by a new parser object"
                    if j["kind"] == "md_reuse" else
                    f"publish calls sharing one docutils settings object: the document published after one whose front matter set {j['field']} = "
                    f"{j['labels'][pos - 1] if pos else '-'} differs from the same document published with a fresh settings object")
            ctx.fail(sig, {"kind": "history", "history": [hist]}, what, expected={"doc": f["doc"][-1500:], "warn": f["warn"][:500]},
                     observed={"doc": out["doc"][-1500:], "warn": out["warn"][:500]})
    search_settings_values(ctx, c15_items)
    fresh = {}
    for m, r in zip(meta, res):
        if m[0] == "fresh":
            fresh[m[1][0]] = r[0]
            ctx.search_cases += 1
    reported = set()
    for m, r in zip(meta, res):
        if m[0] != "hist":
            continue
        h = m[1]
        for pos, (i, out) in enumerate(zip(h, r)):
            ctx.search_cases += 1
            f = fresh.get(i)
            if f is None:
                continue
            if pos > 0 and (out["warn"] or "{" in by_id[i]["text"]):
                ctx.nontriv((tuple(h[:pos]), i))
            if out.get("settings_mutated") or f.get("settings_mutated"):
                if "settings" not in reported:
                    reported.add("settings")
                    ctx.fail("config:settings-mutated", {"kind": "history", "history": [by_id[i]]},
                             "the settings / configuration values passed to the parser were modified by the parse")
            if (out["doc"], out["warn"]) == (f["doc"], f["warn"]):
                ctx.count("position:same")
                continue
            sig = diff_signature(f, out)
            ctx.count("position:differs:" + sig)
            if sig in reported:
                continue
            reported.add(sig)
            hist = shrink_history([by_id[x] for x in h[:pos + 1]], f)
            ctx.fail(sig, {"kind": "history", "history": hist},
                     f"document parsed after {len(hist) - 1} other parse(s) in the same process differs from the same document parsed first in a fresh process",
                     expected={"doc": f["doc"][:1500], "warn": f["warn"][:800]}, observed={"doc": out["doc"][:1500], "warn": out["warn"][:800]})
    for i in ids[:2]:
        ctx.sample({"item": i, "text": by_id[i]["text"][:200], "settings": by_id[i]["settings"]})
    ctx.sample({"history_example": meta[-1][1][:8]})
    search_sphinx(ctx)


def search_settings_values(ctx, c15_items):
    """one settings object (and shallow copies of it) reused across publish calls while the myst_* values on it change:
    every step must equal the same document published under a fresh settings object carrying the same values"""
    import importlib.util
    hists = c15_items.settings_value_histories(importlib.util.find_spec("linkify_it") is not None)
    jobs, meta = [], []
    for h in hists:
        jobs.append([h])
        meta.append(("hist", h))
        for st in {json.dumps(x["values"], sort_keys=True, default=repr): x for x in h["steps"]}.values():
            jobs.append([dict(h, steps=[dict(st, copy=False)])])
            meta.append(("fresh", (h["field"], json.dumps(st["values"], sort_keys=True, default=repr))))
    res = pool_map(_hist_job, jobs)
    fresh = {m[1]: r[0] for m, r in zip(meta, res) if m[0] == "fresh"}
    reported = set()
    for m, r in zip(meta, res):
        if m[0] != "hist":
            continue
        h = m[1]
        ctx.count("level-histories:settings_values")
        for pos, (st, out) in enumerate(zip(h["steps"], r)):
            ctx.search_cases += 1
            f = fresh[(h["field"], json.dumps(st["values"], sort_keys=True, default=repr))]
            if pos:
                ctx.nontriv(("settings-values", h["field"], pos, st["label"]))
            if (out["doc"], out["warn"]) == (f["doc"], f["warn"]):
                continue
            stale = next((x["label"] for x in reversed(h["steps"][:pos]) if x["label"] != st["label"]), "nothing")
            sig = f"settings-values:{h['field']}:{'copy' if st.get('copy') else 'same-object'}"
            if sig in reported:
                continue
            reported.add(sig)
            ctx.fail(sig, {"kind": "history", "history": [dict(h, steps=h["steps"][:pos + 1])]},
                     f"one docutils settings object reused across publish calls: after myst_{h['field']} was changed on it (value #{stale} -> "
                     f"#{st['label']}) the document is still parsed with an earlier configuration; differs from a fresh settings object with the same values",
                     expected={"doc": f["doc"][-1200:], "warn": f["warn"][:500]}, observed={"doc": out["doc"][-1200:], "warn": out["warn"][:500]})


def shrink_history(hist, fresh_out):
    """find a short prefix-subsequence that still makes the last item differ (greedy removal, each trial in a fresh process)."""
    last = hist[-1]
    cur = hist[:-1]
    differs = lambda r: (r[-1]["doc"], r[-1]["warn"]) != (fresh_out["doc"], fresh_out["warn"])  # noqa: E731
    # one predecessor is often enough
    singles = pool_map(_hist_job, [[x, last] for x in cur])
    for x, r in zip(cur, singles):
        if differs(r):
            return [x, last]
    tries = 0
    changed = True
    while changed and cur and tries < 30:
        changed = False
        tries += 1
        cands = [cur[:k] + cur[k + 1:] for k in range(len(cur))][:16]
        res = pool_map(_hist_job, [c + [last] for c in cands])
        for c, r in zip(cands, res):
            if (r[-1]["doc"], r[-1]["warn"]) != (fresh_out["doc"], fresh_out["warn"]):
                cur, changed = c, True
                break
    return cur + [last]


def search_sphinx(ctx):
    from gen import c15_items
    rng = ctx.rng
    n_proj = ctx.budget(3, 24, 12)
    jobs, meta = [], []
    for p in range(-2, n_proj):
        proj = c15_items.alias_project() if p == -2 else c15_items.role_project() if p == -1 else c15_items.gen_project(rng, amsmath=(p % 3 == 2))
        names = list(proj["files"])
        shuffled = names[:]
        rng.shuffle(shuffled)
        for variant, kw in (("serial", {"parallel": 0}), ("parallel4", {"parallel": 4}), ("parallel4-shuffled", {"parallel": 4, "order": shuffled}),
                            ("serial-again", {"parallel": 0})):
            jobs.append(dict(proj, **kw))
            meta.append((p, variant, proj))
    # incremental axis: build, edit one source (or only touch it), rebuild with the pickled environment; the HTML must equal
    # a fresh full build of the edited sources
    n_inc = ctx.budget(1, 8, 4)
    for p in range(n_inc):
        proj = c15_items.gen_project(rng, amsmath=(p % 2 == 0))
        docs = sorted(n for n in proj["files"] if n.startswith("doc"))
        victim = docs[rng.randrange(len(docs))]
        for kind, edit in (("append", {"name": victim, "content": proj["files"][victim] + "\nAppended *paragraph* with [a link](doc0.md) and $y$.\n\n(newtgt)=\nText after a new target.\n"}),
                           ("touch", {"name": victim}),
                           ("included", {"name": "inc_part.md", "content": "changed *included* part [to](doc0.md)\n\n## Inc heading\n\nmore\n"})):
            edited = dict(proj["files"])
            if "content" in edit:
                edited[edit["name"]] = edit["content"]
            jobs.append(dict(proj, edit=edit))
            meta.append((f"inc{p}", "incremental:" + kind, dict(proj, edit=edit)))
            jobs.append(dict(proj, files=edited, parallel=0))
            meta.append((f"inc{p}", "incremental-ref:" + kind, proj))
    res = pool_map(_sphinx_job, jobs, procs=8)
    inc = {}
    for (p, variant, proj), r in zip(meta, res):
        if variant.startswith("incremental"):
            inc[(p, variant)] = (r, proj)
    for (p, variant), (r, proj) in inc.items():
        if not variant.startswith("incremental:"):
            continue
        kind = variant.split(":", 1)[1]
        ref = inc[(p, "incremental-ref:" + kind)][0]
        ctx.search_cases += 1
        ctx.count("sphinx:incremental:" + kind)
        ctx.nontriv(("sphinx-inc", p, kind))
        if r.get("error") or ref.get("error"):
            ctx.fail("sphinx:incremental:build-error", {"kind": "sphinx-incremental", "project": proj, "edit_kind": kind},
                     "incremental or reference build failed: " + str(r.get("error") or ref.get("error")))
            continue
        for fn in sorted(set(ref["html"]) | set(r["html"])):
            if ref["html"].get(fn) != r["html"].get(fn):
                a_l, b_l = (ref["html"].get(fn) or "").splitlines(), (r["html"].get(fn) or "").splitlines()
                dl = next(((x, y) for x, y in zip(a_l, b_l) if x != y), ("", ""))
                ctx.fail("sphinx:incremental:html:" + kind, {"kind": "sphinx-incremental", "project": proj, "edit_kind": kind, "file": fn},
                         f"HTML of {fn} after an incremental rebuild ({kind}) differs from a fresh full build of the same sources",
                         expected=dl[0][:400], observed=dl[1][:400])
                break
    meta_res = [(m, r) for m, r in zip(meta, res) if not m[1].startswith("incremental")]
    meta, res = [m for m, _ in meta_res], [r for _, r in meta_res]
    ctx.notes.append("Sphinx comparison masks: absolute source dir -> <SRC>; 'Last updated on'/'Created using' footer text; ?v=/?digest= asset "
                     "hashes; search.html and genindex.html are not compared; nothing else")
    base = {}
    reported = set()
    for (p, variant, proj), r in zip(meta, res):
        ctx.search_cases += 1
        ctx.count("sphinx:" + variant)
        if len(proj["files"]) > 5:
            ctx.nontriv(("sphinx", p, variant))
        if r.get("error"):
            sig = "sphinx:build-error:" + r["error"].split(":")[0]
            if sig not in reported:
                reported.add(sig)
                ctx.fail(sig, {"kind": "sphinx", "project": proj, "variant": variant}, "generated project does not build: " + r["error"])
            continue
        if r.get("config_changed"):
            if "cfg" not in reported:
                reported.add("cfg")
                ctx.fail("sphinx:global-config-mutated", {"kind": "sphinx", "project": proj, "variant": variant},
                         "env.myst_config differs after the build from what it was at builder-inited")
        if variant.startswith("parallel"):
            ctx.count("sphinx:read-workers-forked" if r.get("parallel_read") else "sphinx:parallel-requested-but-serial")
        if variant == "serial":
            base[p] = r
            continue
        b = base.get(p)
        if b is None:
            continue
        if r["warnings"] != b["warnings"]:
            only = [w for w in r["warnings"] if w not in b["warnings"]] or [w for w in b["warnings"] if w not in r["warnings"]]
            sig = "sphinx:warnings:" + ("rerun" if variant == "serial-again" else "parallel") + ":" + re.sub(r"[^A-Za-z]+", "-", QUOTED.sub("*", only[0].split("WARNING:")[-1]))[:60]
            if sig not in reported:
                reported.add(sig)
                ctx.fail(sig, {"kind": "sphinx", "project": proj, "variant": variant}, f"sorted warnings of the {variant} build differ from the serial build",
                         expected=b["warnings"][:30], observed=r["warnings"][:30])
        if r["warnings"] != b["warnings"]:
            continue  # the HTML differences that come with different warnings are the same defect
        for fn in sorted(set(b["html"]) | set(r["html"])):
            if b["html"].get(fn) != r["html"].get(fn):
                a_l, b_l = (b["html"].get(fn) or "").splitlines(), (r["html"].get(fn) or "").splitlines()
                dl = next(((x, y) for x, y in zip(a_l, b_l) if x != y), ("", ""))
                kind = "equation-label" if "equation-" in dl[0] or "equation-" in dl[1] else re.sub(r"[^a-z]+", "-", re.sub(r"<[^>]*>", "", dl[0]).lower())[:40]
                sig = "sphinx:html:" + ("rerun" if variant == "serial-again" else "parallel") + ":" + kind
                if sig not in reported:
                    reported.add(sig)
                    ctx.fail(sig, {"kind": "sphinx", "project": proj, "variant": variant, "file": fn},
                             f"written HTML of {fn} in the {variant} build differs from the serial build", expected=dl[0][:400], observed=dl[1][:400])
                break


def replay(ctx, data):
    w = data.get("witness")
    if not w:
        print("replay file names no concrete input:", json.dumps(data.get("no_longer_checks"), default=repr)[:2000])
        return 1
    if w.get("kind") == "history" and w["history"] and w["history"][0].get("kind") == "settings_values":
        j = w["history"][0]
        res = pool_map(_hist_job, [[j], [dict(j, steps=[dict(j["steps"][-1], copy=False)])]], procs=2)
        later, fresh = res[0][-1], res[1][0]
        if (later["doc"], later["warn"]) == (fresh["doc"], fresh["warn"]):
            print("replay: the last publish call gives the same output as with a fresh settings object (property holds on this input)")
            return 0
        print("replay: the last publish call differs from a fresh settings object with the same values:", diff_signature(fresh, later))
        return 1
    if w.get("kind") == "history" and w["history"] and w["history"][0].get("kind") in ("md_reuse", "shared_settings"):
        j = w["history"][0]
        res = pool_map(_hist_job, [[j], [dict(j, texts=[j["texts"][-1]])]], procs=2)
        later, fresh = res[0][-1], res[1][0]
        if (later["doc"], later["warn"]) == (fresh["doc"], fresh["warn"]):
            print("replay: the last document gives the same output as with a new parser / settings object (property holds on this input)")
            return 0
        print("replay: the last document of the history differs from the fresh one:", diff_signature(fresh, later))
        return 1
    if w.get("kind") == "history":
        hist = w["history"]
        res = pool_map(_hist_job, [hist, [hist[-1]]], procs=2)
        later, fresh = res[0][-1], res[1][0]
        if (later["doc"], later["warn"]) == (fresh["doc"], fresh["warn"]) and not later.get("settings_mutated"):
            print("replay: the last document of the history gives the same output as in a fresh process (property holds on this input)")
            return 0
        print("replay: output after the history differs from the fresh output:", diff_signature(fresh, later))
        print("--- fresh warnings\n" + fresh["warn"][:600] + "\n--- after history\n" + later["warn"][:600])
        return 1
    if w.get("kind") == "sphinx":
        proj = w["project"]
        names = list(proj["files"])
        res = pool_map(_sphinx_job, [dict(proj, parallel=0), dict(proj, parallel=4), dict(proj, parallel=4, order=list(reversed(names))), dict(proj, parallel=0)], procs=4)
        bad = [i for i in (1, 2, 3) if res[i].get("html") != res[0].get("html") or res[i].get("warnings") != res[0].get("warnings")]
        if not bad and not any(r.get("error") or r.get("config_changed") for r in res):
            print("replay: serial, parallel and repeated builds agree (property holds on this input)")
            return 0
        print("replay: builds differ (variants %s) or failed: %s" % (bad, [r.get("error") for r in res]))
        return 1
    if w.get("kind") == "sphinx-incremental":
        proj = w["project"]
        edit = proj["edit"]
        edited = dict(proj["files"])
        if "content" in edit:
            edited[edit["name"]] = edit["content"]
        res = pool_map(_sphinx_job, [dict(proj), {"files": edited, "conf": proj.get("conf", ""), "parallel": 0}], procs=2)
        if res[0].get("html") == res[1].get("html") and not res[0].get("error") and not res[1].get("error"):
            print("replay: the incremental rebuild equals the fresh full build (property holds on this input)")
            return 0
        print("replay: incremental rebuild differs from the fresh build, or a build failed:", res[0].get("error"), res[1].get("error"))
        return 1
    if w.get("kind") == "merge":
        res = pool_map(_hist_job, [[w["case"]]], procs=1)[0][0]
        print("replay:", res)
        return 1 if (res.get("config_changed") or res.get("returned_same_object") or res.get("shared_mutable")) else 0
    print("replay: unknown witness kind")
    return 1
