"""C06 - nested parsing is transparent: directive bodies, fences, include, substitution."""
import contextlib
import os

from gen import c06_blocks as G
from lib.common import enc_str, enc_strs, dec_str, dec_ostr, dec_strs, model_run, src_hashes

PID = "C06"
RULE = ("gen: source translation (Gen/NestSrc.v: nested_render_text, MockState.nested_parse, render_fence/render_colon_fence, "
        "render_directive/run_directive, render_substitution and the try/finally of MockIncludeDirective.run, statement by statement "
        "with alpha-normalised locals, proved equal to the model: C06_src_is_model, C06_include_log_restored_src); "
        "correspondence: (a) extracted model (Nest/Split.v, Nest/Fence.v: split_lines, info splitting, parse_directive_text for the "
        "admonition classes, wrapper printer, predicted nested_render_text calls, fence detection) vs the implementation "
        "instrumented at DocutilsRenderer.nested_render_text and vs markdown-it; (b) one test per oracle hypothesis on the real "
        "libraries (fence content, admonition classes, text normalisation, mapped tokens, file text, Jinja value); (c) the "
        "metamorphic pairs render(W(X)) vs render(X) on generated block sequences x wrappers (canonical trees, line/source masked, "
        "the C05 relation section <-> rubric with level/ids/names/title asserted explicitly, constant line shift), chains of nested "
        "parses (definitions inside k, uses inside j>k, with/without an own refdef), include histories (same file included more "
        "than once), include/substitution/eval-rst interplay; search: the same oracles on fresh cases + usability of "
        "footnotes/targets/reference definitions across the nested parse in both directions + :heading-offset: (also nested); "
        "non-trivial = a pair whose body has >= 2 blocks or a nested directive, or a wrapper of depth >= 2 or with options, every "
        "chain / history")
TRUSTED = ["coq/Nest/Nest.v is a hand transcription of nested_render_text/run_directive/render_fence/render_colon_fence/"
           "render_substitution/current_node_context (base.py), MockState.nested_parse/MockInliner.parse/"
           "MockIncludeDirective.run (mocking.py); coq/Nest/Split.v of parse_directive_text (directives.py)",
           "gen/c06_src.py + gen/c06_walk.py: the statement mapping (RULES tables) from nested_render_text, MockState.nested_parse, "
           "render_fence/render_colon_fence, render_directive/run_directive, render_substitution to Gallina over the Nest.v state "
           "(self._heading_offset -> hoff, md_env['temp_root_node'] -> troot, _level_to_section -> lmap, md_env -> s_env, "
           "document.sub_references -> s_subrefs, current_node_context -> with_node/with_detached); asserts, the MockingError "
           "handler, the fence_as_directive/commonmark_only/gfm_only configuration (parameters, instantiated at the default) and "
           "statements listed as 'skip' are outside the model",
           "the abstract token type of Nest.v (leaf / container / heading / target / footnote / fence / substitution) "
           "covers how every render_<type> touches shared state; document['source'] switching in include is not modelled",
           "gen/c06_walk.py alpha-normalisation (locals renamed by order of first binding / by what they are first bound to) and "
           "normalisation (f-strings -> 'F', docstrings/asserts dropped)",
           "canonical doctree comparison in props/C06.py (line/source masked; the top-level side rewritten by the C05 relation: "
           "section at depth d -> rubric level=d with the section's ids/names and title content)"]
ORACLES = {
    "P / PI": "the Markdown parser md.parse / md.parseInline (markdown-it-py + plug-ins): token forest and mutated env; abstract in "
              "every theorem (oracles record o_P, o_PI); exercised through O_fence_content, O_norm, O_shift and all metamorphic pairs",
    "O_log": "= log_oracles (Coq: Hypothesis O_log : log_oracles in Nest/InclProofs.v): opaque directives and eval-rst leave "
             "md_env['include_log'] alone; exercised by the include-history cases (corr history:*, search include-history) and the "
             "chains with nested code-block / unknown directives and eval-rst between includes",
    "log_oracles": "opaque directives and eval-rst do not touch md_env['include_log'] (premise of C06_include_chain_restored; "
                   "corr/search: include histories with nested code-block / unknown directives in between)",
    "O_fence_content": "markdown-it: a backtick/tilde/colon fence whose body has no closing line gives one token with "
                       "content = the lines in between, info = rest of the opening line, map = [0, n+2], env untouched "
                       "(corr: oracle:fence on generated bodies incl. nested wrappers)",
    "fence model": "Nest/Fence.v parse_fence (the concrete instance for which O_fence_content is proved, "
                   "C06_oracles_satisfiable) = markdown-it's fence / colon_fence token on generated fences: lengths 3-10, "
                   "runs of other lengths and characters inside, info strings, indentation <= 3, unclosed (corr: oracle:fence-model)",
    "O_shift": "shift_oracles of C06_line_shift_equivariant: tokens whose line would default to 0 carry a map "
               "(corr: oracle:mapped); opaque directives / eval-rst are line-equivariant (metamorphic pairs: constant line "
               "shift of the wrapper's children); no include directive (an included file keeps its own line numbers)",
    "O_fence": "= O_fence_content (Coq: Hypothesis O_fence : fence_oracle env orc in Nest/WrapProofs.v, MoreProofs.v, ShiftProofs.v; "
               "correspondence tests oracle:fence and oracle:fence-model)",
    "O_adm": "docutils admonition classes: option_spec/arguments/has_content as adm_class/admt_class and run() = one "
             "state.nested_parse(content, content_offset, node) (+ inline_text(title) for 'admonition') "
             "(corr: class attributes + predicted nested_render_text call sequence)",
    "O_norm": "md.parse(join('\\n', split_lines(F)) + '\\n') gives the tokens of md.parse(F) for generated F (corr: oracle:norm)",
    "O_fs": "the included text is Path.read_text of the argument (corr: recorded nested_render_text text of include docs)",
    "O_jinja": "a substitution value without template syntax is rendered verbatim (corr: recorded text of substitution docs)",
    "O_splitlines": "myst_parser.parsers.directives.split_lines (regex \\r\\n|\\r|\\n) = Lines.split_lines (corr: model vs the "
                    "implementation on strings over all str.splitlines separators)",
    "O_env_shared": "every nested parse (include, directive body, substitution) receives the SAME md_env object: state a nested "
                    "parse creates - also the first 'references' entry of the whole document - persists for every later one "
                    "(C06_registries_shared; corr/search: chains of wrappers with definitions inside k and uses inside j>k)",
    "O_include_state": "what MockIncludeDirective.run keeps across calls (md_env['include_log'], md_env relative-* entries, "
                       "document['source'], the reporter's source / get_source_and_line) is restored when run returns "
                       "(C06_include_log_restored; corr/search: include histories - the same file included more than once)",
    "O_other_directives": "directives other than admonitions/include only see (name, arguments, options, body, offset, "
                          "position, registries) (metamorphic pairs with nested code-block/unknown directives)",
}
ASSUMPTIONS = ["default MyST configuration + extensions colon_fence, substitution, deflist, tasklist (docutils front end)",
               "bodies X have no blank first/last line and, in the layouts without a separating blank line, a first line that "
               "is not option-like (documented directive syntax)"]

SETTINGS = {"myst_enable_extensions": G.EXTENSIONS}


def gen(ctx):
    import hashlib
    from gen import c06_src
    from lib.common import COQ, REPO, write_if_changed
    src = c06_src.generate(REPO)        # raises Untranslatable on any statement outside the mapping
    write_if_changed(COQ / "Gen" / "NestSrc.v", src)
    ctx.gen_info["NestSrc.v"] = hashlib.sha256(src.encode()).hexdigest()[:16]
    ctx.gen_info["sources"] = src_hashes(["myst_parser/mdit_to_docutils/base.py", "myst_parser/mocking.py",
                                          "myst_parser/parsers/directives.py"])


# ------------------------------------------------------------------ implementation access

@contextlib.contextmanager
def record_nested():
    from myst_parser.mdit_to_docutils.base import DocutilsRenderer
    calls = []
    orig = DocutilsRenderer.nested_render_text

    def rec(self, text, lineno, inline=False, temp_root_node=None, heading_offset=0):
        calls.append((bool(inline), text, lineno))
        return orig(self, text, lineno, inline=inline, temp_root_node=temp_root_node, heading_offset=heading_offset)

    DocutilsRenderer.nested_render_text = rec
    try:
        yield calls
    finally:
        DocutilsRenderer.nested_render_text = orig


def parse(text, settings=None, source_path="<string>"):
    from lib.impl import parse_only
    st = dict(SETTINGS)
    st.update(settings or {})
    return parse_only(text, st, source_path=source_path)


MASK = {"line", "source"}


def canon(node):
    from docutils import nodes
    if isinstance(node, nodes.Text):
        return ("#text", str(node))
    attrs = tuple(sorted((k, repr(v)) for k, v in node.attributes.items()
                         if k not in MASK and v not in ([], "", None)))
    return (node.tagname, attrs, tuple(canon(c) for c in node.children))


def rubricise(cs, depth=0):
    """The C05 relation, explicitly: a heading that is a section at top level (nesting depth d, the headings of a
    generated body never jump a level) is, inside a wrapper, a rubric with level=d, the same ids/names and the same
    title content, followed by the section's content.  The top-level side is rewritten into that form; the wrapper
    side keeps its rubrics (with their level attribute) as they are."""
    out = []
    for c in cs:
        if c[0] == "section":
            kids = c[2]
            if kids and kids[0][0] == "title":
                attrs = tuple(sorted(c[1] + (("level", repr(depth + 1)),)))
                out.append(("rubric", attrs, kids[0][2]))
                out += rubricise(kids[1:], depth + 1)
            else:
                out += rubricise(kids, depth + 1)
        elif c[0] == "#text":
            out.append(c)
        else:
            out.append((c[0], c[1], tuple(rubricise(c[2], depth))))
    return out


def show(cs, ind=0, limit=40):
    lines = []

    def go(c, d):
        if len(lines) > limit:
            return
        if c[0] == "#text":
            lines.append("  " * d + repr(c[1]))
        else:
            lines.append("  " * d + "<" + c[0] + "".join(f" {k}={v}" for k, v in c[1]) + ">")
            for k in c[2]:
                go(k, d + 1)
    for c in cs:
        go(c, ind)
    return "\n".join(lines)


def first_diff(a, b, path=""):
    if len(a) != len(b):
        return f"{path}: {len(a)} vs {len(b)} children: {[x[0] for x in a][:8]} vs {[x[0] for x in b][:8]}"
    for i, (x, y) in enumerate(zip(a, b)):
        if x == y:
            continue
        if x[0] == "#text" or y[0] == "#text" or x[0] != y[0] or x[1] != y[1]:
            return f"{path}/{i}: {x[:2]!r} vs {y[:2]!r}"
        return first_diff(x[2], y[2], f"{path}/{i}:{x[0]}")
    return None


# ------------------------------------------------------------------ the metamorphic relation

def effective_body(case):
    """the text whose top-level rendering the wrapper's children must equal"""
    X = list(case["X"])
    layers = case["layers"]
    last = layers[-1]
    if last["t"] == "A" and last["first"] and not last["titled"]:
        X = [last["first"]] + X          # body text that starts on the opening line
    return X


def unwrap(doc, layers):
    """children of the innermost wrapper node (None, reason when the tree has another shape)"""
    from docutils import nodes
    kids = list(doc.children)
    for layer in layers:
        if layer["t"] != "A":
            continue
        adm = [k for k in kids if isinstance(k, nodes.Admonition)]
        rest = [k for k in kids if not isinstance(k, (nodes.Admonition, nodes.system_message))]
        if len(adm) != 1 or rest:
            return None, f"expected one admonition at layer {layer['name']}: {[k.tagname for k in kids]}"
        a = adm[0]
        want = "admonition" if layer["titled"] else layer["name"]
        if a.tagname != want:
            return None, f"admonition node {a.tagname} for directive {layer['name']}"
        kids = list(a.children)
        if layer["titled"]:
            if not kids or kids[0].tagname != "title":
                return None, "titled admonition without title"
            kids = kids[1:]
    return kids, None


def eval_pair(case):
    """-> (ok, signature, what, expected, observed).  case = {X, layers, pre, post, eol}"""
    from lib.impl import scratch_dir
    X = case["X"]
    layers = case["layers"]
    kind = case_kind(case)
    pre, post = case.get("pre") or [], case.get("post") or []
    Xe = effective_body(case)
    settings = {}
    try:
        with contextlib.ExitStack() as es:
            src = "<string>"
            if layers[0]["t"] == "I":
                d = es.enter_context(scratch_dir())
                src = os.path.join(d, "main.md")
                eol = case.get("eol", "\n")
                tail = "" if case.get("no_final_newline") else eol
                with open(os.path.join(d, layers[0]["path"]), "w", encoding="utf8", newline="") as f:
                    f.write(eol.join(X) + tail)
            if layers[0]["t"] == "S":
                settings = {"myst_substitutions": {layers[0]["key"]: "\n".join(X)}}
            wrapped = pre + ([""] if pre else []) + G.print_layers(layers, X) + ([""] if post else []) + post
            plain = pre + ([""] if pre else []) + Xe + ([""] if post else []) + post
            dw, _ = parse("\n".join(wrapped) + "\n", settings, source_path=src)
            dp, _ = parse("\n".join(plain) + "\n", settings, source_path=src)
    except Exception as e:  # the property statement does not allow either side to raise
        return False, f"exception:{type(e).__name__}:{kind}", f"rendering raised {e!r}", None, repr(e)
    top = [canon(c) for c in dp.children]
    if layers[0]["t"] == "A":
        if pre or post:
            # splice the wrapper's children in place of the wrapper
            npre = len([canon(c) for c in parse("\n".join(pre) + "\n")[0].children]) if pre else 0
            inner, why = unwrap_spliced(dw, layers, npre)
        else:
            inner, why = unwrap(dw, layers)
            inner = None if inner is None else [canon(c) for c in inner]
        if inner is None:
            return False, f"transparent:{kind}:structure", why, show(rubricise(top)), dw.pformat()[:1500]
        got, want = rubricise(inner), rubricise(top)
    else:
        got, want = [canon(c) for c in dw.children], top
    if got == want and layers[0]["t"] == "A" and len(layers) == 1 and not (pre or post) \
            and not (layers[0]["first"] and not layers[0]["titled"]):
        # the constant line shift: position (1) + number of lines before the body
        shift = 1 + len(G.opt_lines(layers[0]))
        inner_nodes, _ = unwrap(dw, layers)
        la = [getattr(n, "line", None) for n in inner_nodes]
        lb = [getattr(n, "line", None) for n in dp.children]
        bad = [(x, y) for x, y in zip(la, lb) if x is not None and y is not None and x - y != shift]
        if bad and not any(l.lstrip().startswith(("```", "~~~", ":::", "{{", "#")) for l in X):
            return False, f"lineshift:{kind}", f"line numbers are not shifted by the constant {shift}: {bad[:4]}", \
                [None if y is None else y + shift for y in lb], la
    if got != want:
        sig = f"transparent:{kind}"
        if any(ord(ch) in SEPS for l in X for ch in l):
            sig = "splitlines:separator-in-included-file" if kind == "include" else \
                "splitlines:separator-in-directive-body"
        return False, sig, "nodes differ: " + str(first_diff(got, want)), show(want), show(got)
    return True, None, None, None, None


SEPS = {11, 12, 28, 29, 30, 133, 8232, 8233}


def unwrap_spliced(doc, layers, npre):
    from docutils import nodes
    kids = list(doc.children)
    idx = [i for i, k in enumerate(kids) if isinstance(k, nodes.Admonition)]
    # the wrapper is the admonition at position npre (pre renders to npre nodes)
    cand = [i for i in idx if i >= npre]
    if not cand:
        return None, f"no admonition after the {npre} leading nodes: {[k.tagname for k in kids]}"
    i = cand[0]

    class _D:
        children = [kids[i]]
    inner, why = unwrap(_D, layers)
    if inner is None:
        return None, why
    return [canon(c) for c in kids[:i]] + [canon(c) for c in inner] + [canon(c) for c in kids[i + 1:]], None


def case_kind(case):
    layers = case["layers"]
    l0 = layers[0]
    if l0["t"] == "I":
        return "include"
    if l0["t"] == "S":
        return "subst"
    if len(layers) > 1:
        return "nest"
    if l0["titled"]:
        return "adm-titled"
    if l0["k"] == "c":
        return "colon"
    return "adm-opts" if l0["okind"] in ("C", "D") else "adm"


def gen_case(rng, force=None):
    names = G.Names()
    r = rng.random() if force is None else {"adm": 0.1, "include": 0.75, "subst": 0.9}[force]
    headings = rng.random() < 0.15
    allow = {"directive"} | ({"heading"} if headings else set())
    X = G.body(rng, names, allow=frozenset(allow))
    if headings:
        names.hlevel = 1
        X = G.body(rng, names, allow=frozenset(allow))
        X = ["# Top " + rng.choice(G.WORDS[:11]), ""] + X
    case = {"X": X}
    if r < 0.7:
        case["layers"] = G.gen_wrapper(rng, X)
        if rng.random() < 0.25 and not headings:
            case["pre"] = ["before " + G.words(rng)]
            case["post"] = ["after " + G.words(rng)]
    elif r < 0.85:
        case["layers"] = [{"t": "I", "path": "inc%d.md" % rng.randint(0, 9)}]
        case["eol"] = rng.choice(["\n", "\n", "\n", "\r\n"])
        case["no_final_newline"] = rng.random() < 0.3
        if rng.random() < 0.3 and not headings:
            case["pre"] = ["before " + G.words(rng)]
            case["post"] = ["after " + G.words(rng)]
    else:
        case["layers"] = [{"t": "S", "key": "key%d" % rng.randint(0, 9)}]
    return case


def nontrivial(case):
    X = case["X"]
    return ("" in X) or len(case["layers"]) > 1 or any(l.get("okind") in ("C", "D") for l in case["layers"]) \
        or any(l.lstrip().startswith(("```", ":::", "~~~")) for l in X)


# ------------------------------------------------------------------ oracle tests

def md_parser():
    from myst_parser.config.main import MdParserConfig
    from myst_parser.mdit_to_docutils.base import DocutilsRenderer
    from myst_parser.parsers.mdit import create_md_parser
    return create_md_parser(MdParserConfig(enable_extensions=set(G.EXTENSIONS)), DocutilsRenderer)


def tok_dump(tokens):
    out = []
    for t in tokens:
        out.append((t.type, t.tag, t.nesting, tuple(t.map) if t.map else None, t.content, t.markup, t.info,
                    repr(sorted((t.meta or {}).items(), key=repr)), repr(sorted((t.attrs or {}).items())),
                    tok_dump(t.children) if t.children else None))
    return out


def oracle_tests(ctx):
    from myst_parser.parsers.directives import split_lines
    rng = ctx.rng
    md = md_parser()
    # O_fence_content
    n = ctx.budget(300, 3000, 3000)
    for _ in range(n):
        X = G.body(rng)
        layers = G.gen_wrapper(rng, X)
        lines = G.print_layers(layers, X)
        inner = lines[1:-1]
        l0 = layers[0]
        env = {}
        toks = md.parse("\n".join(lines) + "\n", env)
        ctx.corr_cases += 1
        ctx.count("oracle:fence")
        fence = G.FCH[l0["k"]] * l0["len"]
        info = lines[0][len(fence):]
        want_type = "colon_fence" if l0["k"] == "c" else "fence"
        ok = (len(toks) == 1 and toks[0].type == want_type and toks[0].content == "".join(l + "\n" for l in inner)
              and toks[0].info == info and list(toks[0].map) == [0, len(inner) + 2]
              and not env.get("references") and not env.get("footnotes", {}).get("refs"))
        if not ok:
            ctx.disagree("O_fence_content", {"oracle": "fence", "text": "\n".join(lines)},
                         repr([(t.type, t.map, t.info) for t in toks])[:400], f"one {want_type} token, content = body")
    # the concrete fence model (Nest/Fence.v, the instance for which O_fence_content is proved) vs markdown-it:
    # lengths 3-10, shorter/longer runs and other fence characters inside, info strings, indentation <= 3
    if ctx.have_runner:
        texts = []
        for _ in range(ctx.budget(1500, 15000, 15000)):
            ch = rng.choice("`~:")
            n = rng.randint(3, 10)
            ind = rng.choice([0, 0, 0, 1, 2, 3])
            info = rng.choice(["", "python", "{note}", " {note} title x", "{tip} a b", " x ", "{admonition} T"])
            if ch == "`" and rng.random() < 0.1:
                info += " `q`"
            lines = [" " * ind + ch * n + info]
            for _ in range(rng.randint(0, 7)):
                r = rng.random()
                if r < 0.3:
                    lines.append(" " * rng.randint(0, 3) + ch * rng.randint(1, n + 1) + rng.choice(["", "", " ", "x", "{tip}"]))
                elif r < 0.4:
                    lines.append("")
                elif r < 0.5:
                    lines.append(" " * rng.randint(0, 5) + "text")
                elif r < 0.6:
                    lines.append(rng.choice("`~:") * rng.randint(3, 6) + rng.choice(["", "{note}"]))
                else:
                    lines.append("word " + str(rng.randint(0, 9)))
            if rng.random() < 0.8:
                lines.append(" " * rng.choice([0, 0, 1, 3]) + ch * rng.randint(n, n + 2) + rng.choice(["", "  "]))
            if rng.random() < 0.4:
                lines += ["", "after"]
            texts.append("\n".join(lines) + "\n")
        outs = model_run(PID, ["fence\t" + enc_str(t) for t in texts])
        for t, o in zip(texts, outs):
            toks = md.parse(t, {})
            if toks and toks[0].type in ("fence", "colon_fence"):
                k = toks[0]
                impl = " ".join(["1" if k.type == "colon_fence" else "0", enc_str(k.info), enc_str(k.content),
                                 str(k.map[1] - k.map[0])])
            else:
                impl = "none"
            ctx.corr_cases += 1
            ctx.count("oracle:fence-model")
            if impl != "none":
                ctx.nontriv(("fence-model", t))
            if impl != o:
                ctx.disagree("fence model (Nest/Fence.v parse_fence) vs markdown-it", {"oracle": "fence-model", "text": t},
                             impl[:300], o[:300])
    # shift_oracles.so_P_mapped: tokens whose line would default to 0 carry a map
    for _ in range(ctx.budget(150, 1500, 1500)):
        F = "\n".join(G.body(rng, allow=frozenset({"directive", "heading"}))) + "\n"

        def walk(ts):
            for t in ts:
                yield t
                if t.children:
                    yield from walk(t.children)
        bad = [t.type for t in walk(md.parse(F, {})) if t.type in ("myst_target", "footnote_reference_open", "fence",
                                                                  "colon_fence", "heading_open", "substitution_block")
               and not t.map]
        ctx.corr_cases += 1
        ctx.count("oracle:mapped")
        if bad:
            ctx.disagree("O_shift (tokens with a default line carry a map)", {"oracle": "mapped", "text": F}, bad, "all mapped")
    # O_adm: class attributes
    from docutils.parsers.rst import directives
    from docutils.parsers.rst.languages import en
    from docutils.utils import new_document
    from docutils.frontend import get_default_settings
    from docutils.parsers.rst import Parser as RSTParser
    doc = new_document("x", get_default_settings(RSTParser))
    for name in G.ADMONITIONS + ["admonition"]:
        cls, _ = directives.directive(name, en, doc)
        got = (bool(cls.option_spec), cls.required_arguments, cls.optional_arguments,
               bool(cls.final_argument_whitespace), bool(cls.has_content))
        want = (True, 1 if name == "admonition" else 0, 0, True, True)
        ctx.corr_cases += 1
        ctx.count("oracle:adm-class")
        if got != want:
            ctx.disagree("O_adm class attributes", {"oracle": "adm-class", "name": name}, got, want)
    # O_norm
    for _ in range(ctx.budget(200, 2000, 2000)):
        F = "\n".join(G.body(rng)) + rng.choice(["\n", "\n", "\n\n"])
        a = tok_dump(md.parse(F, {}))
        b = tok_dump(md.parse("\n".join(split_lines(F)) + "\n", {}))
        ctx.corr_cases += 1
        ctx.count("oracle:norm")
        if a != b:
            ctx.disagree("O_norm", {"oracle": "norm", "text": F}, "tokens of F", "tokens of join(splitlines(F))+nl differ")


def model_tests(ctx):
    """extracted model vs implementation"""
    from docutils.parsers.rst.directives.admonitions import Admonition, Note
    from docutils.parsers.rst.states import MarkupError
    from myst_parser.parsers.directives import parse_directive_text, split_lines
    rng = ctx.rng
    reqs, checks = [], []
    # splitlines
    alpha = "ab \n\r\x0b\x0c\x1c\x1d\x1e\x85  :-"
    for _ in range(ctx.budget(1500, 20000, 20000)):
        s = "".join(rng.choice(alpha) for _ in range(rng.randint(0, 8)))
        reqs.append("splitlines\t" + enc_str(s))
        checks.append(("split_lines", s, lambda o, s=s: dec_strs(o) == split_lines(s), lambda s=s: split_lines(s)))
    # info string
    for _ in range(ctx.budget(500, 5000, 5000)):
        s = "".join(rng.choice("{}ab \t nt") for _ in range(rng.randint(0, 9)))
        if rng.random() < 0.4:
            s = rng.choice(["{note}", " {note}  t ", "{admonition} My title x", "{a} b  c ", "python", "{}", "{"])

        def want(s=s):
            parts = s.strip().split(maxsplit=1)
            name = parts[0] if parts else ""
            args = parts[1] if len(parts) > 1 else ""
            dn = name[1:-1] if name.startswith("{") and name.endswith("}") else None
            return (name, args, dn)

        def chk(o, s=s, want=want):
            f = o.split(" ")
            return (dec_str(f[0]), dec_str(f[1]), dec_ostr(f[2])) == want()
        reqs.append("info\t" + enc_str(s))
        checks.append(("info", s, chk, want))
    # parse_directive_text for the admonition classes
    for _ in range(ctx.budget(1500, 20000, 20000)):
        r = rng.random()
        if r < 0.5:
            X = G.body(rng, nblocks=rng.randint(1, 2))
            layer = G.gen_layer(rng)
            lines = G.opt_lines(layer) + X
            first = layer["first"]
            titled = layer["titled"]
        else:
            lines = ["".join(rng.choice(":- ab") for _ in range(rng.randint(0, 5))) for _ in range(rng.randint(0, 5))]
            first = rng.choice(["", "", "t", " two words ", "a b c"])
            titled = rng.random() < 0.4
        content = "".join(l + "\n" for l in lines)
        if rng.random() < 0.3 and content:
            content = content[:-1]

        def real(titled=titled, first=first, content=content):
            try:
                p = parse_directive_text(Admonition if titled else Note, first, content)
            except MarkupError:
                return "!MarkupError"
            return (p.arguments, p.body, p.body_offset,
                    any("Splitting content" in w.msg for w in p.warnings),
                    any("Has content" in w.msg for w in p.warnings))

        def chk(o, real=real):
            if o.startswith("!"):
                return real() == o
            f = o.split(" ")
            return (dec_strs(f[0]), dec_strs(f[2]), int(f[3]), f[4] == "1", f[5] == "1") == real()
        reqs.append("split\t%s\t%s\t%s" % ("admt" if titled else "adm", enc_str(first), enc_str(content)))
        checks.append(("split", {"titled": titled, "first": first, "content": content}, chk, real))
    outs = model_run(PID, reqs)
    for (what, case, chk, want), o in zip(checks, outs):
        ctx.corr_cases += 1
        ctx.count("model:" + what)
        try:
            ok = chk(o)
        except Exception as e:
            ok = False
            o = f"{o} ({e!r})"
        if not ok:
            ctx.disagree("model " + what, {"model": what, "case": case}, repr(want())[:400], o[:400])
    # printer + predicted nested_render_text calls
    cases, reqs = [], []
    for _ in range(ctx.budget(400, 4000, 4000)):
        X = G.body(rng, allow=frozenset())
        layers = G.gen_wrapper(rng, X)
        enc = "\t".join(G.enc_layer(l, enc_str, enc_strs) for l in layers)
        reqs.append("print\t%s\t%s" % (enc_strs(X), enc))
        reqs.append("calls\t1\t%s\t%s" % (enc_strs(X), enc))
        cases.append({"X": X, "layers": layers})
    for kind in ("I", "S"):
        for _ in range(ctx.budget(60, 600, 600)):
            X = G.body(rng, allow=frozenset())
            layers = [{"t": "I", "path": "inc.md"}] if kind == "I" else [{"t": "S", "key": "k"}]
            enc = G.enc_layer(layers[0], enc_str, enc_strs)
            reqs.append("print\t%s\t%s" % (enc_strs(X), enc))
            reqs.append("calls\t1\t%s\t%s" % (enc_strs(X), enc))
            cases.append({"X": X, "layers": layers})
    outs = model_run(PID, reqs)
    from lib.impl import scratch_dir
    for i, case in enumerate(cases):
        X, layers = case["X"], case["layers"]
        mprint, mcalls = outs[2 * i], outs[2 * i + 1]
        ctx.corr_cases += 1
        ctx.count("model:print+calls:" + case_kind(case))
        lines = G.print_layers(layers, X)
        if dec_strs(mprint) != lines:
            ctx.disagree("wrapper printer (model vs harness)", case, lines, dec_strs(mprint))
            continue
        settings, src = {}, "<string>"
        with contextlib.ExitStack() as es:
            if layers[0]["t"] == "I":
                d = es.enter_context(scratch_dir())
                src = os.path.join(d, "main.md")
                with open(os.path.join(d, layers[0]["path"]), "w", encoding="utf8") as f:
                    f.write("\n".join(X) + "\n")
            if layers[0]["t"] == "S":
                settings = {"myst_substitutions": {layers[0]["key"]: "\n".join(X)}}
            try:
                with record_nested() as calls:
                    parse("\n".join(lines) + "\n", settings, source_path=src)
            except Exception as e:
                ctx.disagree("nested_render_text calls", case, f"raised {e!r}", mcalls)
                continue
        if mcalls.startswith("!"):
            pred = mcalls
        else:
            pred = [] if mcalls == "." else [(f.split("|")[0] == "1", dec_str(f.split("|")[1]), int(f.split("|")[2]))
                                             for f in mcalls.split(" ")]
        got = list(calls[:len(pred)]) if isinstance(pred, list) else list(calls)
        if got != pred:
            ctx.disagree("nested_render_text calls (text, lineno)", case, repr(got)[:600], repr(pred)[:600])
        else:
            ctx.nontriv(("calls", "\n".join(lines)))


def corr(ctx):
    if ctx.have_runner:
        model_tests(ctx)
    oracle_tests(ctx)
    rng = ctx.rng
    for i in range(ctx.budget(150, 1500, 1500)):
        case = gen_chain(rng)
        ok, sig, what, exp, obs = eval_chain(case)
        ctx.corr_cases += 1
        ctx.count("chain:" + ("own-refdef" if case["own_top"] else "no-own-refdef") + (":ok" if ok else ":differs"))
        ctx.nontriv(("chain", repr(case["segs"])))
        if i == 0:
            ctx.sample({"chain_wrapped": chain_docs(case)[0]})
        if not ok and len(ctx.disagreements) < 40:
            ctx.disagree("chain of nested parses (definitions inside k, uses inside j>k): " + str(what), case, obs, exp)
    hist = list(FIXED_HISTORIES) + [gen_history(rng) for _ in range(ctx.budget(80, 800, 800))]
    for i, case in enumerate(hist):
        ok, sig, what, exp, obs = eval_history(case)
        ctx.corr_cases += 1
        ctx.count("history:" + ("ok" if ok else "differs"))
        ctx.nontriv(("history", repr(case["main"]), repr(sorted(case["files"].items()))))
        if i == 0:
            ctx.sample({"history_wrapped": history_docs(case)[0]})
        if not ok and len(ctx.disagreements) < 40:
            ctx.disagree("include history (same file included more than once): " + str(what), case, obs, exp)
    n = ctx.budget(500, 6000, 6000)
    for i in range(n):
        case = gen_case(rng)
        ok, sig, what, exp, obs = eval_pair(case)
        ctx.corr_cases += 1
        ctx.count("pair:" + case_kind(case) + (":ok" if ok else ":differs"))
        if nontrivial(case):
            ctx.nontriv(("pair", "\n".join(G.print_layers(case["layers"], case["X"]))))
        if i < 3:
            ctx.sample({"wrapped": G.print_layers(case["layers"], case["X"]), "kind": case_kind(case)})
        if not ok and len(ctx.disagreements) < 40:
            ctx.disagree("metamorphic pair render(W(X)) vs render(X): " + str(what), case, obs, exp)


# ------------------------------------------------------------------ direct property oracle

def check_case(ctx, case):
    if case.get("clip"):
        ok, sig, what, exp, obs = eval_clip(case)
        if not ok:
            ctx.fail(sig, case, what, expected=exp, observed=obs)
        return ok
    if case.get("history"):
        ok, sig, what, exp, obs = eval_history(case)
        if not ok:
            ctx.fail(sig, case, what, expected=exp, observed=obs)
        return ok
    if case.get("chain"):
        ok, sig, what, exp, obs = eval_chain(case)
        if not ok:
            ctx.fail(sig, case, what, expected=exp, observed=obs)
        return ok
    if case.get("usability"):
        return check_usability(ctx, case)
    if case.get("rst_include_md"):
        return check_rst_include_md(ctx, case)
    if case.get("outside_in"):
        return check_outside_in(ctx, case)
    if case.get("heading_offset"):
        return check_heading_offset(ctx, case)
    if "layers" not in case:
        return True      # oracle / model cases have no direct property reading
    ok, sig, what, exp, obs = eval_pair(case)
    if not ok:
        ctx.fail(sig, case, what, expected=exp, observed=obs)
    return ok


def check_outside_in(ctx, case):
    """a definition made outside (before the wrapper) is usable inside the nested parse: md_env and the
    registries are shared in this direction too"""
    from docutils import nodes
    from lib.impl import publish, scratch_dir
    kind, what = case["wrapper"], case["what"]
    defs = {"footnote": ["[^fn1]: the note text"], "target": ["(tgt1)=", "outer paragraph"],
            "refdef": ["[ref1]: https://ref.example.org/x"]}[what]
    use = {"footnote": "see[^fn1] here", "target": "see [text](#tgt1) here", "refdef": "see [text][ref1] here"}[what]
    settings = dict(SETTINGS)
    src = None
    with contextlib.ExitStack() as es:
        if kind == "include":
            d = es.enter_context(scratch_dir())
            src = os.path.join(d, "main.md")
            with open(os.path.join(d, "inc.md"), "w") as f:
                f.write(use + "\n")
            w = ["```{include} inc.md", "```"]
        elif kind == "subst":
            settings["myst_substitutions"] = {"key": use}
            w = ["{{key}}"]
        else:
            w = ["```{note}", use, "```"]
        try:
            doc, warn = publish("\n".join(defs + [""] + w) + "\n", settings, source_path=src)
        except Exception as e:
            ctx.fail(f"exception:{type(e).__name__}:usability", case, f"raised {e!r}")
            return False
    ps = [p for p in doc.findall(nodes.paragraph) if p.astext().startswith("see")]
    ok = False
    if ps:
        p = ps[0]
        if what == "footnote":
            ok = any(r.get("refid") == "fn1" for r in p.findall(nodes.footnote_reference))
        elif what == "target":
            ok = any(r.get("refid") == "tgt1" for r in p.findall(nodes.reference))
        else:
            ok = any(r.get("refuri") == "https://ref.example.org/x" for r in p.findall(nodes.reference))
    if not ok:
        ctx.fail(f"{what}:outer-definition-not-usable-inside:{kind}", case,
                 f"{what} defined before the {kind} wrapper is not usable inside it (md_env / registries not shared)",
                 expected="resolved reference", observed=ps[0].pformat() if ps else doc.pformat()[:800])
    return ok


def check_heading_offset(ctx, case):
    """include with :heading-offset: k  ==  the file's headings written k levels deeper; the offset must not
    leak to the headings after the include (nested_render_text restores _heading_offset)"""
    from lib.impl import scratch_dir
    k = case["k"]
    with scratch_dir() as d:
        src = os.path.join(d, "main.md")
        with open(os.path.join(d, "inc.md"), "w") as f:
            f.write("# Inner\n\ninner text\n\n## Deeper\n\nmore\n")
        wrapped = ["# A", "", "```{include} inc.md", f":heading-offset: {k}", "```", "", "# B", "", "tail"]
        plain = ["# A", "", "#" * (1 + k) + " Inner", "", "inner text", "", "#" * (2 + k) + " Deeper", "", "more", "",
                 "# B", "", "tail"]
        if case.get("nested"):
            # offsets accumulate: an include with heading-offset inside an included file (94acff7)
            with open(os.path.join(d, "inc.md"), "w") as f:
                f.write("# Inner\n\ninner text\n\n```{include} inc2.md\n:heading-offset: 1\n```\n")
            with open(os.path.join(d, "inc2.md"), "w") as f:
                f.write("# Deep\n\nmore\n")
            plain = ["# A", "", "#" * (1 + k) + " Inner", "", "inner text", "", "#" * (2 + k) + " Deep", "", "more", "",
                     "# B", "", "tail"]
        try:
            dw, _ = parse("\n".join(wrapped) + "\n", source_path=src)
            dp, _ = parse("\n".join(plain) + "\n", source_path=src)
        except Exception as e:
            ctx.fail(f"exception:{type(e).__name__}:heading-offset", case, f"raised {e!r}")
            return False
    a, b = [canon(c) for c in dw.children], [canon(c) for c in dp.children]
    if a != b:
        ctx.fail("include:heading-offset", case, "include with heading-offset differs from the headings written deeper: "
                 + str(first_diff(a, b)), expected=show(b), observed=show(a))
        return False
    return True


# ---- definitions introduced inside wrapper k, used inside a LATER nested parse j > k ----
# All nested parses share one markdown-it env (and the document registries): whatever a nested parse adds -
# also the very first reference definition of the whole document - is there for every later one.

TOP_IN_PLACE = ("include", "subst", "subst-include")     # segments whose text is at top level once pasted in place


def gen_chain(rng):
    own_top = rng.random() < 0.5
    nseg = rng.randint(2, 4)
    segs, defs, n = [], [], 0          # defs: (kind, label, toplevel_in_place)
    for si in range(nseg):
        kind = rng.choice(["include", "include", "subst", "note", "note-include",
                           "subst-include", "note-subst-include", "subst-note-include"])   # interplay (round 4)
        lines = []
        n += 1
        lines.append(f"filler{n} " + G.words(rng, 1, 3))
        # uses of earlier definitions (the first segment has none)
        usable = [d for d in defs]
        rng.shuffle(usable)
        for (dk, lab, top_in_place) in usable[:rng.randint(0, 3)]:
            if dk == "refdef" and kind in TOP_IN_PLACE and not top_in_place:
                continue        # pasted at top level it would be an outer use of an inner definition (known finding)
            n += 1
            use = {"refdef": f"[go{n}][{lab}]", "footnote": f"fnuse{n}[^{lab}]", "target": f"[tg{n}](#{lab})"}[dk]
            lines += ["", f"use{n} {use} end"]
        if own_top and rng.random() < 0.4:
            n += 1
            lines += ["", f"use{n} [go{n}][own] end"]
        # new definitions
        for dk in rng.sample(["refdef", "footnote", "target"], rng.randint(0 if si else 1, 3)):
            n += 1
            lab = {"refdef": "home", "footnote": "fn", "target": "tg"}[dk] + str(n)
            lines += [""] + {"refdef": [f"[{lab}]: https://{lab}.example.org/p"],
                             "footnote": [f"[^{lab}]: note {lab}"],
                             "target": [f"({lab})=", f"target para {lab}"]}[dk]
            defs.append((dk, lab, kind in TOP_IN_PLACE))
        segs.append({"kind": kind, "lines": lines})
        if rng.random() < 0.3:
            fts = [d for d in defs if d[0] != "refdef"]
            if fts:
                dk, lab, _ = rng.choice(fts)
                n += 1
                segs.append({"kind": "top", "lines": [f"outer{n} " + ({"footnote": f"x[^{lab}]", "target": f"[t](#{lab})"}[dk])]})
    return {"chain": True, "own_top": own_top, "segs": segs}


def chain_docs(case):
    """-> (wrapped lines, in-place lines, files, substitutions)"""
    wrapped, plain, files, subs = [], [], {}, {}
    if case["own_top"]:
        head = ["[own]: https://own.example.org/p", "", "top [o][own] paragraph", ""]
        wrapped += head
        plain += head
    for i, seg in enumerate(case["segs"]):
        k, lines = seg["kind"], seg["lines"]
        if k == "include":
            files[f"seg{i}.md"] = "\n".join(lines) + "\n"
            wrapped += [f"```{{include}} seg{i}.md", "```", ""]
            plain += lines + [""]
        elif k == "subst":
            subs[f"seg{i}"] = "\n".join(lines)
            wrapped += ["{{seg%d}}" % i, ""]
            plain += lines + [""]
        elif k == "note":
            wrapped += ["````{note}"] + lines + ["````", ""]
            plain += ["````{note}"] + lines + ["````", ""]
        elif k == "note-include":
            files[f"seg{i}.md"] = "\n".join(lines) + "\n"
            wrapped += ["````{note}", f"```{{include}} seg{i}.md", "```", "````", ""]
            plain += ["````{note}"] + lines + ["````", ""]
        elif k == "subst-include":            # a substitution whose value is an include directive
            files[f"seg{i}.md"] = "\n".join(lines) + "\n"
            subs[f"seg{i}"] = f"```{{include}} seg{i}.md\n```"
            wrapped += ["{{seg%d}}" % i, ""]
            plain += lines + [""]
        elif k == "note-subst-include":       # an include inside a substitution inside a note
            files[f"seg{i}.md"] = "\n".join(lines) + "\n"
            subs[f"seg{i}"] = f"```{{include}} seg{i}.md\n```"
            wrapped += ["````{note}", "{{seg%d}}" % i, "````", ""]
            plain += ["````{note}"] + lines + ["````", ""]
        elif k == "subst-note-include":       # a substitution whose value is a note that includes a file
            files[f"seg{i}.md"] = "\n".join(lines) + "\n"
            subs[f"seg{i}"] = f"````{{note}}\n```{{include}} seg{i}.md\n```\n````"
            wrapped += ["{{seg%d}}" % i, ""]
            plain += ["````{note}"] + lines + ["````", ""]
        else:
            wrapped += lines + [""]
            plain += lines + [""]
    return wrapped, plain, files, subs


def eval_chain(case):
    from docutils import nodes
    from lib.impl import scratch_dir
    wrapped, plain, files, subs = chain_docs(case)
    try:
        with scratch_dir() as d:
            for name, content in files.items():
                with open(os.path.join(d, name), "w", encoding="utf8") as f:
                    f.write(content)
            src = os.path.join(d, "main.md")
            st = {"myst_substitutions": subs}
            dw, _ = parse("\n".join(wrapped) + "\n", st, source_path=src)
            dp, _ = parse("\n".join(plain) + "\n", st, source_path=src)
    except Exception as e:
        return False, f"exception:{type(e).__name__}:chain", f"rendering raised {e!r}", None, repr(e)
    # direct reading: every use of a reference definition inside a later nested parse is a resolved link
    import re as _re
    for seg in case["segs"]:
        if seg["kind"] == "top":
            continue
        for l in seg["lines"]:
            m = _re.match(r"use\d+ \[(go\d+)\]\[(\w+)\] end", l)
            if not m:
                continue
            text, lab = m.group(1), m.group(2)
            refs = [r for r in dw.findall(nodes.reference) if r.astext() == text]
            if not refs or refs[0].get("refuri") != f"https://{lab}.example.org/p":
                para = [p for p in dw.findall(nodes.paragraph) if text in p.astext()]
                return (False, "refdef:inner-definition-not-usable-in-later-nested-parse",
                        f"[{text}][{lab}] inside a {seg['kind']} is not resolved although [{lab}] was defined in an earlier "
                        f"nested parse (own top-level refdef: {case['own_top']})",
                        f"reference refuri=https://{lab}.example.org/p", para[0].pformat() if para else None)
    a, b = [canon(c) for c in dw.children], [canon(c) for c in dp.children]
    if a != b:
        return False, "transparent:chain", "document with include/substitution differs from the text pasted in place: " \
            + str(first_diff(a, b)), show(b), show(a)
    return True, None, None, None, None


def check_rst_include_md(ctx, case):
    """eval-rst that includes a Markdown file through docutils' own include directive with
    :parser: myst_parser.docutils_ : a separate document is parsed (no shared registries - the property's include clause
    is about the {include} directive), so: totality always, and the same nodes for definition-free text"""
    from lib.impl import scratch_dir
    X = case["X"]
    with scratch_dir() as d:
        src = os.path.join(d, "main.md")
        with open(os.path.join(d, "inc.md"), "w", encoding="utf8") as f:
            f.write("\n".join(X) + "\n")
        wrapped = ["before paragraph", "", "```{eval-rst}", ".. include:: inc.md", "   :parser: myst_parser.docutils_", "```",
                   "", "after paragraph"]
        plain = ["before paragraph", ""] + X + ["", "after paragraph"]
        try:
            dw, _ = parse("\n".join(wrapped) + "\n", source_path=src)
            dp, _ = parse("\n".join(plain) + "\n", source_path=src)
        except Exception as e:
            ctx.fail(f"exception:{type(e).__name__}:rst-include-md", case, f"rendering raised {e!r}", None, repr(e))
            return False
    def eof_norm(cs):
        # docutils hands the file to the parser without its final newline: a raw HTML block at the end of the
        # file then lacks the trailing "\n" (markdown-it detail on the docutils route)
        return [(c[0], c[1], tuple((k[0], k[1].rstrip("\n")) if k[0] == "#text" else k for k in c[2])) if c[0] == "raw"
                else (c if c[0] == "#text" else (c[0], c[1], tuple(eof_norm(c[2])))) for c in cs]
    a = eof_norm(rubricise([canon(c) for c in dw.children]))
    b = eof_norm(rubricise([canon(c) for c in dp.children]))
    if a != b:
        ctx.fail("transparent:rst-include-md", case, "eval-rst include of a Markdown file differs from the text in place: "
                 + str(first_diff(a, b)), expected=show(b), observed=show(a))
        return False
    return True


# ---- include histories within one document: the same file included more than once ----
# (twice in sequence; at top level and inside a directive body; through two intermediate files; after a nested chain
# a -> b -> c has returned, b again).  What the include directive keeps across calls - the chain used for the
# circular-inclusion test, md_env entries, the reporter's source/line hooks - must be back to what it was when an
# include returns, so every further include of an acyclic history renders like the text written in place.

def _hist_text(rng, tag):
    """a chunk that begins and ends with a paragraph, so that pasting chunks next to each other does not merge
    lists / quotes across the (former) include boundary"""
    k = rng.randrange(4)
    if k == 0:
        return [f"{tag} para " + G.words(rng, 1, 3)]
    if k == 1:
        return [f"{tag} before list", "", f"- {tag} item one", f"- {tag} item two", "", f"{tag} after list"]
    if k == 2:
        return [f"{tag} before quote", "", f"> {tag} quoted", "", f"{tag} after quote"]
    return [f"{tag} first line", "second *em* line"]


def gen_history(rng, fixed=None):
    """files f0..fn (fi may include fj only for j > i: acyclic), main = items; an item is
    ("text", lines) | ("inc", name) | ("note-inc", name)"""
    if fixed is not None:
        return fixed
    n = rng.randint(1, 4)
    files = {}
    for i in range(n):
        items = [("text", _hist_text(rng, f"F{i}"))]
        for j in range(i + 1, n):
            if rng.random() < 0.5:
                items.append(("inc", f"f{j}.md"))
                if rng.random() < 0.3:
                    items.append(("text", _hist_text(rng, f"F{i}b")))
                if rng.random() < 0.25:
                    items.append(("inc", f"f{j}.md"))           # the same file twice from one file
        files[f"f{i}.md"] = items
    main = [("text", _hist_text(rng, "M"))]
    for _ in range(rng.randint(2, 5)):
        name = f"f{rng.randrange(n)}.md"
        main.append((rng.choice(["inc", "inc", "note-inc"]), name))
        if rng.random() < 0.4:
            main.append(("text", _hist_text(rng, "Mx")))
    # make sure some file is included at least twice in the history
    main.append(("inc", main[1][1]))
    return {"history": True, "files": files, "main": main}


FIXED_HISTORIES = [
    # twice in sequence at top level
    {"history": True, "files": {"f0.md": [("text", ["snippet para"])]},
     "main": [("inc", "f0.md"), ("inc", "f0.md")]},
    # at top level and again inside a directive body
    {"history": True, "files": {"f0.md": [("text", ["snippet para"])]},
     "main": [("inc", "f0.md"), ("note-inc", "f0.md"), ("text", ["tail"])]},
    # through two different intermediate files that both include it
    {"history": True, "files": {"f0.md": [("text", ["A"]), ("inc", "f2.md")], "f1.md": [("text", ["B"]), ("inc", "f2.md")],
                                "f2.md": [("text", ["common"])]},
     "main": [("inc", "f0.md"), ("inc", "f1.md")]},
    # after a nested chain a -> b -> c has returned, b again
    {"history": True, "files": {"f0.md": [("text", ["A"]), ("inc", "f1.md")], "f1.md": [("text", ["B"]), ("inc", "f2.md")],
                                "f2.md": [("text", ["C"])]},
     "main": [("inc", "f0.md"), ("inc", "f1.md"), ("note-inc", "f2.md")]},
]


def history_docs(case):
    files = {k: [tuple(i) for i in v] for k, v in case["files"].items()}

    def file_text(items):
        out = []
        for it in items:
            if out:
                out.append("")
            if it[0] == "text":
                out += list(it[1])
            else:
                out += ["```{include} " + it[1], "```"]
        return out

    def expand(items):
        out = []
        for it in items:
            if out:
                out.append("")
            if it[0] == "text":
                out += list(it[1])
            elif it[0] == "inc":
                out += expand(files[it[1]])
            else:
                out += ["`````{note}"] + expand(files[it[1]]) + ["`````"]
        return out

    wrapped = []
    for it in [tuple(i) for i in case["main"]]:
        if wrapped:
            wrapped.append("")
        if it[0] == "text":
            wrapped += list(it[1])
        elif it[0] == "inc":
            wrapped += ["```{include} " + it[1], "```"]
        else:
            wrapped += ["`````{note}", "```{include} " + it[1], "```", "`````"]
    return wrapped, expand([tuple(i) for i in case["main"]]), {k: "\n".join(file_text(v)) + "\n" for k, v in files.items()}


def eval_history(case):
    from lib.impl import scratch_dir
    wrapped, plain, files = history_docs(case)
    try:
        with scratch_dir() as d:
            for name, content in files.items():
                with open(os.path.join(d, name), "w", encoding="utf8") as f:
                    f.write(content)
            src = os.path.join(d, "main.md")
            dw, ww = parse("\n".join(wrapped) + "\n", source_path=src)
            dp, _ = parse("\n".join(plain) + "\n", source_path=src)
    except Exception as e:
        return False, f"exception:{type(e).__name__}:include-history", f"rendering raised {e!r}", None, repr(e)
    a, b = [canon(c) for c in dw.children], [canon(c) for c in dp.children]
    if a != b:
        return (False, "include:repeated-history",
                "a document that includes the same file more than once (acyclic history) differs from the text written in "
                "place: " + str(first_diff(a, b)), show(b), show(a) + "\n" + ww[-400:])
    return True, None, None, None, None


# ---- {include} clipping options in combination ----
def clip_text(text, start_line, end_line, start_after, end_before):
    """docutils semantics: lines[start:end] first, then start-after, then end-before searched in the text AFTER start-after"""
    from myst_parser.parsers.directives import split_lines
    text = "\n".join(split_lines(text)[start_line:end_line])
    if start_after:
        i = text.find(start_after)
        if i < 0:
            return None
        text = text[i + len(start_after):]
    if end_before:
        i = text.find(end_before)
        if i < 0:
            return None
        text = text[:i]
    return text


def gen_clip(rng, fixed=None):
    if fixed is not None:
        return fixed
    mk = rng.choice(["<!-- snip -->", "%% cut", "=====", "## "])
    region = ["region para " + G.words(rng, 1, 2), "", "[home1]: https://home1.example.org/p", "", "[^fn1]: note fn1", "",
              "- region item"]
    if mk == "## ":
        lines = ["## Install", "", "install text", "", "## Usage", ""] + region + ["", "## Later", "", "later text"]
        sa, eb = "## Usage", "## "
    else:
        lines = ["intro " + mk + " early", "", mk, ""] + region + ["", mk, "", "outro text " + mk + " tail"]
        sa, eb = mk, mk
        if rng.random() < 0.5:
            sa = mk + "\n"
    case = {"clip": True, "lines": lines, "start_after": sa, "end_before": eb, "start_line": None, "end_line": None}
    r = rng.random()
    if r < 0.3:
        case["start_line"] = rng.choice([1, 2])
    elif r < 0.5:
        case["end_line"] = len(lines) - rng.choice([1, 2])
    elif r < 0.6:
        case["start_after"], case["end_before"] = None, eb
    elif r < 0.7:
        case["start_after"], case["end_before"] = sa, None
    return case


FIXED_CLIPS = [
    {"clip": True, "lines": ["before <!-- s --> x", "", "<!-- s -->", "", "inside", "", "[home1]: https://home1.example.org/p", "",
                             "[^fn1]: note fn1", "", "<!-- s -->", "", "after"],
     "start_after": "<!-- s -->\n", "end_before": "<!-- s -->", "start_line": 1, "end_line": None},
    {"clip": True, "lines": ["## A", "", "a text", "", "## B", "", "b text", "", "[home1]: https://home1.example.org/p", "",
                             "[^fn1]: note fn1", "", "## C", "", "c text"],
     "start_after": "## B", "end_before": "## ", "start_line": None, "end_line": None},
    {"clip": True, "lines": ["x <!-- a --><!-- b --> y", "", "z"], "start_after": "<!-- a -->", "end_before": "<!-- b -->",
     "start_line": None, "end_line": None},
]


def eval_clip(case):
    from docutils import nodes
    from lib.impl import scratch_dir
    text = "\n".join(case["lines"]) + "\n"
    clipped = clip_text(text, case["start_line"], case["end_line"], case["start_after"], case["end_before"])
    if clipped is None:
        return True, None, None, None, None

    def q(v):
        return '"' + v.replace("\\", "\\\\").replace('"', '\\"').replace("\n", "\\n") + '"'
    opts = []
    if case["start_line"] is not None:
        opts.append(f":start-line: {case['start_line']}")
    if case["end_line"] is not None:
        opts.append(f":end-line: {case['end_line']}")
    if case["start_after"]:
        opts.append(":start-after: " + q(case["start_after"]))
    if case["end_before"]:
        opts.append(":end-before: " + q(case["end_before"]))
    later = ["", "````{note}", "use1 [go1][home1] and fnuse x[^fn1] end", "````"]
    wrapped = ["lead paragraph", "", "```{include} clip.md"] + opts + ["```"] + later
    plain = ["lead paragraph", ""] + clipped.split("\n") + later
    try:
        with scratch_dir() as d:
            with open(os.path.join(d, "clip.md"), "w", encoding="utf8") as f:
                f.write(text)
            src = os.path.join(d, "main.md")
            dw, ww = parse("\n".join(wrapped) + "\n", source_path=src)
            dp, _ = parse("\n".join(plain) + "\n", source_path=src)
    except Exception as e:
        return False, f"exception:{type(e).__name__}:include-clip", f"rendering raised {e!r}", None, repr(e)
    a, b = [canon(c) for c in dw.children], [canon(c) for c in dp.children]
    if a != b:
        return (False, "include:clipping", "include with " + " ".join(opts) + " differs from the clipped text written in place "
                "(end-before is searched after start-after): " + str(first_diff(a, b)), show(b), show(a) + "\n" + ww[-300:])
    if "[home1]:" in clipped:
        refs = [r for r in dw.findall(nodes.reference) if r.astext() == "go1"]
        if not refs or refs[0].get("refuri") != "https://home1.example.org/p":
            return (False, "refdef:inner-definition-not-usable-in-later-nested-parse",
                    "a refdef inside the clipped region is not usable in a later {note}", "resolved", None)
    return True, None, None, None, None


def usability_doc(kind, what, where):
    """a document with a definition of [what] inside wrapper [kind] and a use outside, [where] = before/after"""
    defs = {"footnote": "[^fn1]: the note text", "target": "(tgt1)=\ninner paragraph", "refdef": "[ref1]: https://ref.example.org/x"}
    uses = {"footnote": "see[^fn1] here", "target": "see [text](#tgt1) here", "refdef": "see [text][ref1] here"}
    inner = ["inner words", ""] + defs[what].split("\n")
    use = [uses[what]]
    return inner, use


def check_usability(ctx, case):
    from docutils import nodes
    from lib.impl import publish, scratch_dir
    kind, what, where = case["wrapper"], case["what"], case["where"]
    inner, use = usability_doc(kind, what, where)
    settings = dict(SETTINGS)
    src = None
    with contextlib.ExitStack() as es:
        if kind == "include":
            d = es.enter_context(scratch_dir())
            src = os.path.join(d, "main.md")
            with open(os.path.join(d, "inc.md"), "w") as f:
                f.write("\n".join(inner) + "\n")
            w = ["```{include} inc.md", "```"]
        elif kind == "subst":
            settings["myst_substitutions"] = {"key": "\n".join(inner)}
            w = ["{{key}}"]
        elif kind == "inplace":
            w = inner
        else:
            w = ["```{note}"] + inner + ["```"]
        lines = (use + [""] + w) if where == "before" else (w + [""] + use)
        try:
            doc, warn = publish("\n".join(lines) + "\n", settings, source_path=src)
        except Exception as e:
            ctx.fail(f"exception:{type(e).__name__}:usability", case, f"raised {e!r}")
            return False
    use_para = [p for p in doc.findall(nodes.paragraph) if p.astext().startswith("see")]
    ok = False
    if use_para:
        p = use_para[0]
        if what == "footnote":
            ok = any(r.get("refid") == "fn1" for r in p.findall(nodes.footnote_reference)) and \
                bool([f for f in doc.findall(nodes.footnote) if "fn1" in f["ids"]])
        elif what == "target":
            ok = any(r.get("refid") == "tgt1" for r in p.findall(nodes.reference))
        else:
            ok = any(r.get("refuri") == "https://ref.example.org/x" for r in p.findall(nodes.reference))
    if not ok:
        sig = {"refdef": "refdef:not-visible-outside-nested-parse"}.get(what, f"{what}:not-usable-outside:{kind}")
        ctx.fail(sig, case, f"{what} defined inside {kind} is not usable from a paragraph {where} it",
                 expected=f"resolved {what} reference in the paragraph", observed=use_para[0].pformat() if use_para else doc.pformat()[:800])
    return ok


def search(ctx):
    for c in ctx.suspects[:100]:
        if c:
            ctx.search_cases += 1
            check_case(ctx, c)
    # usability of definitions made inside, from outside
    for kind in ("inplace", "note", "include", "subst"):
        for what in ("footnote", "target", "refdef"):
            for where in ("before", "after"):
                ctx.search_cases += 1
                ctx.count("usability:" + what)
                check_case(ctx, {"usability": True, "wrapper": kind, "what": what, "where": where})
    for kind in ("note", "include", "subst"):
        for what in ("footnote", "target", "refdef"):
            ctx.search_cases += 1
            ctx.count("usability:outside-in")
            check_case(ctx, {"outside_in": True, "wrapper": kind, "what": what})
    for k in (0, 1, 2):
        for nested in (False, True):
            ctx.search_cases += 1
            ctx.count("heading-offset")
            check_case(ctx, {"heading_offset": True, "k": k, "nested": nested})
    rng = ctx.rng
    # definitions made inside one nested parse, used inside a later one; fixed minimal cases first
    for own in (False, True):
        for first in ("include", "note", "subst"):
            for later in ("note", "include", "note-include", "subst"):
                if later in ("include", "subst") and first == "note":
                    continue
                segs = [{"kind": first, "lines": ["filler1 a", "", "[home1]: https://home1.example.org/p", "", "[^fn1]: note fn1"]},
                        {"kind": later, "lines": ["filler2 b", "", "use2 [go2][home1] end", "", "use3 fnuse3[^fn1] end"]}]
                ctx.search_cases += 1
                ctx.count("chain:fixed")
                check_case(ctx, {"chain": True, "own_top": own, "segs": segs})
    for i in range(ctx.budget(250, 3000, 2000)):
        ctx.search_cases += 1
        ctx.count("chain:generated")
        check_case(ctx, gen_chain(rng))
    for case in list(FIXED_HISTORIES) + [gen_history(rng) for _ in range(ctx.budget(120, 1500, 1000))]:
        ctx.search_cases += 1
        ctx.count("include-history")
        check_case(ctx, case)
    for case in list(FIXED_CLIPS) + [gen_clip(rng) for _ in range(ctx.budget(80, 800, 600))]:
        ctx.search_cases += 1
        ctx.count("include-clip")
        check_case(ctx, case)
    # eval-rst including a Markdown file through docutils' include (:parser:), definition-free bodies
    for i in range(ctx.budget(40, 400, 300)):
        X = G.body(rng, allow=frozenset({"directive"}))
        # docutils' own include splits the file with str.splitlines: keep its separators out of this route
        # ... and strips trailing whitespace of every line (statemachine.string2lines)
        if any(t in l for l in X for t in ("[^", "]: ", ")=", "][")) or any(ord(ch) in SEPS for l in X for ch in l) \
                or any(l != l.rstrip() for l in X):
            X = ["plain alpha *beta* `code` %d" % i, "", "- item one", "- item two", "", "> quote", "", "```{note}", "inner", "```"]
        ctx.search_cases += 1
        ctx.count("interplay:rst-include-md")
        check_case(ctx, {"rst_include_md": True, "X": X})
    n = ctx.budget(700, 9000, 5000)
    nfail = 0
    for i in range(n):
        force = None if i % 4 else ("adm", "include", "subst")[(i // 4) % 3]
        case = gen_case(rng, force)
        if ctx.deep and rng.random() < 0.5 and case["layers"][0]["t"] == "A":
            case["X"] = case["X"] + ["", "tail " + G.words(rng)]
            G.fix_lengths(rng, case["layers"], case["X"])
        ctx.search_cases += 1
        ctx.count("search:" + case_kind(case))
        if not check_case(ctx, case):
            nfail += 1
            if nfail > 25:
                break
    # bodies with the other str.splitlines separators (form feed etc.)
    for ch in ("\x0c", "\x0b", "\x1c", "\x85", " "):
        for layers in ([G.gen_layer(rng, titled_ok=False, opts_ok=False)], None):
            X = ["one" + ch + "two", "", "three"]
            if layers is None:
                case = {"X": X, "layers": [{"t": "I", "path": "inc.md"}]}
            else:
                layers[0]["first"] = ""
                case = {"X": X, "layers": G.fix_lengths(rng, layers, X)}
            ctx.search_cases += 1
            ctx.count("search:separators")
            check_case(ctx, case)


def replay(ctx, data):
    w = data.get("witness")
    if not w:
        print("replay file names no concrete input:", data.get("no_longer_checks"))
        return 1
    ok = check_case(ctx, w)
    print("replay:", "property holds on this input" if ok else ctx.failures[-1])
    return 0 if ok else 1


LEVEL_TEXT = ("Proof (Coq 8.16, 23 theorems, all closed under the global context). Proved in full on the model Nest/Nest.v (object graph with "
              "detached nodes, current-node pointer, level map, heading offset, temp root, shared md_env + registries): the renderer "
              "computes a pure denotation of the token forest that depends on the state only through the shared registries "
              "(C06_render_context_free); for admonition wrappers of any depth, fence kind/length (backtick, tilde, colon), titled or "
              "not, with every option layout, the wrapped document is the admonition nodes around exactly the body's own nodes with the "
              "body's registries (C06_directive_transparent, C06_backtick_colon_same, C06_body_offset_none/blank/colon/dash), the line "
              "relation exactly: every line + (1 + body_offset - prepended_lines) (C06_line_shift_equivariant, "
              "C06_directive_transparent_lines); include and substitution render the file text / value in place "
              "(C06_include_transparent, C06_include_in_place, C06_subst_transparent); what nested_render_text and the include "
              "directive keep across calls is restored (C06_nested_restores, C06_include_chain_restored, C06_include_log_restored); "
              "footnotes/targets defined inside stay usable because one registry state is threaded (C06_registries_shared); O_adm and "
              "O_fence_content are jointly satisfiable by a concrete fence model (C06_oracles_satisfiable). Refuted with a witness: "
              "reference definitions inside a nested parse are not usable outside (C06_refdefs_visible_refuted; open finding). "
              "Tied to code regenerated from the source on every run (Gen/NestSrc.v, statement by statement: nested_render_text, "
              "MockState.nested_parse, render_fence/render_colon_fence, render_directive/run_directive, render_substitution, the "
              "try/finally of MockIncludeDirective.run) by refinement proofs: C06_src_is_model, C06_nested_restores_src, "
              "C06_registries_shared_src, C06_subst_transparent_src, C06_include_log_restored_src. Further tie on every run: extracted "
              "splitter/printer/nested-call prediction and fence model vs the instrumented implementation and markdown-it, one test "
              "per oracle hypothesis, metamorphic pairs render(W(X)) vs render(X) incl. chains, include histories and interplay.")
LEVEL_NOTE = ("Partial: the Markdown parser P/PI (markdown-it-py: tokens + mutated env), docutils' directive registry and admonition "
              "classes (O_adm), fence content (O_fence_content / O_fence), the file system (O_fs), Jinja (O_jinja), option "
              "validation, other directives and eval-rst (context-free and line-equivariant by hypothesis: O_other_directives, "
              "O_shift, log_oracles) are oracles, each exercised on the real library by the correspondence; token and node types are "
              "abstract; line-shift equivariance excludes documents with include directives (an included file keeps its own line "
              "numbers); document['source'] switching, include slicing options, relative-images/docs, fence_as_directive / "
              "commonmark_only / gfm_only (parameters at their defaults) are outside the model. Open finding: "
              "refdef:not-visible-outside-nested-parse (architectural: the outer inline content is tokenised before the nested parse "
              "adds the definition to md_env). Fixed: 620bbcf (directive bodies and included files are split at newlines only; the "
              "two splitlines:* findings).")
