"""C12 - Sphinx cross-document links resolve to the right URI or warn exactly once."""
import hashlib
import html.parser
import io
import json
import os
import posixpath
import re
import shutil
import tempfile
import unicodedata
from urllib.parse import unquote

from lib.common import enc_str, enc_ostr, enc_strs, dec_str, dec_ostr, dec_strs, model_run, src_hashes

PID = "C12"
RULE = ("generated multi-document Sphinx projects (directory depth 0-3, .md and .rst documents, index documents in "
        "sub-directories, names with non-ASCII letters and spaces, up to three equal heading titles, (label)= targets on "
        "headings and paragraphs incl. case variants beyond ASCII, extra non-document files, files pulled in by {include} with "
        ":relative-docs: up to two levels deep; configuration axis all_links_external / commonmark_only / url_schemes / "
        "ref_domains / nitpick_ignore) built in-process with the html or the dirhtml builder; every link spelling (x.md, ./, ../, "
        "non-minimal ../d/, leading /, without extension (+#anchor), project:, path:, #label, explicit text with nested "
        "markup vs empty text, missing documents/anchors/labels/files, %00, over-long, quirk spellings). correspondence: "
        "extracted Coq model (run_link) vs the reference node of the resolved doctree + the warning stream, per link; plus the "
        "path functions (normpath, join, docname_join, relative_uri, relpath, relfn2path, path2doc, get_target_uri of both "
        "builders, str.lower, scheme regex) vs posixpath/Sphinx/re exhaustively on small segment lists (incl. empty, '.', '..' "
        "segments at every position, trailing and leading slashes) and on random strings. search: intent-based oracle (the "
        "generator knows which page/section/label/file each link is meant to reach) vs the href, link text and warnings of "
        "the WRITTEN HTML pages. non-trivial = link whose source or target lies below the root directory, or has an anchor, or "
        "is missing; distinct by (source dir depth, target dir depth, spelling, scheme, text form, intent kind, included)")
TRUSTED = ["source translation gen/c12_src.py -> coq/Gen/C12Src.v (statement-by-statement; fail-closed). Trusted mapping of "
           "Python idioms to Gallina (vocabulary in coq/XRef/XRefSrcBase.v): token.attrGet('href') or '' -> l_dest; "
           "cast/str/Path/md.normalizeLinkText -> identity; s.startswith(p) -> startswith; s[n:] -> skipn n; "
           "a, *b = s.split('#', maxsplit=1) + b[0] if b else None -> before/after '#'; 'x' in s -> contains; s.lower() -> lower; "
           "sphinx_env.srcdir -> true; sphinx_env.docname -> d_name; token.info/children -> l_auto/l_children; "
           "md_env.get('relative-docs') -> l_include, relative_include[1:] -> (dir of the document, include dir); "
           "os.path.relpath/join/normpath, docname_join, sphinx_env.path2doc -> the modelled functions; _abs_path's "
           "try relfn2path except ValueError -> has_nul test; _is_file / os.access(R_OK) -> is_file / is_readable; x in "
           "env.all_docs|found_docs -> in_docs; env.metadata[d].get('myst_slugs') -> slugs_of, slug_to_section[k] -> slug_id/"
           "slug_title; clean_astext(env.titles[d]) -> title_of; stddomain.anonlabels/labels.get -> anon_*/lab_*; REGEX_SCHEME."
           "match + group(1) -> scheme_of; x in md_config.url_schemes -> mem_str (p_url_schemes); md_config.all_links_external -> "
           "p_all_external, commonmark_only/gfm_only -> false, 'class' in token.attrs -> false; pending_xref(refdomain='doc'|None)/"
           "download_reference -> N_doc/N_any/N_dl, _process_wrap_node -> finish; create_warning(f'..{x}..', XREF_MISSING) followed by "
           "render_link_url -> C_nofile x; render_link_url/anchor/inventory -> C_url/C_anchor/C_inv; nodes.inline(c, '')+extend(node[0]."
           "children) -> X_children, inline(t, t) -> X_str, literal(t, t) -> X_lit, node[0].deepcopy() -> inner_of explicit; "
           "make_refnode(builder, a, b, c, n) -> (make_refnode a b c, n), try .. except NoUri ignored (html builders); log_warning(t, .., "
           "XREF_MISSING) -> log_missing t; node.replace_self(x) -> the outcome; the 'std' object-type loop and the domains loop of "
           "resolve_myst_ref_any -> the oracles std_objects / other_domains (order checked); run: node['reftype'] != 'myst' / node["
           "'refdomain'] == 'doc' -> the two flags of the pending node, _resolve_myst_ref_intersphinx -> oracle intersphinx, the "
           "fallback nodes.reference()+refid=normalizeLink(target)+append(node[0].deepcopy()) -> (T_fallback target, inner_of "
           "explicit), len(children)==1 and inline and empty -> txt_empty_inline, newnode.children -> non-empty, the blocks that only "
           "set classes / carry ids over are skipped (shape-checked); mocking.py include: md_env['relative-images'|'relative-docs'] "
           "assignments / pop / update(outer_relative) -> set_images / set_docs / restore on the two-entry record menv, "
           "Path(include_log[0][0]).parent -> root_dir (the outermost document's directory), nested_render_text -> the parameter render",
           "ResolveAnchorIds.apply: coq/Gen/AnchorsSrc.v regenerated by the C09 builder (gen/c09_src.py) and its refinement theorem "
           "Refs/AnchorsSrcProofs.apply_src_eq are imported, not re-translated; the document's explicit-name table and slug table are "
           "converted by ex_of / slugs_c09 (coq/XRef/XRefPipeline.v)",
           "coq/XRef/Path.v, coq/XRef/XRefModel.v are hand transcriptions of posixpath/pathlib/Sphinx path functions and of "
           "render_link*/_handle_relative_docs/ResolveAnchorIds/MystReferenceResolver (checked by correspondence, not proved)",
           "Sphinx 8.2 environment, html/dirhtml builders and writer (pages, _downloads copies) as oracles",
           "generated names: ASCII [A-Za-z0-9._-] plus NFC non-ASCII letters and a space; observed URIs are compared after "
           "urllib.parse.unquote (quote is injective on them), markdown-it normalizeLink followed by normalizeLinkText is the "
           "identity on them (exercised: a lost decode shows as a disagreement); str.lower from the regenerated table below U+0250",
           "dirhtml get_target_uri is modelled on the '/'-components of the docname (endswith('/index') <=> >= 2 components, last "
           "'index'); compared with the real method on all docnames over {a,index,b,''} up to 3 components"]
ORACLES = {
    "O_sphinx_env": "env.all_docs, clean_astext(env.titles), env.metadata[doc]['myst_slugs'] (slug -> section id, title), "
                    "std labels/anonlabels and the files below srcdir are what the project description says: compared on every "
                    "generated project (bucket env-check)",
    "O_builder_uri": "get_target_uri of StandaloneHTMLBuilder / DirectoryHTMLBuilder = target_uri: exhaustive small docnames "
                     "(bucket pathfn:exhaustive:target_uri) and through the written pages (search resolves every href against the "
                     "page URI and requires the output file to exist)",
    "O_fs": "Path.is_file/os.access see exactly the generated files; no symbolic links below the scratch dir (resolve() = lexical)",
    "O_other_domains": "std objects of other types, other domains' resolve_any_xref and intersphinx return nothing in the "
                       "generated projects (the model instance run_link_plain); checked implicitly by the per-link comparison",
    "O_posixpath": "posixpath.normpath/join/relpath, pathlib parsing, sphinx docname_join/relative_uri: model vs library, exhaustive "
                   "on small segment lists + random strings (buckets pathfn:*)",
    "O_contnode_std / O_contnode_other / O_contnode_isx": "premises of C12_text_explicit(_pipeline): a candidate supplied by another std "
                 "object type, another domain or intersphinx carries the link's own content node (make_refnode(..., contnode) / "
                 "newnode.append(contnode) in the code). In the generated projects those sources return nothing, so the premises hold "
                 "vacuously there; what is exercised on every link with explicit text is the conclusion (nested markup of the link "
                 "text found unchanged in doctree and HTML: corr text signature, search link:*:text)",
    "O_include": "MockIncludeDirective sets md_env['relative-docs'] = (prefix, directory of the OUTERMOST document, directory of the "
                 "included file) around the nested render and restores the previous entries afterwards (include_env_src, proved); that "
                 "include_log[0] is the outermost document and that the nested render runs with this md_env is exercised by every link "
                 "of a generated fragment (one and two levels, links before / inside / after a nested include)",
    "O_registries": "premise of the pipeline theorems: the explicit-name table that ResolveAnchorIds builds from the document's "
                    "registries (build_explicit rg) is the document's table of (label)= targets (ex_of d); exercised through the "
                    "label tables of the env check and every '#label' link",
}
ASSUMPTIONS = ["configuration: myst_heading_anchors=3; axis generated and modelled: myst_all_links_external, myst_commonmark_only, "
               "myst_url_schemes (extra schemes, also 'project'), myst_ref_domains; myst_gfm_only is modelled (plain_url_mode) but not "
               "built: it needs linkify-it-py, which is not installed (ModuleNotFoundError at parser set-up). Reading: the property speaks about MyST's "
               "link resolution - under all_links_external, and for a scheme the user lists in url_schemes, links are external URLs "
               "by configuration and the search makes no claim (the model still predicts them); ref_domains does not change labels/"
               "documents",
               "{include} up to two levels (a fragment including a fragment, with or without its own :relative-docs:)",
               "single-process builds; scratch directory without symbolic links"]

ANSI = re.compile(r"\x1b\[[0-9;]*m")
BUILTIN_LABELS = [("genindex", "genindex", "", "Index"), ("modindex", "py-modindex", "", "Module Index"),
                  ("search", "search", "", "Search Page"), ("py-modindex", "py-modindex", "", "Python Module Index")]
URL_SCHEMES = ["http", "https", "mailto", "ftp"]
SUFFIXES = [".rst", ".md"]
CONF = ("extensions = ['myst_parser']\nexclude_patterns = ['_build']\nhtml_theme = 'basic'\n"
        "myst_heading_anchors = 3\nhtml_copy_source = False\nhtml_use_index = False\nsmartquotes = False\n")


def gen(ctx):
    ctx.gen_info["sources"] = src_hashes([
        "myst_parser/mdit_to_docutils/sphinx_.py", "myst_parser/sphinx_ext/myst_refs.py",
        "myst_parser/mdit_to_docutils/base.py", "myst_parser/mdit_to_docutils/transforms.py"])
    from gen import c12_links, c12_src
    c12_links.generate(ctx)
    c12_src.generate(ctx)


# =========================================================================== project generator

# names include characters that markdown-it percent-encodes in the href (non-ASCII letters, a space)
DIRN = ["a", "b", "c", "pkg", "sub-1", "x_y", "s\u00fcd", "my dir"]
STEMS = ["one", "two", "three", "intro", "api", "guide", "notes", "z9", "v1.2", "Read", "z\u00fcrich", "my doc"]
HEADS = [("Sec A", "Sec A"), ("Sec B", "Sec B"), ("Setup & Run", "Setup & Run"), ("Using `code` here", "Using code here"),
         ("An *emphasised* word", "An emphasised word"), ("Install", "Install"), ("FAQ (short)", "FAQ (short)"),
         ("sec a", "sec a"), ("Setup Run", "Setup Run"), ("Deep Part", "Deep Part"), ("Notes!", "Notes!"),
         ("\u00dcber uns", "\u00dcber uns"), ("Caf\u00e9 *cr\u00e8me*", "Caf\u00e9 cr\u00e8me")]
TITLES = [("One", "One"), ("The *Second* doc", "The Second doc"), ("Guide to `x`", "Guide to x"), ("Sec A", "Sec A"),
          ("Overview", "Overview"), ("API reference", "API reference"), ("Install", "Install")]
TEXTS = [("plain text", "plain text"), ("*em* `co`", "em(em) c(co)"), ("**bold** and *it*", "st(bold) and em(it)"),
         ("a `x` b", "a c(x) b"), ("nested **b *i***", "nested st(b em(i))"), ("T", "T")]
EXTRA_NAMES = ["data.txt", "script.py", "paper.pdf", "notes.txt", "archive.tar.gz", "Makefile"]
LABW = ["alpha", "beta", "gamma", "delta", "eps", "zeta", "eta", "theta", "\u00fcber"]


def gen_project(rng, size=None):
    """A project description (JSON-serialisable) with its links and their intents."""
    size = size or rng.choice([1, 2, 2, 3])
    # directory tree, depth 0-3
    dirs = [""]
    for _ in range(rng.randint(0, 2 + size)):
        base = rng.choice(dirs)
        if base.count("/") + (1 if base else 0) >= 3:
            continue
        d = (base + "/" if base else "") + rng.choice(DIRN)
        if d not in dirs:
            dirs.append(d)
    docs = [{"docname": "index", "ext": ".md", "title_md": "Index Title", "title": "Index Title", "blocks": [], "links": []}]
    used = {"index"}
    labels_used = set()
    nlab = [0]

    def new_label(mixed=False):
        w = "lab-" + rng.choice(LABW) + "-%d" % nlab[0]
        nlab[0] += 1
        labels_used.add(w)
        return ("Lab-" + w[4:].capitalize()) if mixed else w

    for _ in range(rng.randint(1, 2 + 2 * size)):
        d = rng.choice(dirs)
        stem = rng.choice(STEMS + (["index", "index"] if d else []))     # index documents of sub-directories
        dn = (d + "/" if d else "") + stem
        if dn in used or dn.lower() in {u.lower() for u in used}:
            continue
        used.add(dn)
        if rng.random() < 0.12:
            t = rng.choice(TITLES)
            docs.append({"docname": dn, "ext": ".rst", "title_md": t[1], "title": t[1], "blocks": [], "links": [],
                         "rst_label": new_label() if rng.random() < 0.5 else None})
            continue
        t = rng.choice(TITLES)
        blocks = []
        level = 1
        seen_titles = {re.sub(r"[^a-z0-9]+", "-", t[1].lower()).strip("-"): 1}
        for _ in range(rng.randint(0, 5)):
            if rng.random() < 0.75:
                lv = rng.randint(2, min(level + 1, 4))
                h = rng.choice(HEADS)
                key = re.sub(r"[^a-z0-9]+", "-", h[1].lower()).strip("-")
                if seen_titles.get(key, 0) >= 3:       # up to three equal titles: slug, slug-1, slug-2
                    continue
                seen_titles[key] = seen_titles.get(key, 0) + 1
                lab = None
                if rng.random() < 0.35:
                    lab = new_label(mixed=rng.random() < 0.2)
                blocks.append({"k": "heading", "level": lv, "md": h[0], "text": h[1], "label": lab})
                level = lv
            else:
                blocks.append({"k": "para", "label": new_label() if rng.random() < 0.6 else None})
        docs.append({"docname": dn, "ext": ".md", "title_md": t[0], "title": t[1], "blocks": blocks, "links": []})
    extras = []
    for _ in range(rng.randint(0, 1 + size)):
        d = rng.choice(dirs)
        p = (d + "/" if d else "") + rng.choice(EXTRA_NAMES)
        if p not in [e["path"] for e in extras]:
            extras.append({"path": p, "content": "content of %s #%d\n" % (p, rng.randint(0, 10 ** 6))})
    desc = {"docs": docs, "extras": extras, "nitpick": [], "dirs": dirs,
            "builder": "dirhtml" if rng.random() < 0.3 else "html"}
    if rng.random() < 0.15:
        desc["nitpick"] = ["ignored-target", "nodoc-ignored"]
    # configuration axis that touches links
    cfg = {}
    if rng.random() < 0.08:
        cfg["all_links_external"] = True
    if rng.random() < 0.06:
        cfg["commonmark_only"] = True       # plain CommonMark: every link is an external URL, no MyST syntax at all
    if rng.random() < 0.15:
        cfg["url_schemes"] = URL_SCHEMES + ["wiki"] + (["project"] if rng.random() < 0.3 else [])
    if rng.random() < 0.15:
        cfg["ref_domains"] = rng.choice([["std"], ["py"], ["std", "py"]])
    desc["config"] = cfg
    # an ambiguous name now and then: a label equal to a root-level docname
    if rng.random() < 0.15:
        roots = [d for d in docs if "/" not in d["docname"] and d["ext"] == ".md" and d["docname"] != "index"]
        mds = [d for d in docs if d["ext"] == ".md" and d["docname"] != "index"]
        holder = rng.choice(mds) if mds else None
        if roots and holder and all(make_id(h[1]) != make_id(roots[0]["docname"]) for h in headings_of(holder)):
            holder["blocks"].append({"k": "heading", "level": 2, "md": "Ambig", "text": "Ambig",
                                     "label": roots[0]["docname"].lower()})
            desc["ambiguous"] = roots[0]["docname"].lower()
    gen_links(rng, desc)
    return desc


def doc_dir(docname):
    return posixpath.dirname(docname)


def spell(rng, from_dir, target_path, style=None):
    """A spelling of srcdir-relative [target_path] as seen from directory [from_dir]."""
    style = style or rng.choice(["rel", "rel", "dot", "abs", "up", "dotdot-in"])
    if style == "abs":
        return "/" + target_path, style
    f = [s for s in from_dir.split("/") if s]
    t = target_path.split("/")
    # minimal relative path
    i = 0
    while i < len(f) and i < len(t) - 1 and f[i] == t[i]:
        i += 1
    if style == "up" and i > 0:
        i = rng.randint(0, i - 1)       # climb higher than needed, come back down
    rel = [".."] * (len(f) - i) + t[i:]
    s = "/".join(rel)
    if style == "dot":
        s = "./" + s
    elif style == "dotdot-in" and len(t) - i > 1:
        # a/../a/x : redundant detour through an existing directory
        rel = [".."] * (len(f) - i) + [t[i], "..", t[i]] + t[i + 1:]
        s = "/".join(rel)
    return s, style


def headings_of(doc):
    """[(level, text, label)] including the title; document order."""
    hs = [(1, doc["title"], None)]
    for b in doc.get("blocks", []):
        if b["k"] == "heading":
            hs.append((b["level"], b["text"], b["label"]))
    return hs


def slugify(title):
    return re.sub(r"[^\w\u4e00-\u9fff\- ]", "", title.lower().replace(" ", "-"))


def make_id(s):
    """docutils.nodes.make_id for the generated alphabet (accents are stripped through NFKD)"""
    i = unicodedata.normalize("NFKD", s.lower()).encode("ascii", "ignore").decode("ascii")
    i = re.sub(r"[^a-z0-9]+", "-", " ".join(i.split()))
    return re.sub(r"^[-0-9]+|-+$", "", i)


def describe_doc(doc):
    """Independent description of what Sphinx holds for a document: per heading (slug|None, id, text)."""
    if doc["ext"] != ".md":
        return []
    out, slugs, ids, auto = [], set(), set(), 0
    for b in doc.get("blocks", []):
        if b.get("label"):
            ids.add(make_id(b["label"]))
    for (lv, text, lab) in headings_of(doc):
        i = make_id(text)
        if not i or i in ids:
            auto += 1
            i = "id%d" % auto
        ids.add(i)
        slug = None
        if lv <= 3:
            base = slug = slugify(text)
            k = 1
            while slug in slugs:       # GitHub rule: counter appended to the base slug
                slug = "%s-%d" % (base, k)
                k += 1
            slugs.add(slug)
        out.append({"level": lv, "text": text, "label": lab, "slug": slug, "id": i})
    return out


def all_labels(desc):
    """[(name, docname, id, sectname|None)] project-wide (normalised names)."""
    out = []
    for d in desc["docs"]:
        if d["ext"] == ".rst":
            if d.get("rst_label"):
                out.append((d["rst_label"].lower(), d["docname"], make_id(d["rst_label"]), d["title"]))
            continue
        for b in d.get("blocks", []):
            if b.get("label"):
                n = b["label"].lower()
                out.append((n, d["docname"], make_id(n), b["text"] if b["k"] == "heading" else None))
    return out


def gen_links(rng, desc):
    docs = desc["docs"]
    mds = [d for d in docs if d["ext"] == ".md"]
    labels = all_labels(desc)
    n = [0]
    per_doc = rng.randint(6, 14)

    cur_inc = [None]

    def add(src, form, dest, intent, text=None):
        if cur_inc[0] is not None:
            inc = cur_inc[0]
            base = dest
            for sch in ("project:", "path:"):
                if base.startswith(sch):
                    base = base[len(sch):]
            # location-dependent destinations must agree with how the prefix test will treat them
            if intent.get("_from") == "frag" and not base.startswith(inc["prefix"]):
                return
            if intent.get("_from") == "doc" and base.startswith(inc["prefix"]) and not base.startswith("#"):
                return
            if "_from" not in intent and base.startswith(inc["prefix"]) and intent["kind"] != "quirk":
                intent = {"kind": "quirk", "what": "rewritten-nonpath"}
        intent = {k: v for k, v in intent.items() if k != "_from"}
        if text is None:
            text = rng.choice(TEXTS) if rng.random() < 0.5 else ("", "")
        if form == "auto" and " " in dest:
            form = "inline"          # an autolink cannot contain a space
        if form == "auto":
            text = ("", "")
        n[0] += 1
        l = {"n": n[0], "form": form, "dest": dest, "text_md": text[0], "text_sig": text[1], "intent": intent}
        if cur_inc[0] is not None:
            l["inc"] = {"path": cur_inc[0]["path"], "prefix": cur_inc[0]["prefix"]}   # effective relative-docs setting
            l["infile"], l["where"] = cur_inc[0]["infile"], cur_inc[0]["where"]
        src["links"].append(l)

    contexts = []
    for src in mds:
        contexts.append((src, None))
        if rng.random() < 0.3 and not (desc.get("config") or {}).get("commonmark_only"):
            # a file A pulled in with {include} :relative-docs: <prefix> ; it lives in any directory.  Sometimes A
            # itself includes a file B (with its own :relative-docs: or without: then A's setting applies to B),
            # and A goes on after that include (where A's setting must be in force again).
            def frag(tag):
                fdir = rng.choice(desc["dirs"])
                return {"path": (fdir + "/" if fdir else "") + "part-%d%s.inc" % (len(contexts), tag),
                        "prefix": rng.choice([".", "..", "../", "./"]), "images": rng.random() < 0.5}
            A = frag("a")
            src["frag"] = A
            contexts.append((src, dict(A, infile=A["path"], where="A1")))
            if rng.random() < 0.45:
                B = frag("b")
                if rng.random() < 0.35:
                    B["prefix"] = None
                A["nested"] = B
                eff = B if B["prefix"] is not None else A
                contexts.append((src, {"path": eff["path"], "prefix": eff["prefix"], "infile": B["path"], "where": "B"}))
                contexts.append((src, dict(A, infile=A["path"], where="A2")))
    for src, inc in contexts:
        cur_inc[0] = inc
        own_dir = doc_dir(src["docname"])
        for _ in range(per_doc if inc is None else rng.randint(3, 7)):
            # inside an included file a path is read relative to the included file when it starts with the
            # prefix (it is rewritten), otherwise relative to the including document
            if inc is not None and rng.random() < 0.7:
                fd, origin = doc_dir(inc["path"]), "frag"
            else:
                fd, origin = own_dir, ("doc" if inc is not None else None)
            r = rng.random()
            if r < 0.40:                                   # ---- another (or the same) source file
                tgt = rng.choice(docs)
                hs = describe_doc(tgt)
                path = tgt["docname"] + tgt["ext"]
                sp, style = spell(rng, fd, path)
                scheme = rng.choice(["", "", "", "project:"])
                form = "auto" if scheme and rng.random() < 0.5 else "inline"
                a = rng.random()
                intent = {"kind": "doc", "doc": tgt["docname"], "style": style, "scheme": scheme, "_from": origin}
                if a < 0.45:
                    add(src, form, scheme + sp, intent)
                elif a < 0.75 and hs:
                    j = rng.randrange(len(hs))
                    if hs[j]["slug"] is not None:
                        intent.update(kind="doc-anchor", heading=j)
                        add(src, form, scheme + sp + "#" + hs[j]["slug"], intent)
                    else:                                  # level-4 heading: no anchor is generated for it
                        anc = slugify(hs[j]["text"])
                        if anc in {h["slug"] for h in hs}:
                            anc = "nosuch"
                        intent.update(kind="anchor-missing", anchor=anc)
                        add(src, form, scheme + sp + "#" + anc, intent)
                elif a < 0.90:
                    own = [h["slug"] for h in describe_doc(src) if h["slug"]]
                    theirs = {h["slug"] for h in hs if h["slug"]}
                    cand = [s for s in own if s not in theirs] + ["nosuch", "Sec-A", "id1"]
                    anc = rng.choice(cand)
                    if anc in theirs:
                        anc = "nosuch"
                    intent.update(kind="anchor-missing", anchor=anc)
                    add(src, form, scheme + sp + "#" + anc, intent)
                else:
                    intent.update(kind="doc", emptyfrag=True)
                    add(src, form, scheme + sp + "#", intent)
            elif r < 0.52:                                 # ---- docname without extension
                tgt = rng.choice(docs)
                sp, style = spell(rng, fd, tgt["docname"])
                if desc.get("ambiguous") and posixpath.basename(tgt["docname"]).lower() == desc["ambiguous"]:
                    kind = "quirk"
                else:
                    kind = "doc"
                hs = describe_doc(tgt)
                a = rng.random()
                if a < 0.25 and hs and kind == "doc":
                    # docname#anchor (resolved like docname.md#anchor since the repair)
                    j = rng.randrange(len(hs))
                    if hs[j]["slug"] is not None and a < 0.18:
                        add(src, "inline", sp + "#" + hs[j]["slug"],
                            {"kind": "doc-anchor", "doc": tgt["docname"], "heading": j, "style": style, "scheme": "noext", "_from": origin})
                    else:
                        add(src, "inline", sp + "#nosuch",
                            {"kind": "anchor-missing", "doc": tgt["docname"], "anchor": "nosuch", "style": style, "scheme": "noext",
                             "_from": origin})
                else:
                    add(src, "inline", sp, {"kind": kind, "doc": tgt["docname"], "style": style, "scheme": "noext", "_from": origin})
            elif r < 0.67 and labels:                      # ---- project-wide label
                (name, ldoc, lid, sect) = rng.choice(labels)
                sty = rng.choice(["#", "#", "bare", "project:#"])
                written = name
                if rng.random() < 0.15:                # str.lower() is modelled below U+0250 (regenerated table)
                    written = name.upper() if rng.random() < 0.5 else name.capitalize()
                form = "auto" if sty == "project:#" and rng.random() < 0.6 else "inline"
                dest = {"#": "#" + written, "bare": written, "project:#": "project:#" + written}[sty]
                kind = "quirk" if desc.get("ambiguous") == name else "label"
                add(src, form, dest, {"kind": kind, "label": name, "written": written, "doc": ldoc, "id": lid, "sect": sect,
                                      "style": sty})
            elif r < 0.70:                                 # ---- built-in label
                add(src, "inline", rng.choice(["genindex", "#genindex", "search"]), {"kind": "builtin"})
            elif r < 0.82 and rng.random() < 0.08:         # ---- remote download: handed to Sphinx unchanged
                url = "https://example.org/" + rng.choice(["x.zip", "d/data.tar.gz"])
                add(src, rng.choice(["inline", "auto"]), "path:" + url, {"kind": "remote", "url": url})
            elif r < 0.82 and desc["extras"]:              # ---- non-document file
                e = rng.choice(desc["extras"])
                sp, style = spell(rng, fd, e["path"])
                scheme = rng.choice(["", "", "path:"])
                form = "auto" if scheme and rng.random() < 0.5 else "inline"
                if rng.random() < 0.12:
                    # a fragment after a file name: dropped for plain links, part of the file name for path:
                    add(src, form, scheme + sp + "#frag", {"kind": "quirk", "_from": origin} if scheme else
                        {"kind": "file", "path": e["path"], "style": style, "scheme": scheme, "shown": sp, "_from": origin})
                else:
                    add(src, form, scheme + sp, {"kind": "file", "path": e["path"], "style": style, "scheme": scheme, "shown": sp,
                                                 "_from": origin})
            elif r < 0.97:                                 # ---- missing targets
                m = rng.random()
                nit = desc["nitpick"]
                if m < 0.2:
                    sp, style = spell(rng, fd, rng.choice(desc["dirs"] + ["zz"]).strip("/") + "/nodoc.md")
                    sp = sp.lstrip("/") if sp.startswith("//") else sp
                    add(src, "inline", sp, {"kind": "missing", "what": "doc-file", "name": "nodoc", "_from": origin})
                elif m < 0.35:
                    sp, style = spell(rng, fd, "nodoc2.md")
                    add(src, rng.choice(["inline", "auto"]), "project:" + sp, {"kind": "missing", "what": "project-doc", "name": "nodoc2", "_from": origin})
                elif m < 0.5:
                    w = rng.choice(["nolabel", "no-such-label"] + (["ignored-target"] if nit else []))
                    add(src, "inline", rng.choice(["#", ""]) + w, {"kind": "missing", "what": "label", "name": w,
                                                                  "ignored": w in nit})
                elif m < 0.62:
                    w = rng.choice(["nofile.txt", "missing.pdf"])
                    add(src, "inline", w, {"kind": "missing", "what": "file", "name": w})
                elif m < 0.74:
                    w = rng.choice(["nofile.txt", "missing.pdf"])
                    add(src, rng.choice(["inline", "auto"]), "path:" + w, {"kind": "missing", "what": "path-file", "name": w})
                elif m < 0.84 and desc["extras"]:
                    e = rng.choice(desc["extras"])
                    sp, style = spell(rng, fd, e["path"])
                    add(src, rng.choice(["inline", "auto"]), "project:" + sp,
                        {"kind": "missing", "what": "project-nondoc", "name": posixpath.basename(e["path"]), "_from": origin})
                elif m < 0.92:
                    plab = [l for l in labels if l[3] is None]
                    if plab:
                        (name, ldoc, lid, sect) = rng.choice(plab)
                        sty = rng.choice(["#", "bare"])
                        add(src, "inline", ("#" if sty == "#" else "") + name,
                            {"kind": "label", "label": name, "written": name, "doc": ldoc, "id": lid, "sect": None, "style": sty},
                            text=("", ""))
                else:
                    w = "n" * rng.choice([256, 300, 5000]) + rng.choice(["", ".md", ".txt"])
                    add(src, "inline", w, {"kind": "missing", "what": "overlong", "name": w[:40]})
            elif desc.get("ambiguous") and rng.random() < 0.5:  # ---- a name that is both a label and a docname
                amb = desc["ambiguous"]
                sp, style = spell(rng, fd, [d["docname"] for d in docs if d["docname"].lower() == amb][0])
                add(src, "inline", rng.choice([sp, "#" + amb, amb]), {"kind": "quirk", "what": "ambiguous", "_from": origin})
            else:                                          # ---- quirk spellings: model correspondence only
                tgt = rng.choice(docs)
                p = tgt["docname"] + tgt["ext"]
                # ('//' + non-ASCII would make markdown-it's normalizeLink punycode the "host name" of the fallback id)
                q = rng.choice(["//" + (p if p.isascii() else "a/one.md"), "///" + p, "", ".", "..", "/", p + "/", "wiki:Some_Page",
                                "../" * 5 + tgt["docname"],
                                "foo:bar", "c:" + p, "./" + p + "#a#b", posixpath.dirname(p) or "a", "Project:" + p])
                add(src, "inline", q, {"kind": "quirk"})
                if rng.random() < 0.3:
                    # %00 decodes to a NUL character: not a path at all (was: ValueError, fixed by 9a2ab65)
                    sch = rng.choice(["", "project:", "path:"])
                    add(src, "inline", sch + "a\x00b" + rng.choice([".md", ".txt", ""]),
                        {"kind": "missing", "what": "nul", "name": "a"})
                    src["links"][-1]["md_dest"] = src["links"][-1]["dest"].replace("\x00", "%00")


# =========================================================================== rendering sources

def needs_angle(dest):
    return dest == "" or any(c in dest for c in " ()<>") or dest != dest.strip()


def link_md(l):
    dest = l.get("md_dest", l["dest"])      # md_dest: how the destination is written when it differs (percent escapes)
    if l["form"] == "auto":
        return "<%s>" % dest
    d = "<%s>" % dest if needs_angle(dest) else dest
    return "[%s](%s)" % (l["text_md"], d)


def render_doc(desc, doc):
    """source text and {link n: line}."""
    lines, at = [], {}
    if doc["ext"] == ".rst":
        if doc.get("rst_label"):
            lines += [".. _%s:" % doc["rst_label"], ""]
        lines += [doc["title_md"], "=" * max(len(doc["title_md"]), 3), "", "text", ""]
        return "\n".join(lines) + "\n", at
    lines += ["# " + doc["title_md"], ""]
    np = 0
    for b in doc["blocks"]:
        if b.get("label"):
            lines.append("(%s)=" % b["label"])
        if b["k"] == "heading":
            lines += ["#" * b["level"] + " " + b["md"], ""]
        else:
            np += 1
            lines += ["Paragraph number %d." % np, ""]
    for l in doc["links"]:
        if l.get("inc"):
            continue
        at[l["n"]] = len(lines) + 1
        lines += ["L%d %s" % (l["n"], link_md(l)), ""]
    frags = {}
    A = doc.get("frag")
    if A and any(l.get("inc") for l in doc["links"]):
        def include_block(f):
            return (["```{include} /" + f["path"]] + ([":relative-docs: " + f["prefix"]] if f["prefix"] is not None else [])
                    + ([":relative-images:"] if f.get("images") else []) + ["```", ""])

        def put(fl, where):
            for l in doc["links"]:
                if l.get("where") == where:
                    at[l["n"]] = len(fl) + 1
                    fl += ["L%d %s" % (l["n"], link_md(l)), ""]
        fa = []
        put(fa, "A1")
        B = A.get("nested")
        if B and any(l.get("where") in ("B", "A2") for l in doc["links"]):
            fb = []
            put(fb, "B")
            frags[B["path"]] = "\n".join(fb) + "\n"
            fa += include_block(B)
            put(fa, "A2")
        frags[A["path"]] = "\n".join(fa) + "\n"
        lines += include_block(A)
    doc["_frags"] = frags
    if doc["docname"] == "index":
        lines += ["```{toctree}", ":hidden:", ""] + [d["docname"] for d in desc["docs"] if d["docname"] != "index"] + ["```", ""]
    return "\n".join(lines) + "\n", at


def project_files(desc):
    files, lines = {}, {}
    for d in desc["docs"]:
        src, at = render_doc(desc, d)
        files[d["docname"] + d["ext"]] = src
        lines[d["docname"]] = at
        files.update(d.pop("_frags", {}))
    for e in desc["extras"]:
        files[e["path"]] = e["content"]
    conf = CONF
    if desc.get("nitpick"):
        conf += "nitpick_ignore = %r\n" % [("myst", t) for t in desc["nitpick"]]
    cfg = desc.get("config") or {}
    if cfg.get("all_links_external"):
        conf += "myst_all_links_external = True\n"
    if cfg.get("commonmark_only"):
        conf += "myst_commonmark_only = True\n"
    if cfg.get("url_schemes"):
        conf += "myst_url_schemes = %r\n" % cfg["url_schemes"]
    if cfg.get("ref_domains"):
        conf += "myst_ref_domains = %r\n" % cfg["ref_domains"]
    files["conf.py"] = conf
    return files, lines


def link_file(doc, l):
    """the source file a link is written in (the included file for links of an {include}d fragment)"""
    return l.get("infile") or (l["inc"]["path"] if l.get("inc") else doc["docname"] + doc["ext"])


def page_uri(desc, docname):
    """the builder's URI of a document's page, relative to the output directory"""
    if desc.get("builder") == "dirhtml":
        if docname == "index":
            return ""
        if docname.endswith("/index"):
            return docname[:-5]
        return docname + "/"
    return docname + ".html"


def out_file(desc, docname):
    u = page_uri(desc, docname)
    return u + "index.html" if desc.get("builder") == "dirhtml" else u


def canon_uri(u):
    return posixpath.normpath(u or ".")


# =========================================================================== building + observation

def node_sig(node):
    from docutils import nodes
    if isinstance(node, nodes.Text):
        return str(node)
    inner = "".join(node_sig(c) for c in node.children)
    if isinstance(node, nodes.emphasis):
        return "em(%s)" % inner
    if isinstance(node, nodes.strong):
        return "st(%s)" % inner
    if isinstance(node, nodes.literal):
        return "c(%s)" % inner
    if isinstance(node, (nodes.inline, nodes.reference)) or node.tagname in ("download_reference", "pending_xref"):
        return inner
    return "%s(%s)" % (node.tagname, inner)


def observe_doctree(doctree, dlmap):
    """{n: (tgt, text signature)} from the link paragraphs of a resolved doctree."""
    from docutils import nodes
    out = {}
    for p in doctree.findall(nodes.paragraph):
        if not p.children or not isinstance(p[0], nodes.Text):
            continue
        m = re.match(r"L(\d+) ?", str(p[0]))
        if not m:
            continue
        n = int(m.group(1))
        els = [c for c in p.children[1:] if not isinstance(c, nodes.system_message)]
        rest = str(p[0])[m.end():]
        if rest or len(els) != 1 or isinstance(els[0], nodes.Text):
            out[n] = ("?:" + p.pformat()[:300], "")
            continue
        e = els[0]
        if e.tagname == "download_reference":
            if "refuri" in e:
                tgt = "E:" + unquote(e["refuri"])
            elif "filename" in e:
                tgt = "DL:" + dlmap.get(e["filename"], "?" + e["filename"])
            else:
                tgt = "DM"
        elif isinstance(e, nodes.reference):
            if "refuri" in e:
                tgt = ("U:" if e.get("internal") else "E:") + unquote(e["refuri"])
            elif "refid" in e:
                tgt = ("R:" + e["refid"]) if (e.get("internal") or e.get("id_link")) else ("F:" + unquote(e["refid"]))
            else:
                tgt = "?:reference"
        elif e.tagname == "pending_xref":
            tgt = "?:pending_xref"
        elif isinstance(e, nodes.inline):
            tgt = "B"
        else:
            tgt = "?:" + e.tagname
        out[n] = (tgt, node_sig(e))
    return out


class _Frag(html.parser.HTMLParser):
    """first <a> of a paragraph fragment: href and signature of its content; signature of everything."""

    def __init__(self):
        super().__init__(convert_charrefs=True)
        self.href = None
        self.in_a = 0
        self.stack = []
        self.parts_a = []
        self.parts_all = []
        self.n_a = 0

    def _emit(self, s):
        self.parts_all.append(s)
        if self.in_a:
            self.parts_a.append(s)

    def handle_starttag(self, tag, attrs):
        if tag == "a":
            self.n_a += 1
            if self.n_a == 1:
                self.href = dict(attrs).get("href")
                self.in_a = 1
            return
        if tag in ("em", "strong", "code"):
            self._emit({"em": "em(", "strong": "st(", "code": "c("}[tag])

    def handle_endtag(self, tag):
        if tag == "a":
            self.in_a = 0
            return
        if tag in ("em", "strong", "code"):
            self._emit(")")

    def handle_data(self, data):
        self._emit(data)


def observe_html(page_html):
    """{n: (href|None, signature of the <a> content or of the paragraph rest, number of <a>)}"""
    out = {}
    for m in re.finditer(r"<p>L(\d+) ?(.*?)</p>", page_html, re.S):
        f = _Frag()
        f.feed(m.group(2))
        f.close()
        out[int(m.group(1))] = (f.href, "".join(f.parts_a) if f.href is not None else "".join(f.parts_all), f.n_a)
    return out


def parse_warning_stream(text, src):
    """[(docpath|None, line|None, tag, message)]"""
    out = []
    text = ANSI.sub("", text).replace(src + os.sep, "")
    for ln in text.splitlines():
        if not ln.strip():
            continue
        m = re.match(r"^(?:(?P<f>[^:\s][^:]*?):(?:(?P<l>\d+):)? )?(?P<lvl>WARNING|ERROR|CRITICAL): (?P<msg>.*?)(?: \[(?P<tag>[A-Za-z0-9_.\-]+)\])?$", ln)
        if m:
            f = m.group("f")
            if f and (f.endswith(".md.rst") or f.endswith(".inc.rst")):
                # warnings logged with location=(source path, line) are printed by Sphinx 8 through doc2path(),
                # which appends the first source suffix to the (unknown) "docname": x.md -> x.md.rst
                f = f[:-4]
            out.append((f, int(m.group("l")) if m.group("l") else None, m.group("tag") or "", m.group("msg")))
        else:
            out.append((None, None, "?", ln))
    return out


def build_project(desc):
    """Build in-process; returns a JSON-able observation record (or {'exception':...})."""
    from sphinx.application import Sphinx
    from sphinx.util.docutils import docutils_namespace, patch_docutils
    from sphinx.util.nodes import clean_astext

    files, lines = project_files(desc)
    d = tempfile.mkdtemp(prefix="mystverif-c12-")
    try:
        src = os.path.realpath(os.path.join(d, "src"))
        os.makedirs(src)
        for name, content in files.items():
            p = os.path.join(src, name)
            os.makedirs(os.path.dirname(p), exist_ok=True)
            with open(p, "w") as f:
                f.write(content)
        out = os.path.join(d, "out")
        status, warning = io.StringIO(), io.StringIO()
        obs = {"srcdir": src, "lines": {k: {str(n): l for n, l in v.items()} for k, v in lines.items()}}
        try:
            with docutils_namespace(), patch_docutils():
                app = Sphinx(src, src, out, os.path.join(d, "doctrees"), desc.get("builder", "html"), status=status,
                             warning=warning, freshenv=True, parallel=0)
                app.build()
                build_warnings = warning.getvalue()   # before get_and_resolve_doctree re-runs the resolver
                env = app.env
                std = env.get_domain("std")
                obs["env"] = {
                    "all_docs": sorted(env.all_docs),
                    "titles": {k: clean_astext(v) for k, v in env.titles.items()},
                    "slugs": {k: [[s, v[1], v[2]] for s, v in (env.metadata[k].get("myst_slugs") or {}).items()]
                              for k in env.all_docs},
                    "labels": sorted([k, v[0], v[1], str(v[2])] for k, v in std.labels.items()),
                    "anonlabels": sorted([k, v[0], v[1]] for k, v in std.anonlabels.items()),
                    "suffixes": list(env.project.source_suffix),
                    "url_schemes": sorted(app.config.myst_url_schemes),
                }
                dlmap = {v[1].as_posix() if hasattr(v[1], "as_posix") else str(v[1]): (k.as_posix() if hasattr(k, "as_posix") else str(k))
                         for k, v in env.dlfiles.items()}
                obs["doctree"] = {}
                for dn in sorted(env.found_docs):
                    dt = env.get_and_resolve_doctree(dn, app.builder)
                    obs["doctree"][dn] = {str(n): list(v) for n, v in observe_doctree(dt, dlmap).items()}
                    # ids of the sections / labelled nodes, in document order (for the search oracle)
                    from docutils import nodes
                    obs.setdefault("section_ids", {})[dn] = [list(s["ids"]) for s in dt.findall(nodes.section)]
                    obs.setdefault("all_ids", {})[dn] = sorted({i for nd in dt.findall(nodes.Element) for i in nd.get("ids", [])})
        except Exception as e:  # the property: never an uncaught exception
            import traceback
            tb = traceback.extract_tb(e.__traceback__)
            site = next((f"{os.path.basename(f.filename)}:{f.name}" for f in reversed(tb) if "myst_parser" in f.filename), "?")
            obs["exception"] = {"type": type(e).__name__, "site": site, "msg": str(e)[:300]}
            return obs
        obs["warnings"] = [list(w) for w in parse_warning_stream(build_warnings, src)]
        obs["html"] = {}
        obs["outfiles"] = {}
        for root, _, fs in os.walk(out):
            for f in fs:
                p = os.path.join(root, f)
                rel = os.path.relpath(p, out).replace(os.sep, "/")
                if f.endswith(".html"):
                    with open(p, encoding="utf8", errors="replace") as fh:
                        page = fh.read()
                    obs["html"][rel] = {str(n): list(v) for n, v in observe_html(page).items()}
                    obs.setdefault("html_ids", {})[rel] = sorted(set(re.findall(r'\sid="([^"]*)"', page)))
                elif rel.startswith("_downloads/"):
                    with open(p, "rb") as fh:
                        obs["outfiles"][rel] = hashlib.sha256(fh.read()).hexdigest()
        return obs
    finally:
        shutil.rmtree(d, ignore_errors=True)


def _worker(desc_json):
    return json.dumps(build_project(json.loads(desc_json)))


_POOL = None


def build_many(descs):
    """Build all projects on a pool of worker processes, each reusing its Sphinx import."""
    global _POOL
    import multiprocessing as mp
    from concurrent.futures import ProcessPoolExecutor
    if not descs:
        return []
    if len(descs) <= 2:
        return [build_project(d) for d in descs]
    if _POOL is None:
        _POOL = ProcessPoolExecutor(max_workers=min(12, os.cpu_count() or 4), mp_context=mp.get_context("fork"))
    return [json.loads(r) for r in _POOL.map(_worker, [json.dumps(d) for d in descs], chunksize=2)]


# =========================================================================== the model side

def children_sig(l):
    """what the rendered children of the link token look like"""
    if l["form"] == "auto":
        return l["dest"]
    return l["text_sig"]


def model_line(desc, obs):
    src = [s for s in obs["srcdir"].split("/") if s]
    cfg = desc.get("config") or {}
    toks = ["run", "S", enc_strs(src), enc_strs(SUFFIXES), enc_strs(desc.get("nitpick", [])),
            enc_strs(cfg.get("url_schemes") or URL_SCHEMES),
            "1" if desc.get("builder") == "dirhtml" else "0", "1" if cfg.get("all_links_external") else "0",
            "1" if cfg.get("commonmark_only") else "0"]
    files, _ = project_files(desc)
    for f in files:
        toks += ["F", enc_strs(f.split("/"))]
    labels = all_labels(desc)
    for d in desc["docs"]:
        dd = doc_dir(d["docname"])
        toks += ["D", enc_str(d["docname"]), enc_strs([s for s in dd.split("/") if s]), enc_str(d["title"])]
        for h in describe_doc(d):
            if h["slug"] is not None:
                toks += ["G", enc_str(h["slug"]), enc_str(h["id"]), enc_str(h["text"])]
        for (name, ldoc, lid, sect) in labels:
            if ldoc == d["docname"] and d["ext"] == ".md":
                toks += ["O", enc_str(name), enc_str(lid), enc_ostr(sect)]
    for (name, ldoc, lid, sect) in BUILTIN_LABELS:
        toks += ["B", enc_str(name), enc_str(ldoc), enc_str(lid), enc_ostr(sect)]
    for (name, ldoc, lid, sect) in labels:
        toks += ["B", enc_str(name), enc_str(ldoc), enc_str(lid), enc_ostr(sect)]
    order = []
    for d in desc["docs"]:
        if not d["links"]:
            continue
        toks += ["C", enc_str(d["docname"])]
        for l in d["links"]:
            inc = l.get("inc")
            toks += ["L", enc_str(l["dest"]), "1" if l["form"] == "auto" else "0",
                     "1" if (l["form"] == "auto" or l["text_md"]) else "0",
                     enc_ostr(inc["prefix"] if inc else None),
                     enc_strs([x for x in doc_dir(inc["path"]).split("/") if x]) if inc else "."]
            order.append((d["docname"], l))
    return "\t".join(toks), order


def decode_outcome(s, l):
    """model reply -> (cls, tgt, text signature, [(tag, named)])"""
    cls, tgt, txt, ws = s.split("|")
    k, _, rest = tgt.partition(":")
    if k in ("U", "R", "F", "E"):
        tgt = k + ":" + dec_str(rest)
    elif k == "DL":
        kk, _, r2 = rest.partition(":")
        if kk == "I":
            tgt = "DL:" + "/".join(dec_strs(r2))
        else:
            tgt = "DL:outside"
    if txt == "C":
        sig = children_sig(l)
    elif txt == "N":
        sig = ""
    elif txt.startswith("S:"):
        sig = dec_str(txt[2:])
    else:
        sig = "c(%s)" % dec_str(txt[2:])
    warns = []
    if ws != ".":
        for w in ws.split("/"):
            if w.startswith("M:"):
                warns.append(("myst.xref_missing", dec_str(w[2:])))
            elif w.startswith("A:"):
                warns.append(("myst.xref_ambiguous", dec_str(w[2:])))
            else:
                warns.append(("download.not_readable", ""))
    return cls.split(":")[0], tgt, sig, warns


def warnings_at(obs, path, line):
    # inside an {include}d file the reported line is one too high (nested_render_text is started at startline + 1;
    # source lines are property C04's subject): links are two lines apart, so both are accepted there
    ok = (line, line + 1) if path.endswith(".inc") else (line,)
    return [(w[2], w[3]) for w in obs["warnings"] if w[0] == path and w[1] in ok]


def check_env(ctx, desc, obs):
    """O_sphinx_env: the environment holds what the description says."""
    env = obs["env"]
    exp_docs = sorted(d["docname"] for d in desc["docs"])
    exp_titles = {d["docname"]: d["title"] for d in desc["docs"]}
    exp_slugs = {d["docname"]: [[h["slug"], h["id"], h["text"]] for h in describe_doc(d) if h["slug"] is not None]
                 for d in desc["docs"]}
    labs = all_labels(desc)
    exp_labels = sorted([n, dn, i, s] for (n, dn, i, s) in BUILTIN_LABELS + labs if s is not None)
    exp_anon = sorted([n, dn, i] for (n, dn, i, s) in BUILTIN_LABELS + labs)
    got = [env["all_docs"], env["titles"], env["slugs"], env["labels"], env["anonlabels"], env["suffixes"], env["url_schemes"]]
    want = [exp_docs, exp_titles, exp_slugs, exp_labels, exp_anon, SUFFIXES,
            sorted((desc.get("config") or {}).get("url_schemes") or URL_SCHEMES)]
    names = ["all_docs", "titles", "myst_slugs", "labels", "anonlabels", "source_suffix", "url_schemes"]
    ok = True
    for nme, g, w in zip(names, got, want):
        ctx.corr_cases += 1
        ctx.count("env-check")
        if g != w:
            ok = False
            ctx.disagree("O_sphinx_env:" + nme, {"kind": "project", "desc": desc}, repr(g)[:600], repr(w)[:600])
    return ok


def link_bucket(src_doc, l):
    it = l["intent"]
    sd = src_doc.count("/")
    td = it.get("doc", it.get("path", "")).count("/") if (it.get("doc") or it.get("path")) else -1
    return (sd, td, it.get("style", ""), it.get("scheme", ""), l["form"], "explicit" if l["text_md"] else "empty",
            it["kind"], it.get("what", ""), "included" if l.get("inc") else "")


def nontrivial(src_doc, l):
    it = l["intent"]
    return ("/" in src_doc or "/" in it.get("doc", "") or "/" in it.get("path", "") or it["kind"] != "doc")


def corr_project(ctx, desc, obs, line_reply):
    """per-link comparison of the extracted model with the resolved doctree + warning stream."""
    line, order = line_reply[0], line_reply[1]
    replies = line_reply[2].split(" ") if line_reply[2] != "." else []
    if len(replies) != len(order):
        ctx.disagree("model-reply", {"kind": "project", "desc": desc}, len(order), line_reply[2][:300])
        return
    docs_by = {d["docname"]: d for d in desc["docs"]}
    for (docname, l), rep in zip(order, replies):
        ctx.corr_cases += 1
        cls, m_tgt, m_sig, m_warns = decode_outcome(rep, l)
        o = obs["doctree"].get(docname, {}).get(str(l["n"]))
        o_tgt, o_sig = (o[0], o[1]) if o else ("?:no-paragraph", "")
        lineno = obs["lines"][docname][str(l["n"])]
        o_warns = warnings_at(obs, link_file(docs_by[docname], l), lineno)
        ctx.count("corr:" + cls + ":" + m_tgt.split(":")[0] + (":warn" if m_warns else ""))
        if nontrivial(docname, l):
            ctx.nontriv(link_bucket(docname, l))
        impl = {"target": o_tgt, "text": o_sig, "warnings": sorted(t for t, _ in o_warns)}
        model = {"target": m_tgt, "text": m_sig, "warnings": sorted(t for t, _ in m_warns)}
        named_ok = True
        for (t, named) in m_warns:
            named = named.replace(obs["srcdir"] + "/", "")   # the stream is compared with the scratch prefix removed
            if t == "myst.xref_missing" and not any(t2 == t and (named in msg or repr(named) in msg) for t2, msg in o_warns):
                named_ok = False
        if m_tgt == "DL:outside":
            model["target"] = impl["target"] if impl["target"].startswith("DL:") else m_tgt
        if impl != model or not named_ok:
            if not named_ok:
                model["named"] = [n for _, n in m_warns]
                impl["messages"] = [m for _, m in o_warns]
            ctx.disagree("run_link", {"kind": "link", "desc": reduce_desc(desc, docname, l["n"]), "doc": docname, "n": l["n"]},
                         impl, model)


def reduce_desc(desc, docname, n):
    """the same project with only the one link kept (documents and files unchanged)."""
    d2 = json.loads(json.dumps(desc))
    for d in d2["docs"]:
        d["links"] = [l for l in d["links"] if d["docname"] == docname and l["n"] == n]
    return d2


# ----- path functions against the libraries

def rand_path(rng):
    alpha = ["a", "b", "..", ".", "", "x.md", "y.rst", "#f", "//", "/", "\\", "c d", "index", "a.b", "x.md#s"]
    s = "/".join(rng.choice(alpha) for _ in range(rng.randint(0, 5)))
    if rng.random() < 0.3:
        s = "/" * rng.randint(1, 3) + s
    return s


def corr_pathfns(ctx):
    import posixpath as pp
    from sphinx.util import docname_join
    from sphinx.util.osutil import relative_uri
    from myst_parser.mdit_to_docutils.base import REGEX_SCHEME
    rng = ctx.rng
    nn = ctx.budget(4000, 60000, 60000)
    ps = [rand_path(rng) for _ in range(nn)]
    pairs = [(rand_path(rng), rand_path(rng)) for _ in range(nn)]
    trips = [(rand_path(rng), rand_path(rng), rand_path(rng)) for _ in range(nn)]
    sch = ["".join(rng.choice("aZ3+.-:/#p ") for _ in range(rng.randint(0, 6))) + rng.choice(["", "project:x", "path:y", ":", "http://a"])
           for _ in range(nn)]
    reqs = ([("normpath", (p,), pp.normpath(p)) for p in ps]
            + [("docname_join", ab, docname_join(*ab)) for ab in pairs]
            + [("relative_uri", ab, relative_uri(*ab)) for ab in pairs]
            + [("pjoin", abc, pp.join(*abc)) for abc in trips])
    lines = ["\t".join([f] + [enc_str(a) for a in args]) for f, args, _ in reqs]
    lines += ["scheme\t" + enc_str(s) for s in sch]
    outs = model_run(PID, lines)
    for (f, args, want), o in zip(reqs, outs):
        ctx.corr_cases += 1
        ctx.count("pathfn:" + f)
        if dec_str(o) != want:
            ctx.disagree("pathfn:" + f, {"kind": "pathfn", "fn": f, "args": list(args)}, want, dec_str(o))
    for s, o in zip(sch, outs[len(reqs):]):
        ctx.corr_cases += 1
        ctx.count("pathfn:scheme")
        m = REGEX_SCHEME.match(s)
        want = m.group(1) if m else None
        if dec_ostr(o) != want:
            ctx.disagree("pathfn:scheme", {"kind": "pathfn", "fn": "scheme", "args": [s]}, want, dec_ostr(o))
    corr_exhaustive(ctx)
    # round trip on the implementation's own function (what C12_relative_uri_roundtrip proves for the model)
    segs = ["a", "b", "c", "pkg", "x_y", "one", "v1.2"]
    for _ in range(ctx.budget(2000, 20000, 20000)):
        fr = "/".join(rng.choice(segs) for _ in range(rng.randint(1, 5))) + ".html"
        to = "/".join(rng.choice(segs) for _ in range(rng.randint(1, 5))) + ".html"
        rel = relative_uri(fr, to)
        back = fr if rel == "" else pp.normpath(pp.join(pp.dirname(fr), rel))
        ctx.corr_cases += 1
        ctx.count("pathfn:roundtrip")
        if back != to:
            ctx.disagree("pathfn:roundtrip", {"kind": "pathfn", "fn": "relative_uri", "args": [fr, to]}, back, to)


def seg_lists(alpha, maxlen):
    import itertools
    for k in range(maxlen + 1):
        for t in itertools.product(alpha, repeat=k):
            yield list(t)


def corr_exhaustive(ctx):
    """Every small path over the segments '', '.', '..', 'a', 'b' (so: empty segments, dot segments at every
    position, trailing slashes) with 0-3 leading slashes, through the library functions and the model."""
    import posixpath as pp
    import types
    from sphinx.builders.dirhtml import DirectoryHTMLBuilder
    from sphinx.builders.html import StandaloneHTMLBuilder
    from sphinx.util import docname_join
    from sphinx.util.osutil import relative_uri
    A = ["", ".", "..", "a", "b"]
    big = ctx.budget(2, 3, 3)
    singles = [pre + "/".join(l) for l in seg_lists(A, 4) for pre in ("", "/", "//", "///")]
    mids = [pre + "/".join(l) for l in seg_lists(A, big) for pre in ("", "/")]
    smalls = [pre + "/".join(l) for l in seg_lists(A, 2) for pre in ("", "/")]
    uris = [u + f for u in mids for f in ("", "#f")]
    reqs = [("normpath", (p,), pp.normpath(p)) for p in singles]
    reqs += [("docname_join", (b, d), docname_join(b, d)) for b in smalls for d in mids]
    reqs += [("relative_uri", (b, t), relative_uri(b, t)) for b in uris for t in uris]
    reqs += [("pjoin", (a, b, c), pp.join(a, b, c)) for a in smalls[:14] for b in smalls[:14] for c in smalls[:14]]
    absol = ["/" + "/".join(l) for l in seg_lists(A, 3)]
    reqs += [("relpath", (p, st), pp.relpath(p, st)) for p in absol for st in absol[:31]]
    dn_alpha = ["a", "index", "b", ""]
    dns = ["/".join(l) for l in seg_lists(dn_alpha, 3)]
    html = types.SimpleNamespace(link_suffix=".html")
    reqs += [("target_uri", ("1", d), DirectoryHTMLBuilder.get_target_uri(None, d)) for d in dns]
    reqs += [("target_uri", ("0", d), StandaloneHTMLBuilder.get_target_uri(html, d)) for d in dns]
    rng = ctx.rng
    lows = [chr(c) for c in range(0x250)] + ["".join(chr(rng.randrange(0x250)) for _ in range(rng.randint(0, 8))) for _ in range(2000)]
    reqs += [("lower", (x,), x.lower()) for x in lows]
    lines = ["\t".join([f] + [a if f == "target_uri" and i == 0 else enc_str(a) for i, a in enumerate(args)]) for f, args, _ in reqs]
    outs = model_run(PID, lines)
    for (f, args, want), o in zip(reqs, outs):
        ctx.corr_cases += 1
        ctx.count("pathfn:exhaustive:" + f)
        if dec_str(o) != want:
            ctx.disagree("pathfn:" + f, {"kind": "pathfn", "fn": f, "args": list(args)}, want, dec_str(o))
    # the premises of C12_relative_uri_roundtrip are needed for the real function as well: outside them
    # (dot / empty / '#' segments) the round trip fails on some inputs, inside it never does
    def normal(u):
        segs = u.split("/")
        return all(x not in ("", ".", "..") and "#" not in x for x in segs[:-1]) and segs[-1] not in (".", "..") \
            and "#" not in segs[-1] and not u.startswith("/")
    def back(fr, rel):
        if rel == "":
            return fr
        segs = fr.split("/")[:-1] + rel.split("/")
        out = []
        for x in segs:
            if x in ("", "."):
                continue
            if x == "..":
                if out:
                    out.pop()
            else:
                out.append(x)
        return "/".join(out + ([""] if segs[-1] in ("", ".", "..") else []))
    for fr in mids:
        for to in mids:
            ok = back(fr, relative_uri(fr, to)) == to
            if normal(fr) and normal(to):
                ctx.corr_cases += 1
                ctx.count("pathfn:roundtrip-normal")
                if not ok:
                    ctx.disagree("pathfn:roundtrip", {"kind": "pathfn", "fn": "relative_uri", "args": [fr, to]}, back(fr, relative_uri(fr, to)), to)
            elif not ok:
                ctx.count("pathfn:roundtrip-fails-outside-premise")


def corr_relfn(ctx, descs_obs):
    """relfn2path / path2doc of a real BuildEnvironment vs the model, on random file names."""
    from sphinx.application import Sphinx
    from sphinx.util.docutils import docutils_namespace, patch_docutils
    rng = ctx.rng
    d = tempfile.mkdtemp(prefix="mystverif-c12-")
    try:
        src = os.path.realpath(os.path.join(d, "src"))
        os.makedirs(os.path.join(src, "a", "b"))
        for f in ("index.md", "a/one.md", "a/b/two.md"):
            with open(os.path.join(src, f), "w") as fh:
                fh.write("# T\n")
        with open(os.path.join(src, "conf.py"), "w") as fh:
            fh.write(CONF)
        with docutils_namespace(), patch_docutils():
            app = Sphinx(src, src, os.path.join(d, "out"), os.path.join(d, "dt"), "html", status=io.StringIO(),
                         warning=io.StringIO(), freshenv=True)
            env = app.env
            env.find_files(app.config, app.builder)
            srcsegs = [s for s in src.split("/") if s]
            cases, lines = [], []
            for fn in [pre + "/".join(l) for l in seg_lists(["", ".", "..", "a", "one.md", "\\"], 3) for pre in ("", "/", "//", "///")]:
                for dn in ("index", "a/one", "a/b/two"):
                    cases.append((fn, dn))
                    dd = [x for x in doc_dir(dn).split("/") if x]
                    lines.append("\t".join(["path2doc", enc_strs(SUFFIXES), enc_strs(srcsegs), enc_strs(dd), enc_str(fn)]))
                    lines.append("\t".join(["relfn2path", enc_strs(srcsegs), enc_strs(dd), enc_str(fn)]))
            for _ in range(ctx.budget(3000, 40000, 40000)):
                fn = rand_path(rng)
                if rng.random() < 0.3:
                    fn = "../" * rng.randint(1, 6) + fn
                dn = rng.choice(["index", "a/one", "a/b/two"])
                cases.append((fn, dn))
                dd = [s for s in doc_dir(dn).split("/") if s]
                lines.append("\t".join(["path2doc", enc_strs(SUFFIXES), enc_strs(srcsegs), enc_strs(dd), enc_str(fn)]))
                lines.append("\t".join(["relfn2path", enc_strs(srcsegs), enc_strs(dd), enc_str(fn)]))
            outs = model_run(PID, lines)
            for i, (fn, dn) in enumerate(cases):
                ctx.corr_cases += 1
                ctx.count("pathfn:relfn2path+path2doc")
                try:
                    _, absfn = env.relfn2path(fn, dn)
                    want_doc = env.path2doc(absfn)
                except Exception as e:
                    absfn, want_doc = "!" + type(e).__name__, "!" + type(e).__name__
                got_doc = dec_ostr(outs[2 * i])
                loc = outs[2 * i + 1]
                if loc.startswith("I:"):
                    got_abs = "/" + "/".join(srcsegs + dec_strs(loc[2:]))
                else:
                    got_abs = "/" + "/".join(dec_strs(loc[2:]))
                if got_doc != want_doc or got_abs != absfn:
                    ctx.disagree("pathfn:relfn2path", {"kind": "pathfn", "fn": "relfn2path", "args": [fn, dn]},
                                 [absfn, want_doc], [got_abs, got_doc])
    finally:
        shutil.rmtree(d, ignore_errors=True)


_BUILT = {}


def projects_for(ctx, phase):
    """The generated projects of this run with their builds (shared by corr and search)."""
    key = (ctx.seed, ctx.tier, phase)
    if key not in _BUILT:
        nproj = ctx.budget(300, 5000, 600) if phase == 0 else ctx.budget(300, 800, 800)
        descs = [gen_project(ctx.rng) for _ in range(nproj)]
        obs = build_many(descs)
        _BUILT[key] = (descs, obs)
    return _BUILT[key]


def corr(ctx):
    if not ctx.have_runner:
        return
    corr_pathfns(ctx)
    corr_relfn(ctx, None)
    descs, obss = projects_for(ctx, 0)
    todo = []
    for desc, obs in zip(descs, obss):
        if "exception" in obs:
            ctx.count("corr:build-exception")
            ctx.disagree("build-exception", {"kind": "project", "desc": desc}, obs["exception"], "no exception in the model")
            continue
        if (desc.get("config") or {}).get("commonmark_only"):
            ctx.count("env-check-skipped:commonmark_only")     # no targets, no toctree in plain CommonMark
        elif not check_env(ctx, desc, obs):
            continue
        line, order = model_line(desc, obs)
        todo.append((desc, obs, line, order))
    replies = model_run(PID, [t[2] for t in todo])
    for (desc, obs, line, order), rep in zip(todo, replies):
        corr_project(ctx, desc, obs, (line, order, rep))
    if descs:
        d0 = descs[0]
        ctx.sample({"project": {"docs": [{k: v for k, v in d.items() if k != "links"} for d in d0["docs"]], "extras": d0["extras"]},
                    "links": [{"from": d["docname"], "md": link_md(l), "intent": l["intent"]} for d in d0["docs"] for l in d["links"]][:12]})


# =========================================================================== direct property oracle

def resolve_href(page, href):
    """(canonical target URI or URL, fragment|None) of an href found on the page with URI [page]."""
    if re.match(r"^[a-zA-Z][a-zA-Z0-9+.-]*:", href):
        return href, None
    path, sep, frag = unquote(href).partition("#")
    if path == "":
        return canon_uri(page), (frag or None)
    return posixpath.normpath(posixpath.join(posixpath.dirname(page), path)), (frag or None)


def shown_path(desc, src_doc, l, path):
    """what a download link without text shows: the destination as written - or, inside an included file
    whose prefix matches, the path from the including document's directory"""
    it = l["intent"]
    inc = l.get("inc")
    base = l["dest"][len(it["scheme"]):] if it.get("scheme") in ("path:", "project:") else l["dest"]
    base = base.split("#")[0] if not it.get("scheme") else base
    if inc and base.startswith(inc["prefix"]):
        return posixpath.relpath("/" + path, "/" + doc_dir(src_doc))
    return base


def expect(desc, src_doc, l):
    """Independent expectation from the generator's intent:
    dict(doc, frag, text, missing:int, name) or None when the property makes no claim."""
    it = l["intent"]
    k = it["kind"]
    docs = {d["docname"]: d for d in desc["docs"]}
    explicit = l["form"] != "auto" and bool(l["text_md"])
    cfg = desc.get("config") or {}
    # Reading of the property w.r.t. configuration: it speaks about MyST's link resolution.  myst_all_links_external
    # switches that off for every link, and a scheme listed in myst_url_schemes makes links of that scheme external
    # URLs by the user's choice: no claim there.  myst_ref_domains only filters the other domains / inventories
    # (labels and documents are always tried), so the expectations are unchanged under it.
    if cfg.get("all_links_external") or cfg.get("commonmark_only"):
        return None
    if "project" in (cfg.get("url_schemes") or []) and l["dest"].startswith("project:"):
        return None
    if k == "doc":
        t = docs[it["doc"]]
        return {"doc": it["doc"], "frag": None, "text": l["text_sig"] if explicit else t["title"], "missing": 0}
    if k == "doc-anchor":
        t = docs[it["doc"]]
        h = describe_doc(t)[it["heading"]]
        return {"doc": it["doc"], "frag": h["id"], "section": it["heading"],
                "text": l["text_sig"] if explicit else h["text"], "missing": 0}
    if k == "anchor-missing":
        # the link still leads to the document; without link text the target is shown
        return {"doc": it["doc"], "frag": it["anchor"],
                "text": l["text_sig"] if explicit else "c(%s#%s)" % (it["doc"], it["anchor"]),
                "missing": 1, "name": it["anchor"]}
    if k == "label":
        if it["sect"] is None and not explicit:
            # a label on a paragraph has no title to show.  Inside its own document a '#label' link is
            # resolved by the local transform and shows '#label'; from elsewhere it counts as unresolved.
            if it["doc"] == src_doc and it["style"] in ("#", "project:#") and it["written"] == it["label"]:
                return {"doc": src_doc, "frag": it["id"], "label": True, "text": "#" + it["label"], "missing": 0}
            return {"doc": None, "text": None, "nonempty": True, "missing": 1, "name": it["written"]}
        return {"doc": it["doc"], "frag": it["id"], "label": True,
                "text": l["text_sig"] if explicit else it["sect"], "missing": 0}
    if k == "builtin":
        return None
    if k == "remote":
        return {"url": it["url"], "text": l["text_sig"] if explicit else "c(%s)" % it["url"], "missing": 0}
    if k == "file":
        return {"download": it["path"], "missing": 0,
                "text": l["text_sig"] if explicit else "c(%s)" % shown_path(desc, src_doc, l, it["path"])}
    if k == "missing":
        # rendered as an ordinary URL link (project:/path: to something that is no document/file): Markdown's
        # own rule for empty link text applies; every other unresolved link shows a fallback text
        url_like = it["what"] in ("project-nondoc", "path-file") or (
            it["what"] == "nul" and l["dest"].startswith(("project:", "path:")))
        if it.get("ignored"):
            return {"doc": None, "text": l["text_sig"] if explicit else None, "nonempty": True, "missing": 0}
        return {"doc": None, "text": l["text_sig"] if explicit else None, "nonempty": not url_like,
                "missing": 1, "name": it["name"], "what": it["what"]}
    return None


def check_link(ctx, desc, obs, src_doc, l):
    """The property on one link of a built project. Returns True when it holds."""
    it = l["intent"]
    ex = expect(desc, src_doc, l)
    ctx.search_cases += 1
    ctx.count("search:" + it["kind"] + (":" + it["what"] if it.get("what") else ""))
    if nontrivial(src_doc, l):
        ctx.nontriv(link_bucket(src_doc, l))
    if ex is None:
        return True
    docs_by = {d["docname"]: d for d in desc["docs"]}
    page = page_uri(desc, src_doc)
    srcfile = link_file(docs_by[src_doc], l)
    witness = {"kind": "link", "desc": reduce_desc(desc, src_doc, l["n"]), "doc": src_doc, "n": l["n"]}
    h = obs["html"].get(out_file(desc, src_doc), {}).get(str(l["n"]))
    lineno = obs["lines"][src_doc][str(l["n"])]
    warns = warnings_at(obs, srcfile, lineno)
    missing = [(t, m) for t, m in warns if t == "myst.xref_missing"]
    others = [(t, m) for t, m in warns if t != "myst.xref_missing"]
    kind = it["kind"] + (":" + it["what"] if it.get("what") else "")
    md = link_md(l)
    ok = True

    def fail(aspect, what, expected, observed):
        nonlocal ok
        ok = False
        ctx.fail("link:%s:%s" % (kind, aspect), witness, "%s in %s (%s builder): %s" % (md[:80], srcfile, desc.get("builder", "html"), what),
                 expected=expected, observed=observed)

    if h is None:
        fail("rendered", "the paragraph of the link is not in the written page", "paragraph L%d" % l["n"], None)
        return False
    href, sig, n_a = h
    # --- warnings
    if len(missing) != ex["missing"]:
        fail("warn-count", "%d myst.xref_missing warning(s), expected %d%s" % (
            len(missing), ex["missing"], (" (other warnings: %s)" % others) if others else ""), ex["missing"],
            [list(w) for w in warns])
    elif ex["missing"] == 1 and ex.get("name") and ex["name"] not in missing[0][1]:
        fail("warn-names", "the warning does not name the destination", ex["name"], missing[0][1])
    if ex["missing"] == 0 and others:
        fail("other-warning", "a resolvable link produced a warning", [], [list(w) for w in others])
    # --- text
    if ex.get("text") is not None and sig != ex["text"]:
        fail("text", "link text differs", ex["text"], sig)
    elif ex.get("text") is None and ex.get("nonempty") and not re.sub(r"\b(?:em|st|c)\(|\)", "", sig).strip():
        fail("fallback-text", "an unresolved link without link text shows nothing", "some text naming the target", sig)
    # --- target
    if "download" in ex:
        if href is None:
            fail("uri", "no href on the download link", "_downloads/.../" + posixpath.basename(ex["download"]), None)
        else:
            tgt, frag = resolve_href(page, href)
            content = [e["content"] for e in desc["extras"] if e["path"] == ex["download"]][0]
            want = hashlib.sha256(content.encode()).hexdigest()
            if not tgt.startswith("_downloads/") or posixpath.basename(tgt) != posixpath.basename(ex["download"]) \
                    or obs["outfiles"].get(tgt) != want:
                fail("uri", "the href does not lead to a copy of the file", "_downloads/<dir>/%s with the file's content" % posixpath.basename(ex["download"]),
                     {"href": href, "resolved": tgt, "copy_present": tgt in obs["outfiles"]})
    elif "url" in ex:
        if href != ex["url"]:
            fail("uri", "a remote download link must keep its URL", ex["url"], href)
    elif ex.get("doc"):
        want_uri = canon_uri(page_uri(desc, ex["doc"]))
        if href is None:
            fail("uri", "no href", want_uri, None)
        else:
            tgt, frag = resolve_href(page, href)
            if tgt != want_uri or (frag or None) != ex["frag"]:
                fail("uri", "href resolves to the wrong place", [want_uri, ex["frag"]], {"href": href, "resolved": [tgt, frag]})
            elif ex["missing"] == 0:
                of = out_file(desc, ex["doc"])
                if of not in obs["html"]:
                    fail("uri", "the target page was not written", of, sorted(obs["html"])[:20])
                elif frag is not None:
                    if frag not in obs.get("html_ids", {}).get(of, []):
                        fail("uri", "the fragment is not an id of the target page", frag, obs.get("html_ids", {}).get(of, [])[:30])
                    elif "section" in ex:
                        secs = obs["section_ids"].get(ex["doc"], [])
                        if ex["section"] >= len(secs) or frag not in secs[ex["section"]]:
                            fail("uri", "the fragment is not an id of the intended section", ex["section"], secs)
    return ok


def check_witness(ctx, w):
    """Re-run a stored witness on the implementation."""
    if w.get("kind") == "pathfn":
        return True
    desc = w["desc"]
    obs = build_project(desc)
    if "exception" in obs:
        ctx.search_cases += 1
        ctx.fail("exception:%s:%s" % (obs["exception"]["type"], obs["exception"]["site"]), w,
                 "building the project raised %s" % obs["exception"]["msg"], expected="a warning", observed=obs["exception"])
        return False
    ok = True
    for d in desc["docs"]:
        for l in d["links"]:
            if w.get("kind") == "link" and not (d["docname"] == w["doc"] and l["n"] == w["n"]):
                continue
            ok = check_link(ctx, desc, obs, d["docname"], l) and ok
    return ok


def search_projects(ctx, descs, obss):
    for desc, obs in zip(descs, obss):
        if "exception" in obs:
            ctx.search_cases += 1
            # find the link that causes it (for the first few failing projects only: one build per link)
            culprit = None
            n_exc = sum(1 for f in ctx.failures if f["signature"].startswith("exception:"))
            for d in (desc["docs"] if n_exc < 2 else []):
                for l in d["links"]:
                    o2 = build_project(reduce_desc(desc, d["docname"], l["n"]))
                    if "exception" in o2:
                        culprit = {"kind": "link", "desc": reduce_desc(desc, d["docname"], l["n"]), "doc": d["docname"], "n": l["n"]}
                        break
                if culprit:
                    break
            ctx.fail("exception:%s:%s" % (obs["exception"]["type"], obs["exception"]["site"]),
                     culprit or {"kind": "project", "desc": desc},
                     "building the project raised %s: %s" % (obs["exception"]["type"], obs["exception"]["msg"]),
                     expected="a myst.xref_missing warning or a resolved link", observed=obs["exception"])
            continue
        for d in desc["docs"]:
            for l in d["links"]:
                check_link(ctx, desc, obs, d["docname"], l)
        # stray warnings: everything in the stream must belong to a link line
        lines = {(link_file(d, l), obs["lines"][d["docname"]][str(l["n"])] + k) for d in desc["docs"] for l in d["links"]
                 for k in ((0, 1) if l.get("inc") else (0,))}
        cm = (desc.get("config") or {}).get("commonmark_only")
        for w in obs["warnings"]:
            if cm and not (w[2] or "").startswith("myst."):
                continue      # plain CommonMark: the toctree fence is a code block etc.; only MyST warnings are spurious
            if (w[0], w[1]) not in lines:
                ctx.search_cases += 1
                ctx.fail("stray-warning:" + (w[2] or "untyped"), {"kind": "project", "desc": desc},
                         "a warning that belongs to no generated link: %s" % w[3][:200], expected=None, observed=w)


KNOWN_WITNESSES = [
    # path: link to a file that does not exist (fixed by 30d027a: one myst.xref_missing)
    {"kind": "link", "doc": "index", "n": 1, "desc": {
        "docs": [{"docname": "index", "ext": ".md", "title_md": "Index Title", "title": "Index Title", "blocks": [],
                  "links": [{"n": 1, "form": "auto", "dest": "path:nofile.txt", "text_md": "", "text_sig": "",
                             "intent": {"kind": "missing", "what": "path-file", "name": "nofile.txt"}}]}],
        "extras": [], "nitpick": [], "dirs": [""]}},
    # over-long destination (fixed by 4baaac6: must stay a single warning)
    {"kind": "link", "doc": "index", "n": 1, "desc": {
        "docs": [{"docname": "index", "ext": ".md", "title_md": "Index Title", "title": "Index Title", "blocks": [],
                  "links": [{"n": 1, "form": "inline", "dest": "n" * 5000 + ".md", "text_md": "x", "text_sig": "x",
                             "intent": {"kind": "missing", "what": "overlong", "name": "nnnnnnnn"}}]}],
        "extras": [], "nitpick": [], "dirs": [""]}},
]


def search(ctx):
    done = 0
    for c in ctx.suspects[:40]:
        if c and c.get("kind") in ("link", "project"):
            check_witness(ctx, c)
            done += 1
    if not ctx.deep:
        from lib.common import load_known
        for w in KNOWN_WITNESSES + [k["witness"] for k in load_known() if k["property"] == PID and k.get("witness")]:
            check_witness(ctx, w)            # regression witnesses of the repaired defects
        descs, obss = projects_for(ctx, 0)
        search_projects(ctx, descs, obss)
    else:
        descs, obss = projects_for(ctx, 1)
        search_projects(ctx, descs, obss)
    global _POOL
    if _POOL is not None and (ctx.deep or not ctx.tie_breaks):
        _POOL.shutdown()
        _POOL = None


def replay(ctx, data):
    w = data.get("witness")
    if not w:
        print("replay file names no concrete input:", data.get("no_longer_checks"))
        return 1
    ok = check_witness(ctx, w)
    print("replay:", "property holds on this input" if ok else json.dumps(ctx.failures[-1], default=repr)[:1500])
    return 0 if ok else 1


LEVEL_TEXT = ("Machine-checked proof (Coq 8.16, 37 theorems in coq/Props/C12.v, all closed under the global context, coqchk in the "
              "thorough tier) about an executable Gallina model of MyST's Sphinx link path, and a tie of that model to the code by "
              "regenerating it from the source. PROVED IN FULL (no bound on depth or length): (a) C12_relative_uri_roundtrip / "
              "C12_builder_uri_roundtrip - resolving the relative URI computed for a link against the referencing page gives the "
              "target page, for every pair of documents at any directory depth, html and dirhtml builders, index documents "
              "included; (b) C12_path_spellings(+_path2doc, _docname, _docname_anchor) - every spelling of a file or docname "
              "(x.md, ./, ../ up to any common ancestor, leading /, without extension, with #anchor, project:, path:) written in a "
              "document of any directory normalises to the intended file and is classified as intended; (c) C12_relative_docs_rewrite "
              "/ _same_target and C12_include_* - a destination inside an {include}d file (any nesting) is rewritten to a spelling "
              "of the same file relative to the outermost document, and md_env is restored after every include; (d) "
              "C12_anchor_lookup - doc#slug is looked up in the TARGET document's slug table, a miss gives one warning, the fallback "
              "id and a fallback text; (e) C12_text_explicit / C12_text_title_* - explicit text (nested markup) is kept on every "
              "route, otherwise the title of the document / section / labelled section; (f) C12_missing_at_most_once, "
              "C12_missing_once - exactly one myst.xref_missing iff the destination is unresolved, on every route of the "
              "classifier, zero otherwise; (g) C12_plain_url_modes - under commonmark_only / gfm_only / all_links_external every "
              "link is a plain external URL. The premises of (a) and (b) are shown necessary by _refuted witnesses. TIE: "
              "gen/c12_src.py regenerates on every run, statement by statement and fail-closed, _abs_path, _handle_relative_docs, "
              "render_link_project/_path/_unknown, render_link, _resolve_ref_nested, _resolve_doc_nested, resolve_myst_ref_any, "
              "resolve_myst_ref_doc, MystReferenceResolver.run and the include bookkeeping of MockIncludeDirective.run; "
              "ResolveAnchorIds.apply comes regenerated from the C09 builder. C12_src_refines_model, C12_run_src, "
              "C12_include_restores_src and C12_pipeline_src_eq prove the regenerated definitions EQUAL to the model, and "
              "C12_path_spellings_src, C12_anchor_lookup_src, C12_relative_docs_rewrite_src, C12_missing_once_src, "
              "C12_text_explicit_pipeline, C12_missing_once_pipeline restate the property theorems for the regenerated code from "
              "render_link to the resolved node: a one-token edit of these functions breaks gen or a proof (discharged=0). In "
              "addition: per-link differential correspondence of the extracted model with in-process Sphinx builds of generated "
              "multi-document projects, exhaustive small-input correspondence of the modelled library functions, and a direct "
              "intent-based oracle on the written HTML (href resolved against the output tree, link text, warnings).")
LEVEL_NOTE = ("Partial where the property leaves MyST's code: the Sphinx environment (all_docs/found_docs, titles, myst_slugs, std "
              "labels: O_sphinx_env; the registries' explicit-name table: O_registries), the builders' get_target_uri, the file "
              "system, other std object types / other domains / intersphinx (universally quantified functions with O_contnode_*) and "
              "posixpath / pathlib / Sphinx path functions are oracle hypotheses - each transcribed, and compared with the real "
              "library on every run (exhaustively on small inputs), not verified. Remaining premises of the theorems: "
              "plain_url_mode P = false for the classifier theorems (C12_plain_url_modes covers the other case); names of files and "
              "directories are 'name_ok' (not empty, not '.'/'..', no '/', '#', ':', NUL, not a lone backslash) and the docname "
              "found by path2doc is non-empty (dn <> []: Python's `if docname:`); titles / section names non-empty for the "
              "title theorems; nitpick_ignore empty for the exact warning count (an ignored target gives no warning by design; "
              "C12_missing_at_most_once holds without it); one-to-one reading of quote/normalizeLink on generated names. Trusted: the "
              "Python-idiom -> Gallina mapping of the translator (listed in TRUSTED, vocabulary coq/XRef/XRefSrcBase.v) and the C09 "
              "builder's translation of ResolveAnchorIds. Configuration: html and dirhtml builders; myst_all_links_external, "
              "myst_commonmark_only, myst_url_schemes, myst_ref_domains, nitpick_ignore exercised; myst_gfm_only modelled only "
              "(linkify-it-py is not installed). No open finding. Seven defects found by this check were repaired in /repo "
              "(baseline green, tests unedited) and are re-run as regression witnesses on every search: 4baaac6 (over-long path: "
              "OSError), 30d027a (path: to a missing file gave no xref_missing), 5310f28 (docname#anchor never resolved), 3257367 "
              "(unresolved document link without text rendered nothing), 9a2ab65 (NUL in a destination: ValueError), 8272e06 and "
              "b916a8c (nested {include}: outer relative-docs lost / wrong base directory).")
