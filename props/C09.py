"""C09 - local '#target' links resolve to the right node or warn exactly once."""
from __future__ import annotations

import os
from concurrent.futures import ProcessPoolExecutor

from lib.common import enc_str, enc_ostr, enc_strs, dec_ostr, model_run_parallel, src_hashes

PID = "C09"
RULE = ("correspondence: generated documents (explicit targets via (name)=, attribute ids, directive :name:, headings incl. "
        "duplicate/empty titles, '#'-links explicit/empty/autolink, existing/missing/case-variant, inside quotes/lists/"
        "directives/tables); the registries/slug table/reference list are read from the real document just before "
        "ResolveAnchorIds.apply, fed to the extracted Coq model, and the model's per-link result (refid, filled text, "
        "system message, pending) and warning lines are compared with what the real transform did; plus hand-made registry "
        "states (indirect targets, footnote/refuri/desc_ nodes, captions, terms) run through the real transform on synthetic "
        "documents. Link positions: paragraph, list item, block quote, directive body, table cell, definition-list term and "
        "definition, field-list body, footnote body, heading; targets: (name)= before paragraph/heading/at the end/in quotes, "
        "{#id} on paragraphs, headings, spans and external links, directive :name:. search: the generator's own knowledge of "
        "the intended hit evaluated on the published doctree (docutils; one-document Sphinx projects in the thorough tier; a "
        "three-document Sphinx project for the project-wide fallthrough in every tier). "
        "non-trivial = a link that hits an explicit target that shadows a slug, a duplicate-title slug, or is missing")
TRUSTED = ["ResolveAnchorIds.apply is translated from the source on every run (gen/c09_src.py on gen/c09_pywalk.py -> coq/Gen/AnchorsSrc.v) and proved equal to the hand-written model coq/Refs/Anchors.v (C09_apply_src_is_apply); trusted there: the domain mapping = coq/Refs/AnchorsOps.v + the table in the docstring of gen/c09_src.py (document.nametypes/nameids/ids -> association lists with d[k] -> KeyError, d.get -> option; isinstance(n, nodes.X|Y) -> kind tests; n['refid'], n['names'][0], n[0] -> raising accessors; clean_astext(n) -> n_astext n; the reference being rewritten -> the local record st with refnode['refid']= / refnode += inline / create_warning(.., append_to=refnode) -> set_refid / add_inline / warn_append (nothing at all when suppressed); findall(document)(nodes.reference) -> the id_link reference list; the Sphinx bookkeeping statements (inner_node ..) accepted by exact text only; end of an iteration -> one output record), and the walker's control-flow translation (continuation duplicated into if-branches, `is None: continue` -> match, for -> fold_res, first-match loop -> find, locals renamed to canonical names by what they are assigned from)",
           "docutils registries (nametypes/nameids/ids), PropagateTargets and findall order are taken as found (read from the real document)",
           "the harness wraps ResolveAnchorIds.apply in-process to snapshot its input and output"]
ORACLES = {"O_normalizeLink": "markdown_it normalizeLink is only passed through (fallback refid of a missing target); supplied to the model as a table from the real function",
           "O_registries": "document.nametypes/nameids/ids as docutils builds them: read from the real document on every generated case",
           "O_suppressed": "_is_suppressed_warning('myst','xref_missing',..): both values exercised (suppress_warnings on/off)"}
ASSUMPTIONS = ["dict iteration order = insertion order (CPython >= 3.7)",
               "reading: target names are normalised (fully_normalize_name) while the link fragment is compared verbatim; a case-variant link counts as missing",
               "reading: 'the link's own line' is the line docutils/MyST assign to the reference node (first line of its inline block); generated links sit on that line",
               "reading: an explicit name defined twice is invalidated by docutils (Duplicate explicit target name) and then counts as not existing"]
LEVEL_TEXT = ("Proof (Coq), 16 theorems, all closed, over a Gallina model of ResolveAnchorIds.apply, for all registries, slug tables and reference "
              "lists: the explicit table is characterised from nametypes/nameids/ids (C09_explicit_spec), explicit targets win over slugs and slugs "
              "are used only without one (C09_resolution_order), a missing target gives exactly one xref_missing warning at the link's line and "
              "nothing else warns (C09_missing_warns_once, C09_warnings_exact, C09_missing_suppressed), references are preserved in number / order / "
              "text (C09_refs_preserved), empty text is filled from the title or '#name' (C09_implicit_text); under Sphinx an unresolved link becomes "
              "one pending_xref at the link's line and, composed with the C12 model of MystReferenceResolver, warns exactly once iff nothing in the "
              "project resolves it (C09_missing_sphinx_pending, C09_sphinx_fallthrough). EVERY RUN regenerates the Gallina definition of the method "
              "from transforms.py and re-proves it equal to the model (C09_apply_src_is_apply), so C09_resolution_order_src, "
              "C09_missing_warns_once_src, C09_implicit_text_src hold for the code as it is now. Refuted/open: an empty link to a missing target "
              "shows no text (C09_missing_empty_text_refuted); behaviours before the fix commits are kept as *_before_fix_refuted witnesses.")
LEVEL_NOTE = ("Remaining trust: the domain mapping (coq/Refs/AnchorsOps.v + the table in gen/c09_src.py) and the statement walker; the docutils "
              "registries (note_explicit_target / set_duplicate_name_id / PropagateTargets, dupnames included) and findall order are INPUTS read from "
              "the real document on every correspondence case, not modelled - renderer mistakes in filling them are caught only by the search oracle; "
              "clean_astext and normalizeLink are oracles (real functions feed the model); the Sphinx resolver is the C12 builder's model "
              "(coq/XRef/XRefModel.v) with its Sphinx-side oracles as premises. Open finding: text:missing-empty-not-filled (pinned fixture).")

_KINDS = None


def gen(ctx):
    import hashlib
    from gen import c09_src
    from lib import common
    ctx.gen_info["sources"] = src_hashes(["myst_parser/mdit_to_docutils/transforms.py", "myst_parser/mdit_to_docutils/base.py"])
    # Gen/AnchorsSrc.v: ResolveAnchorIds.apply translated statement by statement from the source
    text = c09_src.generate(common.REPO)
    common.write_if_changed(common.COQ / "Gen" / "AnchorsSrc.v", text)
    ctx.gen_info["Gen/AnchorsSrc.v"] = hashlib.sha256(text.encode()).hexdigest()[:16]


# ------------------------------------------------------------------ observing the real transform

def _kind(node):
    from docutils import nodes
    if isinstance(node, nodes.target):
        return "T"
    if isinstance(node, (nodes.caption, nodes.title)):
        return "C"
    if isinstance(node, (nodes.definition_list, nodes.field_list)):
        return "L"
    if isinstance(node, (nodes.field, nodes.definition_list_item)):
        return "F"
    if isinstance(node, (nodes.term, nodes.field_name)):
        return "N"
    return "O"


def _enc_node(node, depth=0):
    from docutils import nodes
    from myst_parser.mdit_to_docutils.base import clean_astext
    if not isinstance(node, nodes.Element):
        return [enc_str("#text"), "O", "~", "0", ".", enc_str(node.astext()), "0"]
    kids = list(node.children) if depth < 2 else []
    # clean_astext is only ever applied by the transform to rubrics, captions/titles and terms; a registered
    # system_message (ids 'system-message-N') has no parent to be removed from
    txt = node.astext() if isinstance(node, (nodes.system_message, nodes.raw)) else clean_astext(node)
    out = [enc_str(node.tagname), _kind(node), enc_ostr(node["refid"] if "refid" in node else None),
           "1" if "refuri" in node else "0", enc_strs(list(node["names"])) if node["names"] else ".",
           enc_str(txt), str(len(kids))]
    out[0] = enc_str(node.tagname)
    for k in kids:
        out += _enc_node(k, depth + 1)
    return out


def snapshot_before(document):
    """The state ResolveAnchorIds sees, as model input fields + the list of reference nodes."""
    from docutils import nodes
    from markdown_it.common.normalize_url import normalizeLink
    f = []
    nt = list(document.nametypes.items())
    f += ["NT", str(len(nt))]
    for k, v in nt:
        f += [enc_str(k), "1" if v else "0"]
    ni = list(document.nameids.items())
    f += ["NI", str(len(ni))]
    for k, v in ni:
        f += [enc_str(k), enc_ostr(v)]
    idl = list(document.ids.items())
    f += ["ID", str(len(idl))]
    for k, v in idl:
        f += [enc_str(k)] + _enc_node(v)
    slugs = list(getattr(document, "myst_slugs", {}).items())
    f += ["SL", str(len(slugs))]
    for k, (line, sid, title) in slugs:
        f += [enc_str(k), "~" if line is None else str(line), enc_str(sid), enc_str(title)]
    refs = [n for n in document.findall(nodes.reference) if n.get("id_link")]
    frs = [r["refuri"][1:] for r in refs]
    f += ["NL", str(len(frs))]
    for fr in frs:
        f += [enc_str(fr), enc_str(normalizeLink(fr))]
    f += ["RF", str(len(refs))]
    pre = []
    for r in refs:
        f += [enc_str(r["refuri"][1:]), "1" if r.children else "0", "~" if r.line is None else str(r.line)]
        pre.append({"frag": r["refuri"][1:], "has_text": bool(r.children), "line": r.line,
                    "text": r.astext(), "nchild": len(r.children), "parent": r.parent})
    return f, refs, pre


def snapshot_after(refs, pre):
    from docutils import nodes
    out = []
    for r, p in zip(refs, pre):
        pending = r.parent is None or r.parent is not p["parent"] or r not in p["parent"].children
        if pending:
            out.append({"refid": None, "fill": None, "msg": False, "pending": True})
            continue
        new = list(r.children)[p["nchild"]:]
        fill = [c.astext() for c in new if isinstance(c, nodes.inline)]
        msg = [c for c in new if isinstance(c, nodes.system_message)]
        other = [c for c in new if not isinstance(c, (nodes.inline, nodes.system_message))]
        out.append({"refid": r.get("refid"), "fill": fill[0] if len(fill) == 1 else (None if not fill else fill),
                    "msg": len(msg), "pending": False, "other": len(other), "has_refuri": "refuri" in r,
                    "kept_text": "".join(c.astext() for c in list(r.children)[:p["nchild"]]) == p["text"]})
    return out


_OBS = {}


def install_observer():
    """Wrap ResolveAnchorIds.apply (idempotent)."""
    from myst_parser.mdit_to_docutils import transforms as T
    if getattr(T.ResolveAnchorIds.apply, "_verif_wrapped", False):
        return
    orig = T.ResolveAnchorIds.apply

    def apply(self, **kw):
        ws = self.document.settings.warning_stream
        try:
            fields, refs, pre = snapshot_before(self.document)
        except Exception as e:  # state not understood: record, still run
            _OBS["error"] = repr(e)
            return orig(self, **kw)
        pos = len(ws.getvalue()) if hasattr(ws, "getvalue") else 0
        exc = None
        try:
            orig(self, **kw)
        except Exception as e:
            exc = e
        _OBS["last"] = {"fields": fields, "pre": [{k: v for k, v in p.items() if k != "parent"} for p in pre],
                        "after": None if exc else snapshot_after(refs, pre),
                        "exc": type(exc).__name__ if exc else None,
                        "warn_delta": ws.getvalue()[pos:] if hasattr(ws, "getvalue") else "",
                        "sphinx": hasattr(self.document.settings, "env")}
        if exc:
            raise exc

    apply._verif_wrapped = True
    T.ResolveAnchorIds.apply = apply


def observe(case):
    """Run the docutils front end on the case with the observer installed."""
    from lib.impl import publish, parse_warnings
    install_observer()
    _OBS.clear()
    settings = dict(case["settings"])
    try:
        doc, ws = publish(case["text"], settings)
    except Exception as e:
        return {"exc": type(e).__name__, "obs": None, "before_transform": _OBS.get("last") is None}
    obs = _OBS.get("last")
    if obs is None:
        return {"exc": None, "obs": None, "err": _OBS.get("error")}
    supp = "myst.xref_missing" in (settings.get("myst_suppress_warnings") or [])
    return {"exc": None, "obs": obs, "suppressed": supp,
            "wlines": sorted((w["line"] or 0) for w in parse_warnings(obs["warn_delta"]) if w["tag"] == "myst.xref_missing"),
            "w_other": [w for w in parse_warnings(obs["warn_delta"]) if w["tag"] != "myst.xref_missing"]}


def model_line(obs, suppressed, slug_hash=True):
    return "\t".join(["resolve", "1" if obs["sphinx"] else "0", "1" if suppressed else "0", "1" if slug_hash else "0"]
                     + obs["fields"])


def parse_model(reply):
    if reply.startswith("!"):
        return reply
    if reply == ".":
        return []
    out = []
    for item in reply.split(" "):
        refid, fill, warn, msg, pend, pline = item.split("!")
        out.append({"refid": dec_ostr(refid), "fill": dec_ostr(fill), "pline": None if pline == "~" else int(pline),
                    "wlines": [] if warn == "." else [0 if x == "~" else int(x) for x in warn.split(";")],
                    "msg": int(msg), "pending": pend == "1"})
    return out


def compare(obs_res, model):
    """None when the observation relation holds, else a description."""
    obs = obs_res["obs"]
    if obs["exc"]:
        return None if model == "!" + obs["exc"] else f"impl raised {obs['exc']}, model {model}"
    if isinstance(model, str):
        return f"model raised {model}, impl did not"
    after = obs["after"]
    if len(after) != len(model):
        return f"{len(after)} references after, model has {len(model)}"
    for i, (a, m) in enumerate(zip(after, model)):
        if a["pending"] != m["pending"]:
            return f"link {i}: pending {a['pending']} vs model {m['pending']}"
        if a["pending"]:
            continue
        if a["refid"] != m["refid"]:
            return f"link {i}: refid {a['refid']!r} vs model {m['refid']!r}"
        if a["fill"] != m["fill"]:
            return f"link {i}: filled text {a['fill']!r} vs model {m['fill']!r}"
        if a["msg"] != m["msg"]:
            return f"link {i}: system messages {a['msg']} vs model {m['msg']}"
        if a["other"] or a["has_refuri"] or not a["kept_text"]:
            return f"link {i}: unexpected change of the reference node {a}"
    mw = sorted(l for m in model for l in m["wlines"])
    if mw != obs_res["wlines"]:
        return f"xref_missing warning lines {obs_res['wlines']} vs model {mw}"
    return None


# ------------------------------------------------------------------ hand-made registry states

def synthetic_cases(rng, n):
    """Registry states the Markdown front end rarely produces (indirect targets, footnotes, refuri,
    desc_ nodes, captions, rubrics, definition/field lists), built as docutils documents directly
    and run through the real transform."""
    cases = []
    for _ in range(n):
        items = []
        for j in range(rng.randint(1, 5)):
            items.append({"name": rng.choice(["a", "b", "c", "d"]),
                          "node": rng.choice(["para", "target", "indirect", "indirect_bad", "indirect_noname", "footnote",
                                              "refuri", "desc", "figure", "table", "rubric", "rubric_empty", "deflist",
                                              "fieldlist", "deflist_empty", "section", "section_empty", "implicit",
                                              "noneid", "dli", "field"]),
                          "n": j})
        links = [{"frag": rng.choice(["a", "b", "c", "d", "e", "s1"]), "text": rng.random() < 0.4}
                 for _ in range(rng.randint(1, 4))]
        cases.append({"kind": "synthetic", "items": items, "links": links,
                      "slugs": rng.random() < 0.5, "suppress": rng.random() < 0.2})
    return cases


def build_synthetic(case):
    import io
    from docutils import nodes
    from docutils.frontend import get_default_settings
    from docutils.utils import new_document
    from myst_parser.parsers.docutils_ import Parser
    st = get_default_settings(Parser)
    ws = io.StringIO()
    st.warning_stream = ws
    st.report_level = 1
    st.halt_level = 5
    st.myst_suppress_warnings = ["myst.xref_missing"] if case["suppress"] else []
    doc = new_document("<synthetic>", st)
    for it in case["items"]:
        nm, kind, j = it["name"], it["node"], it["n"]
        txt = f"T{j}"
        if kind == "para":
            n = nodes.paragraph("", txt)
        elif kind == "target":
            n = nodes.target("", "")
        elif kind in ("indirect", "indirect_bad", "indirect_noname"):
            n = nodes.target("", "")
            if kind == "indirect":
                other = nodes.paragraph("", txt, names=[f"other{j}"])
                doc += other
                doc.note_explicit_target(other, other)
                n["refid"] = other["ids"][0]
            elif kind == "indirect_noname":
                other = nodes.paragraph("", txt, ids=[f"nn{j}"])
                doc += other
                doc.set_id(other)
                n["refid"] = f"nn{j}"
            else:
                n["refid"] = "does-not-exist"
        elif kind == "footnote":
            n = nodes.footnote("", nodes.paragraph("", txt))
        elif kind == "refuri":
            n = nodes.target("", "", refuri="https://e.org/" + txt)
        elif kind == "desc":
            from docutils.nodes import Element

            class desc_signature(Element):
                pass
            n = desc_signature("", nodes.Text(txt))
        elif kind == "figure":
            n = nodes.figure("", nodes.image(uri="x.png"), nodes.caption("", "Cap " + txt))
        elif kind == "table":
            n = nodes.table("", nodes.title("", "Tab " + txt))
        elif kind == "rubric":
            n = nodes.rubric("", "Rub " + txt)
        elif kind == "rubric_empty":
            n = nodes.rubric("", "")
        elif kind == "deflist":
            n = nodes.definition_list("", nodes.definition_list_item("", nodes.term("", "Term " + txt),
                                                                     nodes.definition("", nodes.paragraph("", "d"))))
        elif kind == "dli":
            n = nodes.definition_list_item("", nodes.term("", "Term " + txt))
        elif kind == "fieldlist":
            n = nodes.field_list("", nodes.field("", nodes.field_name("", "Fn " + txt), nodes.field_body("", nodes.paragraph("", "b"))))
        elif kind == "field":
            n = nodes.field("", nodes.field_name("", "Fn " + txt))
        elif kind == "deflist_empty":
            n = nodes.definition_list()
        elif kind == "section":
            n = nodes.section("", nodes.title("", "Sec " + txt))
        elif kind == "section_empty":
            n = nodes.section("", nodes.title("", ""))
        elif kind == "implicit":
            n = nodes.paragraph("", txt)
        else:  # noneid: explicit name whose id was invalidated by a duplicate
            n = nodes.paragraph("", txt)
        n["names"].append(nm)
        doc += n
        if kind == "implicit":
            doc.note_implicit_target(n, n)
        else:
            doc.note_explicit_target(n, n)
    if case["slugs"]:
        s = nodes.section("", nodes.title("", "S one"), ids=["s1-id"])
        doc += s
        doc.myst_slugs = {"s1": (3, "s1-id", "S one"), "a": (4, "s1-id", ""), "b": (5, "s1-id", "B title")}
    p = nodes.paragraph()
    doc += p
    for k, l in enumerate(case["links"]):
        r = nodes.reference("", "", id_link=True, refuri="#" + l["frag"])
        r.line = 10 + k
        if l["text"]:
            r += nodes.Text(f"x{k}")
        p += r
    return doc, ws


def observe_synthetic(case):
    from lib.impl import parse_warnings
    from myst_parser.mdit_to_docutils import transforms as T
    install_observer()
    _OBS.clear()
    doc, ws = build_synthetic(case)
    try:
        T.ResolveAnchorIds(doc).apply()
    except Exception:
        pass
    obs = _OBS.get("last")
    if obs is None:
        return {"exc": None, "obs": None, "err": _OBS.get("error")}
    return {"exc": None, "obs": obs, "suppressed": case["suppress"],
            "wlines": sorted((w["line"] or 0) for w in parse_warnings(obs["warn_delta"]) if w["tag"] == "myst.xref_missing"),
            "w_other": []}


def _observe_any(case):
    try:
        if case["kind"] == "synthetic":
            return observe_synthetic(case)
        return observe(case)
    except Exception as e:  # pragma: no cover
        return {"exc": "harness:" + repr(e), "obs": None}


def pmap(fn, items, chunksize=8):
    if len(items) < 64:
        return [fn(x) for x in items]
    import multiprocessing as mp
    with ProcessPoolExecutor(max_workers=min(16, os.cpu_count() or 4), mp_context=mp.get_context("fork")) as ex:
        return list(ex.map(fn, items, chunksize=chunksize))


def gen_cases(ctx, n):
    from gen.c09_docs import gen_case
    cases = []
    for i in range(n):
        c = gen_case(ctx.rng)
        if i % 7 == 3:
            c["settings"]["myst_suppress_warnings"] = ["myst.xref_missing"]
        cases.append(c)
    return cases


FIXED_DOCS = [
    # (text, settings) hand-picked shapes; the first is the empty-title slug case
    ("# ![a](b.png)\n\n## x\n\n[](#) [t](#)\n", {"myst_heading_anchors": 2}),
    ("para\n\n#\n\nhm text\n\n[](#) and [](#-1)\n\n#\n", {"myst_heading_anchors": 1}),
    ("(t)=\n# Test\n\n[](#t) <project:#t> [e](#t) [](#test) [](#T)\n", {"myst_heading_anchors": 1}),
    ("# Test\n\n(test)=\n## Other\n\n[](#test)\n", {"myst_heading_anchors": 1}),
    ("[](#test)\n<project:#test>\n[explicit](#test)\n[](<#name with spaces>)\n", {}),
    ("(a)=\n(b)=\npara\n\n[](#a) [](#b)\n", {}),
    ("(dup)=\np1\n\n(dup)=\np2\n\n# Dup\n\n[](#dup)\n", {"myst_heading_anchors": 1}),
    ("line one\nline two [](#nope)\n", {}),
    ("[^a]: foot\n\nx[^a] [](#a)\n", {}),
    ("[text](https://e.org){#Ext}\n\n[](#ext)\n", {"myst_enable_extensions": ["attrs_inline"]}),
]


def corr(ctx):
    if not ctx.have_runner:
        return
    cases = [{"kind": "doc", "text": t, "settings": dict(s), "links": []} for t, s in FIXED_DOCS]
    cases += gen_cases(ctx, ctx.budget(6000, 60000, 60000))
    cases += synthetic_cases(ctx.rng, ctx.budget(3000, 30000, 30000))
    results = pmap(_observe_any, cases)
    lines, idx = [], []
    for i, (c, r) in enumerate(zip(cases, results)):
        if r.get("obs") is None:
            ctx.corr_cases += 1
            if r.get("exc") and r.get("before_transform"):
                # the implementation raised before the transform ran: nothing to compare, the search judges it
                ctx.count("corr:impl-exception-before-transform")
                ctx.suspects.append(c)
                continue
            ctx.count("corr:no-observation")
            ctx.disagree("ResolveAnchorIds not observed", c, r.get("exc") or r.get("err"), None)
            continue
        lines.append(model_line(r["obs"], r["suppressed"]))
        idx.append(i)
    outs = model_run_parallel(PID, lines)
    for i, o in zip(idx, outs):
        c, r = cases[i], results[i]
        ctx.corr_cases += 1
        m = parse_model(o)
        d = compare(r, m)
        ctx.count("corr:" + c["kind"])
        if not isinstance(m, str):
            for a, mm in zip(r["obs"]["after"] or [], m):
                ctx.count("link:" + ("pending" if mm["pending"] else "missing" if mm["wlines"] or (mm["msg"] == 0 and r["suppressed"] and mm["refid"] is not None and False) else "hit"))
            if any(mm["wlines"] for mm in m) and any(not mm["wlines"] for mm in m):
                ctx.nontriv(("c", i))
        else:
            ctx.count("corr:exception:" + m)
        if d is not None and len(ctx.disagreements) < 40:
            ctx.disagree("ResolveAnchorIds.apply: " + d, c, r["obs"]["after"] if r["obs"] else None, m)
    if cases:
        ctx.sample({"text": cases[len(FIXED_DOCS)]["text"], "settings": cases[len(FIXED_DOCS)]["settings"]})
    ctx.oracle_tests["O_registries"] = len(idx)
    corr_sphinx(ctx)


def observe_sphinx(case):
    """the same observation with the transform running inside a Sphinx build (one-document project)"""
    from lib.impl import SphinxProject
    install_observer()
    _OBS.clear()
    ha = case["settings"].get("myst_heading_anchors", 0)
    conf = (f"myst_enable_extensions = ['attrs_block', 'attrs_inline', 'deflist', 'fieldlist']\nmyst_heading_anchors = {ha}\n"
            "myst_footnote_sort = False\n")
    # the observed document is built last (alphabetical order): 'zdoc'
    try:
        SphinxProject({"index.md": "# Index page\n\n```{toctree}\nzdoc\n```\n", "zdoc.md": case["text"]}, conf).build()
    except Exception as e:
        return {"exc": type(e).__name__, "obs": None, "before_transform": False}
    obs = _OBS.get("last")
    if obs is None or not obs.get("sphinx"):
        return {"exc": None, "obs": None, "err": _OBS.get("error") or "transform not observed under Sphinx"}
    return {"exc": None, "obs": obs, "suppressed": False, "wlines": [], "w_other": []}


def _observe_sphinx_safe(case):
    try:
        return observe_sphinx(case)
    except Exception as e:  # pragma: no cover
        return {"exc": "harness:" + repr(e), "obs": None}


def corr_sphinx(ctx):
    """ResolveAnchorIds under the Sphinx front end (pending_xref branch): model with sphinx = true"""
    from gen.c09_docs import gen_case
    cases = [{"kind": "doc", "text": t, "settings": dict(s), "links": []} for t, s in FIXED_DOCS[:7]]
    cases += [gen_case(ctx.rng) for _ in range(ctx.budget(10, 150, 150))]
    results = pmap(_observe_sphinx_safe, cases, chunksize=2) if len(cases) >= 64 else [_observe_sphinx_safe(c) for c in cases]
    lines, idx = [], []
    for i, (c, r) in enumerate(zip(cases, results)):
        if r.get("obs") is None:
            ctx.corr_cases += 1
            ctx.disagree("ResolveAnchorIds not observed under Sphinx", c, r.get("exc") or r.get("err"), None)
            continue
        lines.append(model_line(r["obs"], False))
        idx.append(i)
    outs = model_run_parallel(PID, lines)
    for i, o in zip(idx, outs):
        ctx.corr_cases += 1
        ctx.count("corr:sphinx")
        m = parse_model(o)
        d = compare(results[i], m)
        if not isinstance(m, str) and any(mm["pending"] for mm in m):
            ctx.count("corr:sphinx:pending", sum(1 for mm in m if mm["pending"]))
        if d is not None and len(ctx.disagreements) < 40:
            ctx.disagree("ResolveAnchorIds.apply (Sphinx): " + d, cases[i], results[i]["obs"]["after"], m)


# ------------------------------------------------------------------ direct property oracle

def _first_para_text(el):
    from docutils import nodes
    for c in el.children:
        if isinstance(c, nodes.paragraph):
            return c.astext()
    return ""


def _next_para_text(el):
    from docutils import nodes
    sib = el.parent.children
    i = sib.index(el)
    for c in sib[i + 1:]:
        if isinstance(c, nodes.paragraph):
            return c.astext()
    return ""


def exc_signature(e):
    """exception:<type>:<module.function that raised>"""
    import os
    import traceback
    tb = traceback.extract_tb(e.__traceback__)
    site = "?"
    if tb:
        site = os.path.basename(tb[-1].filename).rsplit(".", 1)[0] + "." + tb[-1].name
    return f"exception:{type(e).__name__}:{site}"


def check_doc(ctx, case):
    """The property clauses evaluated on the published doctree, using only the generator's knowledge."""
    from docutils import nodes
    from lib.impl import publish, parse_warnings
    settings = dict(case["settings"])
    try:
        doc, ws = publish(case["text"], settings)
    except Exception as e:
        ctx.fail(exc_signature(e), case, f"publishing raised {e!r}", expected="a doctree", observed=repr(e))
        return False
    suppressed = "myst.xref_missing" in (settings.get("myst_suppress_warnings") or [])
    refs = [r for r in doc.findall(nodes.reference) if r.get("id_link")]
    links = case["links"]
    if len(refs) != len(links):
        ctx.fail("refs:count", case, f"{len(links)} '#'-links written, {len(refs)} id_link references in the doctree",
                 expected=len(links), observed=len(refs))
        return False
    ok = True
    exp_warn = []
    for i, (l, r) in enumerate(zip(links, refs)):
        e = l["expect"]
        visible = "".join(c.astext() for c in r.children if not isinstance(c, nodes.system_message))
        nmsg = sum(isinstance(c, nodes.system_message) for c in r.children)
        if l["form"] == "text" and visible != l["text"]:
            ctx.fail("text:explicit-changed", case, f"link {i} {l['src']}: explicit text became {visible!r}", l["text"], visible)
            ok = False
        if e["hit"] == "missing":
            exp_warn.append(l["line"])
            if l["form"] != "text" and visible != "#" + l["frag"]:
                # an empty link must show something: '#name' (the code intends it, but see the open finding)
                sig = "text:missing-empty-not-filled" if visible == "" and not suppressed else "text:missing"
                ctx.fail(sig, case, f"link {i} {l['src']}: empty link to a missing target shows {visible!r}", "#" + l["frag"], visible)
                ok = False
            if not suppressed and nmsg != 1:
                ctx.fail("warn:missing-node-count", case, f"link {i} {l['src']}: {nmsg} system messages attached", 1, nmsg)
                ok = False
            continue
        if nmsg:
            ctx.fail("warn:on-hit", case, f"link {i} {l['src']}: resolvable link carries a system message", 0, nmsg)
            ok = False
        rid = r.get("refid")
        els = [el for el in doc.findall(nodes.Element) if rid is not None and rid in el.get("ids", [])]
        if len(els) != 1:
            ctx.fail("hit:" + e["hit"] + ":unresolved", case,
                     f"link {i} {l['src']}: refid {rid!r} names {len(els)} nodes (should hit {e['kind']} {e['marker']})",
                     e, {"refid": rid, "n": len(els)})
            ok = False
            continue
        el = els[0]
        good = True
        if e["kind"] == "heading":
            if el.tagname in ("section", "document"):
                good = _first_para_text(el).startswith(e["marker"])
            elif el.tagname in ("rubric", "subtitle", "title"):
                good = _next_para_text(el).startswith(e["marker"])
            else:
                good = False
        elif e["kind"] == "target":
            good = el.tagname == "target"
        elif e["kind"] == "admonition":
            good = el.tagname == "admonition" and e["marker"] in el.astext()
        else:
            good = el.tagname == e["kind"] and e["marker"] in el.astext()
        if not good:
            ctx.fail("hit:" + e["hit"] + ":wrong-node", case,
                     f"link {i} {l['src']}: resolved to <{el.tagname}> {el.astext()[:40]!r}, intended {e['kind']} {e['marker']}",
                     e, {"tag": el.tagname, "text": el.astext()[:60]})
            ok = False
        if l["form"] != "text":
            want = e["title"] if e["title"] else "#" + l["frag"]
            if visible != want:
                sig = "implicit-text:" + e["hit"] + (":empty-title" if not e["title"] else "")
                ctx.fail(sig, case, f"link {i} {l['src']}: empty link text shows {visible!r}, expected {want!r}", want, visible)
                ok = False
    got = sorted((w["line"] or 0) for w in parse_warnings(ws) if w["tag"] == "myst.xref_missing")
    want = [] if suppressed else sorted(exp_warn)
    if got != want:
        sig = "warn:count" if len(got) != len(want) else "warn:line"
        ctx.fail(sig, case, f"myst.xref_missing warnings at lines {got}, expected exactly {want}", want, got)
        ok = False
    return ok


def check_case(ctx, case):
    if case.get("kind") == "sphinx-doc":
        return check_doc_sphinx(ctx, case)
    if case.get("kind") == "sphinx-project":
        n = len(ctx.failures)
        check_sphinx_fallthrough(ctx)
        return len(ctx.failures) == n
    if case.get("kind") == "synthetic":
        return True     # registry-level states have no generator-known intent; covered by the correspondence
    if not case.get("links"):
        # a bare document (hand-written witness): it must at least be processed without raising
        from lib.impl import publish
        try:
            publish(case["text"], dict(case.get("settings") or {}))
        except Exception as e:
            ctx.fail(exc_signature(e), case, f"publishing raised {e!r}", expected="a doctree", observed=repr(e))
            return False
        return True
    return check_doc(ctx, case)


def _check_worker(case):
    from lib.common import Ctx
    c = Ctx(PID, "quick", 0)
    try:
        check_case(c, case)
    except Exception as e:  # pragma: no cover
        c.fail("harness:" + type(e).__name__, case, repr(e))
    return c.failures


KNOWN_EMPTY_MISSING = {"kind": "doc", "text": "Intro.\n\n[](#nothing)\n", "settings": {},
                       "links": [{"frag": "nothing", "form": "empty", "text": None, "src": "[](#nothing)", "line": 3,
                                  "place": "para", "expect": {"hit": "missing"}}]}


def search(ctx):
    ctx.search_cases += 1
    check_case(ctx, KNOWN_EMPTY_MISSING)       # open finding, reproduced on every run
    for c in ctx.suspects[:100]:
        if c:
            ctx.search_cases += 1
            check_case(ctx, c)
    from gen.c09_docs import gen_case
    cases = []
    n = ctx.budget(8000, 100000, 40000)
    for i in range(n):
        c = gen_case(ctx.rng, want_empty_title=True if i % 10 == 0 else None)
        if i % 9 == 4:
            c["settings"]["myst_suppress_warnings"] = ["myst.xref_missing"]
        cases.append(c)
    per_sig = {}
    for c, fails in zip(cases, pmap(_check_worker, cases)):
        ctx.search_cases += 1
        for l in c["links"]:
            ctx.count("search:" + l["expect"]["hit"] + ":" + l["form"])
        if any(l["expect"]["hit"] == "explicit" and l["frag"] in ("alpha", "beta-two", "gamma", "tgt") for l in c["links"]):
            ctx.nontriv(("shadow", len(ctx.nontrivial)))
        for f in fails:
            per_sig[f["signature"]] = per_sig.get(f["signature"], 0) + 1
            if per_sig[f["signature"]] <= 3:
                ctx.failures.append(f)
    if cases:
        ctx.sample({"search_doc": cases[0]["text"], "links": [(l["src"], l["expect"]) for l in cases[0]["links"]]})
    if ctx.tier == "thorough" or ctx.deep:
        search_sphinx(ctx)
    else:
        check_sphinx_fallthrough(ctx)      # one small Sphinx project also in the quick tier


def check_doc_sphinx(ctx, case):
    """The same clauses on a one-document Sphinx project (missing links go through pending_xref and
    MystReferenceResolver).  Sphinx's project-wide resolver lower-cases labels, so case variants and
    invalidated duplicate names may legitimately resolve there: only links that must hit and links
    that cannot exist anywhere are judged."""
    import re
    from docutils import nodes
    from lib.impl import SphinxProject
    ha = case["settings"]["myst_heading_anchors"]
    conf = (f"myst_enable_extensions = ['attrs_block', 'attrs_inline', 'deflist', 'fieldlist']\nmyst_heading_anchors = {ha}\n"
            "myst_footnote_sort = False\n")
    wit = {"kind": "sphinx-doc", "text": case["text"], "settings": case["settings"], "links": case["links"],
           "dup_names": case.get("dup_names", [])}
    try:
        # a titled index keeps Sphinx's search indexer away from a project whose only title is empty
        res = SphinxProject({"index.md": "# Index page\n\n```{toctree}\ndoc\n```\n", "doc.md": case["text"]}, conf).build()
    except Exception as e:
        ctx.fail("sphinx:" + exc_signature(e), wit, f"Sphinx build raised {e!r}")
        return False
    doc = res["doctrees"].get("doc")
    if not hasattr(doc, "findall"):
        ctx.fail("sphinx:no-doctree", wit, f"no doctree: {doc!r}")
        return False
    warns = re.sub("\x1b\\[[0-9;]*m", "", res["warnings"])
    wl = sorted(int(m.group(1) or 0) for m in re.finditer(r"doc\.md:(\d*):? WARNING: [^\n]*\[myst\.xref_missing\]", warns))
    links = case["links"]
    # the external links that carry generated id attributes are targets, not '#'-links
    refs = [r for r in doc.findall(nodes.reference) if not str(r.get("refuri", "")).startswith("https://example.org/")]
    ok = True
    if len(refs) != len(links):
        ctx.fail("sphinx:refs:count", wit, f"{len(links)} '#'-links written, {len(refs)} references in the resolved doctree",
                 len(links), len(refs))
        return False
    known = {l["frag"].lower() for l in links if l["expect"]["hit"] != "missing"} | set(case.get("dup_names", []))
    sure_missing, maybe = [], []
    for i, (l, r) in enumerate(zip(links, refs)):
        e = l["expect"]
        visible = r.astext()
        if l["form"] == "text" and visible != l["text"]:
            ctx.fail("sphinx:text:explicit-changed", wit, f"link {i} {l['src']}: explicit text became {visible!r}", l["text"], visible)
            ok = False
        if e["hit"] == "missing":
            amb = " ".join(l["frag"].lower().split()) in known or any(
                " ".join(l["frag"].lower().split()) == " ".join(n.lower().split()) for n in _all_names(case))
            (maybe if amb else sure_missing).append(l["line"])
            if not amb and l["form"] != "text" and visible not in ("", "#" + l["frag"], l["frag"]):
                ctx.fail("sphinx:text:missing", wit, f"link {i} {l['src']}: missing target shows {visible!r}", l["frag"], visible)
                ok = False
            continue
        rid = r.get("refid")
        els = [el for el in doc.findall(nodes.Element) if rid is not None and rid in el.get("ids", [])]
        if len(els) != 1:
            ctx.fail("sphinx:hit:" + e["hit"] + ":unresolved", wit,
                     f"link {i} {l['src']}: refid {rid!r} names {len(els)} nodes (should hit {e['kind']} {e['marker']})")
            ok = False
            continue
        el = els[0]
        if e["kind"] == "heading":
            good = (_first_para_text(el).startswith(e["marker"]) if el.tagname in ("section", "document")
                    else _next_para_text(el).startswith(e["marker"]) if el.tagname in ("rubric", "subtitle", "title") else False)
        elif e["kind"] == "target":
            good = el.tagname == "target"
        else:
            good = el.tagname == e["kind"] and e["marker"] in el.astext()
        if not good:
            ctx.fail("sphinx:hit:" + e["hit"] + ":wrong-node", wit,
                     f"link {i} {l['src']}: resolved to <{el.tagname}> {el.astext()[:40]!r}, intended {e['kind']} {e['marker']}")
            ok = False
        if l["form"] != "text":
            want = e["title"] if e["title"] else "#" + l["frag"]
            if visible != want:
                ctx.fail("sphinx:implicit-text:" + e["hit"], wit, f"link {i} {l['src']}: empty link text shows {visible!r}, expected {want!r}", want, visible)
                ok = False
    rest = list(wl)
    for x in sure_missing:
        if x in rest:
            rest.remove(x)
        else:
            ctx.fail("sphinx:warn:line", wit, f"Sphinx: no xref_missing warning at line {x} of a missing link (warnings at {wl})",
                     sorted(sure_missing), wl)
            ok = False
            break
    else:
        pool = list(maybe)
        for x in rest:
            if x in pool:
                pool.remove(x)
            else:
                ctx.fail("sphinx:warn:count", wit, f"Sphinx: unexpected xref_missing warning at line {x} (warnings {wl}, missing links at {sorted(sure_missing)}, ambiguous at {sorted(maybe)})",
                         sorted(sure_missing), wl)
                ok = False
                break
    return ok


def _all_names(case):
    import re
    out = set(re.findall(r"^(?:> )?\(([^)]*)\)=$", case["text"], re.M))
    out |= set(re.findall(r"\{#([^} ]+)\}", case["text"]))
    out |= set(re.findall(r"^:name: (.*)$", case["text"], re.M))
    return out


def _sphinx_worker(case):
    from lib.common import Ctx
    c = Ctx(PID, "quick", 0)
    try:
        check_doc_sphinx(c, case)
    except Exception as e:  # pragma: no cover
        c.fail("harness:" + type(e).__name__, case, repr(e))
    return c.failures


def check_sphinx_fallthrough(ctx):
    """'#x' that the document cannot resolve falls through to the project: a label of another document
    resolves silently, a name nobody defines gives exactly one warning at the link's line (also in a table)."""
    import re
    from docutils import nodes
    from lib.impl import SphinxProject
    files = {"index.md": "# Index page\n\n```{toctree}\ndoc\nother\n```\n",
             "doc.md": "# Doc\n\n[](#other-tgt) [t](#other-tgt)\n\n| h |\n|---|\n| [](#nowhere) |\n\n[u](#Other-Tgt)\n",
             "other.md": "(other-tgt)=\n# Other title\n\ntext\n"}
    wit = {"kind": "sphinx-project", "files": files}
    ctx.search_cases += 1
    try:
        res = SphinxProject(files, "").build()
    except Exception as e:
        ctx.fail("sphinx:" + exc_signature(e), wit, f"Sphinx build raised {e!r}")
        return
    warns = re.sub("\x1b\\[[0-9;]*m", "", res["warnings"])
    wl = [(m.group(1), m.group(2)) for m in re.finditer(r"doc\.md:(\d*):? WARNING: ([^\n]*)\[myst\.xref_missing\]", warns)]
    doc = res["doctrees"]["doc"]
    refs = list(doc.findall(nodes.reference))
    obs = {"warnings": wl, "refs": [(r.get("refuri") or r.get("refid"), r.astext()) for r in refs]}
    want_refs = [("other.html#other-tgt", "Other title"), ("other.html#other-tgt", "t"), ("nowhere", "nowhere"),
                 ("other.html#other-tgt", "u")]
    if [w[0] for w in wl] != ["7"] or obs["refs"] != want_refs:
        ctx.fail("sphinx:fallthrough", wit,
                 f"project-wide fallthrough: warnings {wl}, references {obs['refs']}; expected one warning at line 7 and {want_refs}",
                 {"warning_lines": ["7"], "refs": want_refs}, obs)


def search_sphinx(ctx):
    from gen.c09_docs import gen_case
    check_sphinx_fallthrough(ctx)
    n = ctx.budget(0, 400, 400)
    cases = [gen_case(ctx.rng) for _ in range(n)]
    per_sig = {}
    for c, fails in zip(cases, pmap(_sphinx_worker, cases, chunksize=4)):
        ctx.search_cases += 1
        ctx.count("search:sphinx-doc")
        for f in fails:
            per_sig[f["signature"]] = per_sig.get(f["signature"], 0) + 1
            if per_sig[f["signature"]] <= 3:
                ctx.failures.append(f)


def replay(ctx, data):
    w = data.get("witness")
    if not w:
        print("replay file names no concrete input:", data.get("no_longer_checks"))
        return 1
    ok = check_case(ctx, w)
    print("replay:", "property holds on this input" if ok else ctx.failures[-1])
    return 0 if ok else 1
