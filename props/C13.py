"""C13 - config is validated and normalised; overrides behave the same at every level."""
from __future__ import annotations

import copy as _copy
import json

from gen import c13_values as V
from lib.common import model_run_parallel, src_hashes

PID = "C13"
RULE = ("correspondence: every MdParserConfig field x (fixed universe of values of every JSON/YAML type incl. tuple/set/"
        "callable spellings, wrong types, nested wrong types + grammar-generated values) through the constructor, "
        "dc.replace/copy on a non-default base, merge_file_level and the real docutils OptionParser, extracted Coq model vs "
        "implementation, relation = canonicalised as_dict() (list==tuple, sets as sets, callables by qualified name) / "
        "error class / number of topmatter warnings; search: independent documented-type predicate vs acceptance, "
        "canonical stored form, front-matter vs global doctree equality on generated documents, global config unchanged, "
        "one myst.topmatter warning per invalid value; non-trivial = value is not of the documented type, or is coerced, "
        "or is a dict merged over a non-empty global value")
TRUSTED = ["coq/Cfg/Cfg.v is a hand transcription of dc_validators.py, the custom validators, MdParserConfig.__post_init__/copy, "
           "merge_file_level and the docutils option decoding (checked by correspondence, not proved)",
           "coq/Gen/Config.v is regenerated from config/main.py on every run by gen/c13_config.py (fail-closed ast translator)",
           "Python dict invariants (unique keys) - the model iterates (key, value) pairs",
           "floats are abstracted to (integral part, has-fraction flag)"]
ORACLES = {"O_yaml": "yaml.safe_load of a docutils option string: the parsed value is passed to the model next to the string "
                     "(correspondence 'docutils' cases exercise it on the real PyYAML)",
           "O_import": "importlib.import_module/getattr for heading_slug_func strings: a fixed table of import strings "
                       "(callable / non-callable / missing attribute / missing module / no dot) is given to the model and "
                       "exercised against the real interpreter in every run",
           "O_optparse": "docutils.frontend.OptionParser calls the per-option validator once on the option string "
                         "(checked by the 'docutils' correspondence cases through the real OptionParser)"}
ASSUMPTIONS = ["JSON/YAML typing: a bool is not an int, 2.0 is not an int; list and tuple are one sequence type",
               "docutils halt_level/report_level at their harness defaults"]


# ------------------------------------------------------------------ witness (de)serialisation

def ser(v):
    if v is None or type(v) in (bool, int, str):
        return v
    if type(v) is float:
        return {"t": "float", "v": repr(v)}
    if type(v) is list:
        return [ser(x) for x in v]
    if type(v) is tuple:
        return {"t": "tuple", "v": [ser(x) for x in v]}
    if type(v) in (set, frozenset):
        return {"t": "set", "v": [ser(x) for x in sorted(v, key=lambda x: json.dumps(V.canon(x), sort_keys=True))]}
    if type(v) is dict:
        return {"t": "dict", "v": [[ser(k), ser(x)] for k, x in v.items()]}
    if callable(v):
        return {"t": "callable"}
    return {"t": "repr", "v": repr(v)}


def deser(w):
    if isinstance(w, list):
        return [deser(x) for x in w]
    if isinstance(w, dict):
        t = w["t"]
        if t == "float":
            return float(w["v"])
        if t == "tuple":
            return tuple(deser(x) for x in w["v"])
        if t == "set":
            return set(deser(x) for x in w["v"])
        if t == "dict":
            return {deser(k): deser(x) for k, x in w["v"]}
        if t == "callable":
            return V._fn
        raise ValueError(t)
    return w


def jtype(v):
    return type(v).__name__


# ------------------------------------------------------------------ direct oracle: one (field, value)

def _snapshot(cfg):
    return {k: (id(x), V.canon(x)) for k, x in cfg.__dict__.items()}


def _base_cfg():
    """A non-default global configuration (so that merging / copying is observable)."""
    from myst_parser.config.main import MdParserConfig
    return MdParserConfig(enable_extensions=["deflist", "tasklist"], html_meta={"description": "g", "keywords": "gk"},
                          substitutions={"a": "ga", "g": 1}, url_schemes={"http": None, "x": "https://x/{{path}}"},
                          heading_anchors=1, fence_as_directive=["mermaid"], disable_syntax=["table"])


def check_value(ctx, case):
    """accepted iff documented type; canonical form; same at every entry point; invalid front matter
    ignored with exactly one topmatter warning; global config untouched."""
    from myst_parser.config.main import MdParserConfig, merge_file_level
    from myst_parser.warnings_ import MystWarnings
    f, v = case["field"], deser(case["value"])
    want_ok = V.doc_type_ok(f, v)
    ok = True

    def bad(sig, what, expected=None, observed=None):
        nonlocal ok
        ok = False
        ctx.fail(sig, case, what, expected, observed)

    # E1 constructor
    try:
        c1 = MdParserConfig(**{f: _copy.deepcopy(v)})
        r1 = ("ok", V.canon(getattr(c1, f)))
    except (TypeError, ValueError) as e:
        r1 = ("rejected", type(e).__name__)
    except Exception as e:  # neither TypeError nor ValueError: the Sphinx front end does not catch it
        r1 = ("exception", type(e).__name__)
    if r1[0] == "exception":
        bad(f"exception:{r1[1]}:{f}", f"MdParserConfig({f}={v!r}) raised {r1[1]} (front ends catch TypeError/ValueError only)",
            "TypeError or ValueError", r1[1])
    elif want_ok and r1[0] != "ok":
        bad(f"reject-documented:{f}", f"MdParserConfig({f}={v!r}) rejected although the value has the documented type", "accepted", r1)
    elif not want_ok and r1[0] == "ok":
        bad(f"accept-undocumented:{f}:{jtype(v)}", f"MdParserConfig({f}={v!r}) accepted although outside the documented type",
            "rejected", r1)
    if want_ok and r1[0] == "ok":
        exp = V.canon(V.doc_canonical(f, v))
        if r1[1] != exp:
            bad(f"canonical:{f}:constructor", f"{f}={v!r} stored in a non-canonical form", exp, r1[1])

    # E2 copy on a non-default base; E3 front matter on the same base
    base = _base_cfg()
    snap = _snapshot(base)
    try:
        c2 = base.copy(**{f: _copy.deepcopy(v)})
        r2 = ("ok", V.canon_cfg(c2))
    except (TypeError, ValueError) as e:
        r2 = ("rejected", type(e).__name__)
    except Exception as e:
        r2 = ("exception", type(e).__name__)
    if (r2[0] == "ok") != (r1[0] == "ok"):
        bad(f"entrypoints-differ:{f}:copy", f"copy({f}={v!r}) and the constructor disagree on acceptance", r1[0], r2[0])
    ws = []
    try:
        c3 = merge_file_level(base, {"myst": {f: _copy.deepcopy(v)}}, lambda t, m: ws.append((t, m)))
        r3 = V.canon_cfg(c3)
    except Exception as e:
        bad(f"exception:{type(e).__name__}:merge_file_level:{f}", f"merge_file_level with myst.{f}={v!r} raised {e!r}")
        r3 = None
    if _snapshot(base) != snap:
        bad(f"global-modified:{f}", f"the global config object changed while merging front matter myst.{f}={v!r}",
            {k: x[1] for k, x in snap.items()}, {k: x[1] for k, x in _snapshot(base).items()})
    if r3 is not None:
        if r1[0] == "ok":
            # valid value: no warning, same effect as the global setting (dict options merged over the global value)
            if ws:
                bad(f"warning-count:{f}:valid", f"valid front matter myst.{f}={v!r} produced warnings", [], [m for _, m in ws])
            if f in V.MERGE_FIELDS and isinstance(v, dict):
                glob = base.copy(**{f: {**getattr(base, f), **_copy.deepcopy(v)}})
            else:
                glob = c2 if r2[0] == "ok" else None
            if glob is not None and V.canon_cfg(glob) != r3:
                d = {k: (V.canon_cfg(glob)[k], r3[k]) for k in r3 if V.canon_cfg(glob)[k] != r3[k]}
                bad(f"frontmatter-neq-global:{f}", f"front matter myst.{f}={v!r} gives a different configuration than the same "
                    "value set globally", {k: a for k, (a, b) in d.items()}, {k: b for k, (a, b) in d.items()})
        else:
            if len(ws) != 1 or ws[0][0] is not MystWarnings.MD_TOPMATTER:
                bad(f"warning-count:{f}:invalid", f"invalid front matter myst.{f}={v!r}: expected exactly one topmatter warning",
                    1, [(str(t), m) for t, m in ws])
            if r3 != V.canon_cfg(base):
                d = {k: r3[k] for k in r3 if V.canon_cfg(base)[k] != r3[k]}
                bad(f"invalid-not-ignored:{f}", f"invalid front matter myst.{f}={v!r} changed the configuration", {}, d)
    return ok


# ------------------------------------------------------------------ docutils option strings

def docutils_parse(field, s):
    """Through the real docutils option parser -> settings -> create_myst_config."""
    import io
    import contextlib
    import warnings
    from docutils.frontend import OptionParser
    from myst_parser.parsers.docutils_ import Parser, create_myst_config
    with warnings.catch_warnings():
        warnings.simplefilter("ignore")
        op = OptionParser(components=(Parser,), read_config_files=False)
    err = io.StringIO()
    try:
        with contextlib.redirect_stderr(err), warnings.catch_warnings():
            warnings.simplefilter("ignore")
            settings = op.parse_args(["--myst-" + field.replace("_", "-") + "=" + s])
    except SystemExit:
        return ("optparse-error", None)
    try:
        cfg = create_myst_config(settings)
    except (TypeError, ValueError) as e:
        return ("rejected", type(e).__name__)
    return ("ok", cfg)


def spell(field, v):
    """Docutils option-string spellings of a (valid) value, [] if it has none."""
    if field in V.OMIT_DOCUTILS or field in ("heading_slug_func",) and not isinstance(v, str):
        return []
    if type(v) is bool:
        return ["true", "yes", "1", "on", " True "] if v else ["false", "no", "0", "off", ""]
    if type(v) is int:
        return [str(v), " %d " % v]
    if type(v) is str:
        return [v] if not v.startswith("-") else []
    if type(v) in (list, tuple, set):
        items = list(v)
        if not all(type(x) is str and x and x == x.strip(" \t\n") and "," not in x for x in items):
            return []
        if field == "url_schemes" and not items:
            return []
        out = [",".join(items), " , ".join(items) + ","]
        if field == "url_schemes":
            out = [o for o in out if _yaml_plain(o)] + [json.dumps({k: None for k in items})]
        return out
    if type(v) is dict and V.jsonable(v):
        return [json.dumps(v)]
    return []


def _yaml_plain(s):
    import yaml
    try:
        return isinstance(yaml.safe_load(s), str)
    except Exception:
        return False


def check_docutils(ctx, case):
    from myst_parser.config.main import MdParserConfig
    f, v = case["field"], deser(case["value"])
    ok = True
    for s in case.get("strings") or spell(f, v):
        r = docutils_parse(f, s)
        try:
            want = ("ok", V.canon_cfg(MdParserConfig(**{f: _copy.deepcopy(v)})))
        except (TypeError, ValueError) as e:
            want = ("rejected", None)
        got = ("ok", V.canon_cfg(r[1])) if r[0] == "ok" else ("rejected", None)
        if got != want:
            ok = False
            d = None
            if got[0] == want[0] == "ok":
                d = {k: (want[1][k], got[1][k]) for k in got[1] if got[1][k] != want[1][k]}
            ctx.fail(f"docutils-string:{f}", dict(case, strings=[s]),
                     f"--myst-{f.replace('_', '-')}={s!r} gives a different configuration than {f}={v!r}",
                     want[0] if d is None else {k: a for k, (a, b) in d.items()},
                     got[0] if d is None else {k: b for k, (a, b) in d.items()})
    return ok


# ------------------------------------------------------------------ effect equivalence on documents

SNIPPETS = [
    "# Title\n\n## Sub one\n\n### Deep\n\n[l1](#sub-one) [l2](#deep)\n",
    "<http://a.org> [b](https://b.org/x) [c](mailto:c@d.org) [d](ftp://e) [w](wiki:Page) [o](other:thing) [f](file.md)\n",
    "Term\n: Definition\n\n- [ ] todo\n- [x] done\n",
    "$a=1$ and $$b=2$$ (lab)\n\n$$\nc=3\n$$\n\n1$x$2 $ y $\n",
    "~~gone~~ \"quoted\" (c) +- --- ...\n",
    ":::{note}\ncolon\n:::\n\n```{note}\nback\n```\n",
    "```python\nx = 1\n```\n\n```mermaid\ngraph\n```\n\n```unknownlang\ny\n```\n",
    "foot[^a] note[^b]\n\n[^b]: second\n[^a]: first\n",
    "{{ a }} and {{ k }} [[ a ]] {{ wordcount-minutes }}\n",
    "| a | b |\n|---|---|\n| 1 | 2 |\n\n*emph* **strong** `code`\n",
    ":field: value\n:other: thing\n\n{#id .cls}\nattributed paragraph [span]{.x}\n",
    "<div class=\"admonition note\">\n<p>html adm</p>\n</div>\n\n<img src=\"a.png\" alt=\"x\">\n",
    "\\begin{equation}\na\n\\end{equation}\n",
    "> quote\n>\n> # heading in quote\n\n1. one\n2. two\n",
    "www.example.org and example.com/path\n",
]

# commonmark_only is left out: the strict CommonMark parser has no front-matter rule, so the block that
# carries the setting is itself rendered as document text and the two documents differ by construction.
FIELD_VALUES_FOR_DOCS = {
    "gfm_only": [True],
    "enable_extensions": [["deflist", "tasklist"], ["dollarmath", "amsmath"], ["strikethrough", "smartquotes", "replacements"],
                          ["colon_fence", "substitution", "fieldlist"], ["attrs_inline", "attrs_block", "html_image", "html_admonition"],
                          []],
    "disable_syntax": [["emphasis"], ["table", "link"], []],
    "all_links_external": [True], "links_external_new_tab": [True],
    "url_schemes": [["http"], ["mailto", "wiki"], {"wiki": "https://w.org/{{path}}"},
                    {"http": None, "other": {"url": "https://o.org/{{path}}#{{fragment}}", "title": "T {{netloc}}", "classes": ["k"]}}, []],
    "fence_as_directive": [["mermaid"], ["unknownlang", "python"], []],
    "number_code_blocks": [["python"], ["unknownlang"]],
    "title_to_header": [True],
    "heading_anchors": [0, 1, 2, 3, 7],
    "html_meta": [{"description": "d"}, {"keywords": "k2", "property=og:x": "y"}, {}],
    "footnote_sort": [False], "footnote_transition": [False],
    "words_per_minute": [1, 50],
    "substitutions": [{"a": "local *a*"}, {"k": 3, "a": "x"}, {}],
    "linkify_fuzzy_links": [False], "dmath_allow_labels": [False], "dmath_allow_space": [False],
    "dmath_allow_digits": [False], "dmath_double_inline": [True], "enable_checkboxes": [True],
    "highlight_code_blocks": [False],
}


def doc_pair(field, v, body, base):
    """(global settings, global text), (front matter text): same number of front-matter lines."""
    fm = "---\ntitle: T0\nmyst:\n  %s: %s\n---\n" % (field, json.dumps(v))
    gl = "---\ntitle: T0\nmyst: {}\n# pad\n---\n"
    return gl + body, fm + body


def check_doc(ctx, case):
    from lib.impl import publish
    f, v, body = case["field"], case["value"], case["body"]
    base = dict(case.get("base") or {})
    gtext, ftext = doc_pair(f, v, body, base)
    gset = {"myst_" + k: x for k, x in base.items()}
    fset = dict(gset)
    if f in V.MERGE_FIELDS and isinstance(v, dict) and isinstance(base.get(f), dict):
        gset["myst_" + f] = {**base[f], **v}
    else:
        gset["myst_" + f] = v
    try:
        d1, w1 = publish(gtext, gset)
        o1 = (d1.pformat(), w1)
    except Exception as e:
        o1 = ("!" + type(e).__name__, "")
    try:
        d2, w2 = publish(ftext, fset)
        o2 = (d2.pformat(), w2)
    except Exception as e:
        o2 = ("!" + type(e).__name__, "")
    if o1 != o2:
        import difflib
        diff = "\n".join(list(difflib.unified_diff(o1[0].splitlines(), o2[0].splitlines(), "global", "frontmatter", lineterm="", n=1))[:40])
        sig = f"effect:{f}" if not (o2[0].startswith("!") and not o1[0].startswith("!")) else f"exception:{o2[0][1:]}:frontmatter:{f}"
        ctx.fail(sig, case, f"document differs: myst.{f}={v!r} in front matter vs the same value as global setting",
                 (o1[1] + "\n" + diff)[:1500], o2[0][:200] if o2[0].startswith("!") else o2[1][:500])
        return False
    return True


def check_sphinx_doc(ctx, case):
    """Same comparison through the Sphinx front end (used for options the docutils settings omit)."""
    from lib.impl import SphinxProject
    f, v, body = case["field"], case["value"], case["body"]
    gtext, ftext = doc_pair(f, v, body, {})
    outs = []
    for text, conf in ((gtext, "myst_%s = %r\n" % (f, v)), (ftext, "")):
        try:
            r = SphinxProject({"index.md": text}, conf="myst_enable_extensions=['substitution']\n" + conf).build()
            outs.append((r["doctrees"]["index"].pformat().replace(r["src"], "<src>"), r["warnings"]))
        except Exception as e:
            outs.append(("!" + type(e).__name__, repr(e)[:300]))
    if outs[0] != outs[1]:
        ctx.fail(f"effect:{f}:sphinx", case, f"Sphinx: document differs for myst.{f}={v!r} front matter vs conf.py",
                 outs[0][0][:800] + outs[0][1][:300], outs[1][0][:800] + outs[1][1][:300])
        return False
    return True


def check_case(ctx, case):
    k = case["kind"]
    if k == "value":
        return check_value(ctx, case)
    if k == "docutils":
        return check_docutils(ctx, case)
    if k == "doc":
        return check_doc(ctx, case)
    if k == "sphinxdoc":
        return check_sphinx_doc(ctx, case)
    raise ValueError(k)


def field_names():
    import dataclasses as dc
    from myst_parser.config.main import MdParserConfig
    return [f.name for f in dc.fields(MdParserConfig)]


def value_cases(ctx, n_random):
    fields = field_names()
    base = V.base_values()
    for f in fields:
        for v in base:
            yield {"kind": "value", "field": f, "value": ser(v)}
    rng = ctx.rng
    for _ in range(n_random):
        f = rng.choice(fields)
        yield {"kind": "value", "field": f, "value": ser(V.rand_value(rng))}


def search(ctx):
    unknown = [f for f in field_names() if f not in V.DOC_FIELDS]
    if unknown:
        ctx.fail("undocumented-field", {"kind": "fields", "fields": unknown},
                 f"MdParserConfig has fields the documented-type oracle does not know: {unknown}")
    for c in ctx.suspects[:300]:
        if c:
            ctx.search_cases += 1
            check_case(ctx, c)
    for c in value_cases(ctx, ctx.budget(3000, 40000, 40000)):
        ctx.search_cases += 1
        v = deser(c["value"])
        good = c["field"] in V.DOC_FIELDS and V.doc_type_ok(c["field"], v)
        ctx.count("search:value:" + ("valid" if good else "invalid"))
        check_case(ctx, c)
        if good and (c["field"] not in V.OMIT_DOCUTILS) and ctx.rng.random() < ctx.budget(0.15, 0.5, 0.5):
            if spell(c["field"], v):
                ctx.search_cases += 1
                ctx.count("search:docutils-string")
                check_docutils(ctx, {"kind": "docutils", "field": c["field"], "value": c["value"]})
    # effect equivalence on generated documents
    rng = ctx.rng
    n_docs = ctx.budget(120, 1500, 1500)
    fields = sorted(FIELD_VALUES_FOR_DOCS)
    for i in range(n_docs):
        f = fields[i % len(fields)]
        v = rng.choice(FIELD_VALUES_FOR_DOCS[f])
        k = rng.randint(2, 5)
        body = "\n".join(rng.sample(SNIPPETS, k))
        base = {}
        if rng.random() < 0.5:
            base = rng.choice([{"enable_extensions": ["substitution", "deflist", "dollarmath", "strikethrough", "colon_fence", "tasklist"]},
                               {"html_meta": {"description": "g", "author": "me"}, "substitutions": {"a": "GA", "g": "GG"},
                                "enable_extensions": ["substitution"]},
                               {"heading_anchors": 2, "enable_extensions": ["fieldlist", "attrs_inline", "amsmath"]}])
            base = {k2: x for k2, x in base.items() if k2 != f or f in V.MERGE_FIELDS}
        case = {"kind": "doc", "field": f, "value": v, "body": body, "base": base}
        ctx.search_cases += 1
        ctx.count("search:doc")
        if i < 2:
            ctx.sample(case)
        check_doc(ctx, case)
    for f, v in [("sub_delimiters", ["[", "]"]), ("ref_domains", ["py"])][: ctx.budget(2, 2, 2)]:
        for body in (SNIPPETS[8] + "\n" + SNIPPETS[0], SNIPPETS[1])[: ctx.budget(1, 2, 2)]:
            ctx.search_cases += 1
            ctx.count("search:sphinxdoc")
            check_sphinx_doc(ctx, {"kind": "sphinxdoc", "field": f, "value": v, "body": body})


def replay(ctx, data):
    w = data.get("witness")
    if not w or "kind" not in w:
        print("replay file names no concrete input:", data.get("no_longer_checks"))
        return 1
    ok = check_case(ctx, w)
    print("replay:", "property holds on this input" if ok else ctx.failures[-1])
    return 0 if ok else 1
