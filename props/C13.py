"""C13 - config is validated and normalised; overrides behave the same at every level."""
from __future__ import annotations

import copy as _copy
import json
import re

from gen import c13_values as V
from lib.common import model_run_parallel, src_hashes

PID = "C13"



def gen(ctx):
    import hashlib
    from gen import c13_config as G
    from lib import common
    text, info = G.generate(common.REPO)
    common.write_if_changed(common.COQ / "Gen" / "Config.v", text)
    # round 3: validators and merge_file_level translated statement by statement
    from gen import c13_src
    src_text = c13_src.generate(common.REPO)
    common.write_if_changed(common.COQ / "Gen" / "ConfigSrc.v", src_text)
    ctx.gen_info["Gen/ConfigSrc.v"] = hashlib.sha256(src_text.encode()).hexdigest()[:16]
    # round 5: create_md_parser -> abstract parser description
    from gen import c13_mdit
    md_text, md_info = c13_mdit.generate(common.REPO)
    common.write_if_changed(common.COQ / "Gen" / "MdParserSrc.v", md_text)
    ctx.gen_info["Gen/MdParserSrc.v"] = hashlib.sha256(md_text.encode()).hexdigest()[:16]
    ctx.gen_info["extensions_tested_in_create_md_parser"] = md_info["tested"]
    ctx.gen_info["extensions_used_elsewhere"] = sorted({n for n, _ in md_info["others"]})
    ctx.gen_info.update({
        "sources": src_hashes(["myst_parser/config/main.py", "myst_parser/config/dc_validators.py",
                               "myst_parser/parsers/docutils_.py", "myst_parser/sphinx_ext/main.py"]),
        "Gen/Config.v": hashlib.sha256(text.encode()).hexdigest()[:16],
        "fields": len(info["fields"]), "known_extensions": len(info["known_extensions"]),
        "custom_validated_fields": [f["name"] for f in info["fields"] if f["val"].startswith("(VCustom")],
        "merge_topmatter_fields": [f["name"] for f in info["fields"] if f["merge"]],
        "global_only_fields": [f["name"] for f in info["fields"] if f["global_only"]],
        "optparse_rules": [r["src"] + " -> " + r["kind"] for r in info["optparse_rules"]],
        "combinators_used": {k: sum(1 for f in info["fields"] if re.search(r"\b%s\b" % re.escape(k), f["val_src"]))
                             for k in info["dc_validator_defs"] + info["customs"]},
    })
    ctx.gen_info["unused_validator_code"] = {
        "dc_validators.py / check_* never named by a field": [k for k, n in ctx.gen_info["combinators_used"].items() if n == 0],
    }
    ctx._c13_rules = [r["src"] for r in info["optparse_rules"]]


# ------------------------------------------------------------------ model side helpers

def import_table():
    """O_import: what each import string of V.IMPORTS denotes in this interpreter, for the model."""
    import importlib
    out = []
    for s in V.IMPORTS:
        if "." not in s:
            continue
        mod, fn = s.rsplit(".", 1)
        try:
            obj = getattr(importlib.import_module(mod), fn)
            c = V.canon(obj)
            k = ("c" if c[0] == "callable" else "o") + V._enc_s(c[1])
        except ImportError:
            k = "m"
        except AttributeError:
            k = "a"
        except ValueError:
            k = "v"
        out.append(V._enc_s(s) + "=" + k)
    return ";".join(out) if out else "."


def enc_kwargs(kw):
    return ";".join(V._enc_s(k) + "=" + V.enc_jv(v) for k, v in kw.items()) if kw else "."


def dec_cfg(reply):
    """'ok name=jv;...' -> {name: canonical value};  '!X' -> ('error', X)"""
    if reply.startswith("!"):
        return ("error", reply[1:])
    body = reply[3:]
    out = {}
    for part in body.split(";"):
        k, v = part.split("=", 1)
        out["".join(chr(int(x)) for x in k.split(","))] = V.dec_jv(v.split(" "))[0]
    return out


BASE_KW = dict(enable_extensions=["deflist", "tasklist"], html_meta={"description": "g", "keywords": "gk"},
               substitutions={"a": "ga", "g": 1}, url_schemes={"http": None, "x": "https://x/{{path}}"},
               heading_anchors=1, fence_as_directive=["mermaid"], disable_syntax=["table"])


def impl_result(fn):
    try:
        return V.canon_cfg(fn())
    except (TypeError, ValueError) as e:
        return ("error", type(e).__name__)
    except Exception as e:
        return ("error", "other:" + type(e).__name__)


def warn_kind(msg, fields):
    if msg.startswith("'myst' key not a dict"):
        return "N"
    if msg.startswith("top-level 'html_meta'"):
        return "H"
    if msg.startswith("top-level 'substitutions'"):
        return "B"
    if msg.startswith("Unknown field: "):
        return "U"
    return "V"


def rand_topmatter(rng, fields):
    """Front matter with several keys: valid/invalid values, unknown keys, deprecated top-level keys."""
    base = V.base_values()
    top = {}
    r = rng.random()
    if r < 0.1:
        top["myst"] = rng.choice([1, "x", None, ["a"], True])
    else:
        myst = {}
        for _ in range(rng.randint(0, 4)):
            if rng.random() < 0.15:
                key = rng.choice(["nope", "Heading_anchors", "", 1, None, "myst"])
            else:
                key = rng.choice(fields)
            v = rng.choice(base) if rng.random() < 0.5 else V.rand_value(rng)
            if callable(v) or not _plain(v):
                continue
            myst[key] = v
        if myst or rng.random() < 0.5:
            top["myst"] = myst
    if rng.random() < 0.2:
        top["html_meta"] = rng.choice([{"a": "b"}, {"description": "top"}, 1, {"a": 1}, {}])
    if rng.random() < 0.2:
        top["substitutions"] = rng.choice([{"a": "T"}, {"z": [1]}, "x", {1: 2}])
    if rng.random() < 0.3:
        top["title"] = "t"
    return top


def _plain(v):
    """values that may sit in parsed YAML front matter (no tuple/set/callable at any depth)"""
    if v is None or type(v) in (bool, int, float, str):
        return True
    if type(v) is list:
        return all(_plain(x) for x in v)
    if type(v) is dict:
        return all(_plain(k) and not isinstance(k, (list, dict)) and _plain(x) for k, x in v.items())
    return False


# ------------------------------------------------------------------ create_md_parser: real call trace

def md_trace(cfg, has_linkify):
    """Run the real create_md_parser with a recording stand-in for MarkdownIt; returns the description in the
    driver's text format: preset | steps | options."""
    import myst_parser.parsers.mdit as M

    def show(v):
        return V.enc_jv("config" and _Opaque()) if v is cfg else V.enc_jv(v)

    class _Opaque:
        __name__ = "config"

    def opts(d):
        return ",".join(V._enc_s(k) + "=" + (("O" + V._enc_s("config")) if v is cfg else V.enc_jv(v)) for k, v in d)

    rec = {"preset": None, "steps": [], "options": []}

    class Options(dict):
        def update(self, d):
            rec["options"] += list(d.items())
            super().update(d)

    class Linkify:
        def set(self, d):
            rec["steps"].append("linkify.set(" + opts(list(d.items())) + ")")

    class FakeMd:
        def __init__(self, preset, renderer_cls=None):
            rec["preset"] = preset
            self.options = Options()
            self.linkify = Linkify() if has_linkify else None

        def enable(self, name, ignoreInvalid=False):
            rec["steps"].append("enable(" + V._enc_s(name) + ")")
            return self

        def disable(self, name, ignoreInvalid=False):
            rec["steps"].append("disable(" + V.enc_jv(name) + ")")
            return self

        def use(self, plugin, *a, **k):
            o = ([("*", tuple(a) if len(a) != 1 else a[0])] if a else []) + list(k.items())
            if a:
                o = [("*", getattr(cfg, "sub_delimiters"))] + list(k.items())
            rec["steps"].append("use(" + V._enc_s(plugin.__name__) + ":" + opts(o) + ")")
            return self

    orig = M.MarkdownIt
    M.MarkdownIt = FakeMd
    try:
        M.create_md_parser(cfg, None)
    finally:
        M.MarkdownIt = orig
    return V._enc_s(rec["preset"]) + " | " + " ; ".join(rec["steps"]) + " | " + opts(rec["options"])


def rand_parser_kwargs(rng):
    kw = {}
    exts = sorted(V.DOC_EXTENSIONS)
    if rng.random() < 0.85:
        kw["enable_extensions"] = rng.choice([list, tuple, set])(rng.sample(exts, rng.randint(0, 5)))
    if rng.random() < 0.15:
        kw["commonmark_only"] = True
    if rng.random() < 0.15:
        kw["gfm_only"] = True
    if rng.random() < 0.4:
        kw["disable_syntax"] = rng.sample(["table", "emphasis", "link", "text_join", "nonexistent"], rng.randint(0, 2))
    for b in ("enable_checkboxes", "linkify_fuzzy_links", "dmath_allow_labels", "dmath_allow_space", "dmath_allow_digits", "dmath_double_inline"):
        if rng.random() < 0.2:
            kw[b] = rng.random() < 0.5
    if rng.random() < 0.3:
        kw["words_per_minute"] = rng.choice([1, 50, 300])
    if rng.random() < 0.2:
        kw["sub_delimiters"] = rng.choice([("[", "]"), ["<", ">"]])
    return kw


def corr_parser(ctx):
    import copy as cp
    from myst_parser.config.main import MdParserConfig
    imp = import_table()
    rng = ctx.rng
    cases = [({"enable_extensions": [e]}, hl) for e in sorted(V.DOC_EXTENSIONS) for hl in (False, True)]
    cases += [({}, False), ({"commonmark_only": True, "enable_extensions": ["deflist"]}, False),
              ({"gfm_only": True, "enable_extensions": ["deflist"], "enable_checkboxes": True}, True)]
    for _ in range(ctx.budget(300, 3000, 3000)):
        cases.append((rand_parser_kwargs(rng), rng.random() < 0.5))
    lines = ["\t".join(["mdparser", imp, enc_kwargs(kw), "1" if hl else "0"]) for kw, hl in cases]
    outs = model_run_parallel(PID, lines)
    for (kw, hl), o in zip(cases, outs):
        ctx.corr_cases += 1
        ctx.count("corr:mdparser")
        try:
            r = "ok " + md_trace(MdParserConfig(**cp.deepcopy(kw)), hl)
        except Exception as e:
            r = "!" + type(e).__name__
        if kw.get("enable_extensions") or kw.get("disable_syntax"):
            ctx.nontriv(("mdparser", repr(sorted(kw.items(), key=str)), hl))
        if r != o:
            if len(ctx.disagreements) < 40:
                ctx.disagree("create_md_parser call sequence", {"kind": "parser", "kwargs": ser(kw), "has_linkify": hl}, r[:700], o[:700])


def check_parser(ctx, case):
    """Direct oracle on the real MarkdownIt object: every documented extension that create_md_parser handles changes
    the active rules / options of the parser; commonmark_only / gfm_only ignore enable_extensions; two spellings of the
    same extension set give the same parser."""
    import copy as cp
    from markdown_it.renderer import RendererHTML
    from myst_parser.config.main import MdParserConfig
    from myst_parser.parsers.mdit import create_md_parser

    def observe(kw):
        md = create_md_parser(MdParserConfig(**cp.deepcopy(kw)), RendererHTML)
        return (md.get_active_rules(), {k: v for k, v in md.options.items() if k != "myst_config"},
                sorted(md.block.ruler.get_all_rules()), sorted(md.inline.ruler.get_all_rules()), sorted(md.core.ruler.get_all_rules()))
    kw = deser(case["kwargs"])
    ok = True
    try:
        base = observe(kw)
        exts = list(kw.get("enable_extensions") or [])
        if kw.get("commonmark_only") or kw.get("gfm_only"):
            other = observe({k: v for k, v in kw.items() if k != "enable_extensions"})
            if other != base:
                ctx.fail("parser:only-mode-uses-extensions", case, "commonmark_only/gfm_only parser depends on enable_extensions")
                ok = False
        else:
            for sp in (tuple(reversed(exts)), set(exts), exts + exts[:1]):
                if observe(dict(kw, enable_extensions=sp)) != base:
                    ctx.fail("parser:spelling", case, f"parser differs for the spelling {sp!r} of the same extension set")
                    ok = False
    except ModuleNotFoundError:
        pass
    except Exception as e:
        ctx.fail(f"exception:{type(e).__name__}:create_md_parser", case, f"create_md_parser raised {e!r}")
        ok = False
    return ok


def _common_repo():
    from lib import common
    return common.REPO


def check_parser_ext(ctx, case, tested=None, elsewhere=None):
    from markdown_it.renderer import RendererHTML
    from myst_parser.config.main import MdParserConfig
    from myst_parser.parsers.mdit import create_md_parser
    if tested is None:
        from gen import c13_mdit as _M
        _t, mi = _M.generate(_common_repo())
        tested, elsewhere = set(mi["tested"]), {n for n, _ in mi["others"]}
    ext = case["extension"]

    def observe(exts):
        md = create_md_parser(MdParserConfig(enable_extensions=exts), RendererHTML)
        return (md.get_active_rules(), {k: v for k, v in md.options.items() if k != "myst_config"},
                sorted(md.block.ruler.get_all_rules()), sorted(md.inline.ruler.get_all_rules()), sorted(md.core.ruler.get_all_rules()))
    try:
        changed = observe([ext]) != observe([])
    except Exception as e:
        ctx.fail(f"exception:{type(e).__name__}:create_md_parser", case, f"create_md_parser raised {e!r}")
        return False
    if not changed and ext not in elsewhere:
        ctx.fail(f"extension-ignored:{ext}", case, f"the documented extension {ext!r} is accepted but changes neither the parser "
                 "nor is it read anywhere else in the package")
        return False
    if ext in tested and not changed:
        ctx.fail(f"extension-branch-without-effect:{ext}", case, f"create_md_parser tests {ext!r} but the parser is the same with and without it")
        return False
    return True


def corr(ctx):
    if not ctx.have_runner:
        return
    corr_parser(ctx)
    import copy as cp
    import dataclasses as dc
    from myst_parser.config.main import MdParserConfig, merge_file_level
    imp = import_table()
    fields = [f.name for f in dc.fields(MdParserConfig)]
    rng = ctx.rng
    cases = []   # (kind, payload, request line)
    vals = V.base_values()
    for f in fields:
        for v in vals:
            cases.append(("ctor", (f, v), "\t".join(["ctor", imp, enc_kwargs({f: v})])))
            cases.append(("copy", (f, v), "\t".join(["copy", imp, enc_kwargs(BASE_KW), enc_kwargs({f: v})])))
            cases.append(("shares", (f, v), "\t".join(["shares", imp, enc_kwargs(BASE_KW), enc_kwargs({f: v})])))
            if True:
                cases.append(("merge", ({"myst": {f: v}},), "\t".join(["merge", imp, enc_kwargs(BASE_KW), V.enc_jv({"myst": {f: v}}), "0"])))
    for _ in range(ctx.budget(1500, 30000, 30000)):
        f = rng.choice(fields)
        v = V.rand_value(rng)
        k = rng.choice(["ctor", "copy", "merge"])
        if k == "ctor":
            kw = {f: v}
            if rng.random() < 0.3:
                kw[rng.choice(fields)] = V.rand_value(rng)
            if rng.random() < 0.05:
                kw["not_a_field"] = 1
            cases.append(("ctor2", kw, "\t".join(["ctor", imp, enc_kwargs(kw)])))
        elif k == "copy":
            cases.append(("copy", (f, v), "\t".join(["copy", imp, enc_kwargs(BASE_KW), enc_kwargs({f: v})])))
        else:
            top = rand_topmatter(rng, fields)
            cases.append(("merge", (top,), "\t".join(["merge", imp, enc_kwargs(BASE_KW), V.enc_jv(top), "0"])))
    # docutils option strings
    junk = ["", "x", "1", " 2 ", "-1", "+3", "1_0", "1.0", "true", "TRUE ", "Yes", "off", "maybe", "a,b", " a , b ,", ",", "a,,b",
            "{", "{a: b}", '{"a": "b"}', "{a: 1}", "[a, b]", "a: b", "http, https", "http,", "deflist", "deflist,tasklist",
            "nope", "{a: {classes: abc}}", "{a: {classes: [x]}}", "null", "~", "a b", "é", "{,}", "myst_parser.config.main._test_slug_func"]
    for f in fields:
        strs = list(junk)
        for v in vals:
            if V.doc_type_ok(f, v):
                strs += spell(f, v)
        for sv in dict.fromkeys(strs):
            cases.append(("docutils", (f, sv), None))
    # sphinx conf dicts
    for _ in range(ctx.budget(150, 1500, 1500)):
        conf = {}
        for _ in range(rng.randint(0, 3)):
            f = rng.choice([x for x in fields if x not in V.OMIT_SPHINX])
            conf[f] = rng.choice(vals) if rng.random() < 0.6 else V.rand_value(rng)
        cases.append(("sphinx", conf, "\t".join(["sphinx", imp, enc_kwargs(conf)])))
    # implementation side first for docutils (the YAML oracle value is part of the request)
    import yaml
    lines = []
    for i, (k, payload, line) in enumerate(cases):
        if k == "docutils":
            f, sv = payload
            try:
                y = yaml.safe_load(sv)
                yf = V.enc_jv(y) if _plain(y) else "!"
            except Exception:
                yf = "!"
            line = "\t".join(["docutils", imp, V._enc_s(f), V._enc_s(sv), yf])
            cases[i] = (k, payload, line)
        lines.append(cases[i][2])
    outs = model_run_parallel(PID, lines)
    # which branches of _attr_to_optparse_option no docutils-visible field reaches (computed by the model)
    reach = model_run_parallel(PID, ["reach"])[0].split(" # ")
    rules_src = getattr(ctx, "_c13_rules", [])
    ctx.gen_info.setdefault("unused_validator_code", {})["_attr_to_optparse_option branches deciding no field"] = \
        [rules_src[int(i)] if int(i) < len(rules_src) else i for i in reach[0].split(",") if i != ""]
    base = None
    for (k, payload, line), o in zip(cases, outs):
        ctx.corr_cases += 1
        ctx.count("corr:" + k)
        if k in ("ctor", "copy"):
            f, v = payload
            if k == "ctor":
                r = impl_result(lambda: MdParserConfig(**{f: cp.deepcopy(v)}))
            else:
                r = impl_result(lambda: MdParserConfig(**cp.deepcopy(BASE_KW)).copy(**{f: cp.deepcopy(v)}))
            m = dec_cfg(o)
            if f in V.DOC_FIELDS and (not V.doc_type_ok(f, v) or (isinstance(r, dict) and r.get(f) != V.canon(v))):
                ctx.nontriv((k, f, repr(v)))
            if r != m:
                _dis(ctx, k, {"kind": "value", "field": f, "value": ser(v)}, r, m, f)
        elif k == "shares":
            f, v = payload
            try:
                b0 = MdParserConfig(**cp.deepcopy(BASE_KW))
                r = ("ok", shared_containers(b0, b0.copy(**{f: cp.deepcopy(v)}))[0])
            except (TypeError, ValueError) as e:
                r = ("error", type(e).__name__)
            if o.startswith("!"):
                m = ("error", o[1:])
            else:
                body = o[3:]
                m = ("ok", sorted("".join(chr(int(x)) for x in t.split(",")) for t in body.split(",,") if t) if False else
                     sorted(_dec_names(body)))
            if r != m:
                _dis(ctx, "containers shared between a config and its copy", {"kind": "value", "field": f, "value": ser(v)}, r, m, f)
        elif k == "ctor2":
            r = impl_result(lambda: MdParserConfig(**cp.deepcopy(payload)))
            m = dec_cfg(o)
            if r != m:
                _dis(ctx, "constructor (several keywords)", {"kind": "kwargs", "kwargs": ser(payload)}, r, m)
        elif k == "merge":
            top = payload[0]
            base = MdParserConfig(**cp.deepcopy(BASE_KW))
            snap = _snapshot(base)
            ws = []
            try:
                new = merge_file_level(base, cp.deepcopy(top), lambda t, msg: ws.append(msg))
                r = (V.canon_cfg(new), "same" if _snapshot(base) == snap else "CHANGED", [warn_kind(w, fields) for w in ws])
            except Exception as e:
                r = ("error", type(e).__name__)
            if o.startswith("!"):
                m = ("error", o[1:])
            else:
                cfg_s, glob_s, warn_s = o.split(" # ")
                m = (dec_cfg(cfg_s), glob_s, [] if warn_s == "." else [w[0] for w in warn_s.split("/")])
            if isinstance(r[0], dict) and (r[2] or r[0] != V.canon_cfg(base)):
                ctx.nontriv(("merge", repr(top)))
            if r != m:
                _dis(ctx, "merge_file_level", {"kind": "topmatter", "topmatter": ser(top)}, r, m)
        elif k == "docutils":
            f, sv = payload
            rr = docutils_parse(f, sv)
            r = V.canon_cfg(rr[1]) if rr[0] == "ok" else ("error", "opt" if rr[0] == "optparse-error" else rr[1])
            m = dec_cfg(o)
            if isinstance(r, dict):
                ctx.nontriv(("docutils", f, sv))
            if r != m:
                _dis(ctx, "docutils option string", {"kind": "docutils", "field": f, "value": None, "strings": [sv]}, r, m, f)
        elif k == "sphinx":
            r = sphinx_create(payload)
            m = dec_cfg(o)
            if isinstance(m, tuple) and m[1] in ("TypeError", "ValueError"):
                m = ("error", "invalid")
            if r != m:
                _dis(ctx, "sphinx create_myst_config", {"kind": "sphinxconf", "conf": ser(payload)}, r, m)
    ctx.sample({"corr_request": lines[len(lines) // 2][:300]})


def _dec_names(body):
    """'a,b,c;d,e' style is ambiguous with code points: the driver separates names with ';'"""
    return ["".join(chr(int(x)) for x in t.split(",")) for t in body.split(";") if t]


def _dis(ctx, what, case, r, m, field=None):
    if len(ctx.disagreements) >= 40:
        return
    if isinstance(r, dict) and isinstance(m, dict):
        d = {k: (r.get(k), m.get(k)) for k in set(r) | set(m) if r.get(k) != m.get(k)}
        r, m = {k: a for k, (a, b) in d.items()}, {k: b for k, (a, b) in d.items()}
    elif isinstance(r, tuple) and isinstance(m, tuple) and len(r) == 3 and len(m) == 3 and isinstance(r[0], dict) and isinstance(m[0], dict):
        d = {k: (r[0].get(k), m[0].get(k)) for k in set(r[0]) | set(m[0]) if r[0].get(k) != m[0].get(k)}
        r, m = ({k: a for k, (a, b) in d.items()}, r[1], r[2]), ({k: b for k, (a, b) in d.items()}, m[1], m[2])
    ctx.disagree(what, case, repr(r)[:700], repr(m)[:700])


def sphinx_create(conf):
    """sphinx_ext.main.create_myst_config on a stand-in app: config values are the registered defaults
    (the fields of MdParserConfig()) overridden by conf; returns the config or the logged error class."""
    import copy as cp
    import logging
    import types
    from myst_parser.config.main import MdParserConfig
    from myst_parser.sphinx_ext.main import create_myst_config
    config = {}
    for name, default, field in MdParserConfig().as_triple():
        if "sphinx" not in field.metadata.get("omit", []):
            config["myst_" + name] = cp.deepcopy(conf[name]) if name in conf else default
    app = types.SimpleNamespace(config=config, env=types.SimpleNamespace())
    records = []

    class H(logging.Handler):
        def emit(self, record):
            records.append(record)
    h = H(level=logging.ERROR)
    lg = logging.getLogger("sphinx")
    lg.addHandler(h)
    try:
        create_myst_config(app)
    except Exception as e:
        return ("error", "other:" + type(e).__name__)
    finally:
        lg.removeHandler(h)
    if any(r.levelno >= logging.ERROR for r in records):
        return ("error", "invalid")
    return V.canon_cfg(app.env.myst_config)


# ------------------------------------------------------------------ witness (de)serialisation

def ser(v):
    if v is None or type(v) in (bool, int, str):
        return v
    if type(v) is float:
        return {"t": "float", "v": repr(v)}
    if type(v) is list:
        return [ser(x) for x in v]
    if type(v) is tuple:
        return {"t": "tuple", "v": [ser(x) for x in v]}
    if type(v) in (set, frozenset):
        return {"t": "set", "v": [ser(x) for x in sorted(v, key=lambda x: json.dumps(V.canon(x), sort_keys=True))]}
    if type(v) is dict:
        return {"t": "dict", "v": [[ser(k), ser(x)] for k, x in v.items()]}
    if callable(v):
        return {"t": "callable"}
    return {"t": "repr", "v": repr(v)}


def deser(w):
    if isinstance(w, list):
        return [deser(x) for x in w]
    if isinstance(w, dict):
        t = w["t"]
        if t == "float":
            return float(w["v"])
        if t == "tuple":
            return tuple(deser(x) for x in w["v"])
        if t == "set":
            return set(deser(x) for x in w["v"])
        if t == "dict":
            return {deser(k): deser(x) for k, x in w["v"]}
        if t == "callable":
            return V._fn
        raise ValueError(t)
    return w


def jtype(v):
    return type(v).__name__


# ------------------------------------------------------------------ direct oracle: one (field, value)

def _containers(v, path, out):
    """every mutable container reachable from v, with the path to it"""
    if isinstance(v, (set, dict, list)):
        out.append((path, v))
    if isinstance(v, dict):
        for k, x in v.items():
            _containers(x, path + "[%r]" % (k,), out)
    elif isinstance(v, (list, tuple)):
        for i, x in enumerate(v):
            _containers(x, path + "[%d]" % i, out)


def shared_containers(base, new):
    """(fields whose own container object is shared, all shared paths incl. nested ones)"""
    top, nested = [], []
    for k in base.__dict__:
        a, b = [], []
        _containers(getattr(base, k), k, a)
        _containers(getattr(new, k), k, b)
        ids = {id(x): p for p, x in a}
        for p, x in b:
            if id(x) in ids:
                nested.append(p)
                if p == k:
                    top.append(k)
    return sorted(top), sorted(nested)


def written_fields():
    """fields whose container some code of the package mutates in place (regenerated by gen/c13_config.py)"""
    from gen import c13_config as G
    from lib import common
    return sorted({w["field"] for w in G.config_writes(common.REPO) if w["kind"] == "inplace"})


def _snapshot(cfg):
    return {k: (id(x), V.canon(x)) for k, x in cfg.__dict__.items()}


def _base_cfg():
    """A non-default global configuration (so that merging / copying is observable)."""
    import copy as cp
    from myst_parser.config.main import MdParserConfig
    return MdParserConfig(**cp.deepcopy(BASE_KW))


_WRITTEN_CACHE = []


def _WRITTEN():
    if not _WRITTEN_CACHE:
        _WRITTEN_CACHE.append(written_fields())
    return _WRITTEN_CACHE[0]


def check_value(ctx, case):
    """accepted iff documented type; canonical form; same at every entry point; invalid front matter
    ignored with exactly one topmatter warning; global config untouched."""
    from myst_parser.config.main import MdParserConfig, merge_file_level
    from myst_parser.warnings_ import MystWarnings
    f, v = case["field"], deser(case["value"])
    want_ok = V.doc_type_ok(f, v)
    ok = True

    def bad(sig, what, expected=None, observed=None):
        nonlocal ok
        ok = False
        ctx.fail(sig, case, what, expected, observed)

    # E1 constructor
    try:
        c1 = MdParserConfig(**{f: _copy.deepcopy(v)})
        r1 = ("ok", V.canon(getattr(c1, f)))
    except (TypeError, ValueError) as e:
        r1 = ("rejected", type(e).__name__)
    except Exception as e:  # neither TypeError nor ValueError: the Sphinx front end does not catch it
        r1 = ("exception", type(e).__name__)
    if r1[0] == "exception":
        bad(f"exception:{r1[1]}:{f}", f"MdParserConfig({f}={v!r}) raised {r1[1]} (front ends catch TypeError/ValueError only)",
            "TypeError or ValueError", r1[1])
    elif want_ok and r1[0] != "ok":
        bad(f"reject-documented:{f}", f"MdParserConfig({f}={v!r}) rejected although the value has the documented type", "accepted", r1)
    elif not want_ok and r1[0] == "ok":
        bad(f"accept-undocumented:{f}:{jtype(v)}", f"MdParserConfig({f}={v!r}) accepted although outside the documented type",
            "rejected", r1)
    if want_ok and r1[0] == "ok":
        exp = V.canon(V.doc_canonical(f, v))
        if r1[1] != exp:
            bad(f"canonical:{f}:constructor", f"{f}={v!r} stored in a non-canonical form", exp, r1[1])

    # E2 copy on a non-default base; E3 front matter on the same base
    try:
        base = _base_cfg()
    except Exception as e:
        bad("reject-documented:base-config", f"the (documented-valid) base configuration {BASE_KW!r} is rejected: {e!r}")
        return ok
    snap = _snapshot(base)
    try:
        c2 = base.copy(**{f: _copy.deepcopy(v)})
        r2 = ("ok", V.canon_cfg(c2))
    except (TypeError, ValueError) as e:
        r2 = ("rejected", type(e).__name__)
    except Exception as e:
        r2 = ("exception", type(e).__name__)
    if (r2[0] == "ok") != (r1[0] == "ok"):
        bad(f"entrypoints-differ:{f}:copy", f"copy({f}={v!r}) and the constructor disagree on acceptance", r1[0], r2[0])
    ws = []
    try:
        c3 = merge_file_level(base, {"myst": {f: _copy.deepcopy(v)}}, lambda t, m: ws.append((t, m)))
        r3 = V.canon_cfg(c3)
    except Exception as e:
        bad(f"exception:{type(e).__name__}:merge_file_level:{f}", f"merge_file_level with myst.{f}={v!r} raised {e!r}")
        r3 = None
    # object identity: a container that the package mutates in place at run time must never be shared between
    # the global config and a copy / per-document config (nested containers included)
    for how, newc in (("copy", c2 if r2[0] == "ok" else None), ("merge_file_level", c3 if r3 is not None else None)):
        if newc is None:
            continue
        top, nested = shared_containers(base, newc)
        for wf in _WRITTEN():
            hit = [p for p in nested if p == wf or p.startswith(wf + "[")]
            if hit:
                bad(f"shares-container:{wf}:{how}", f"after {how} (myst.{f}={v!r}) the new config shares {hit} with the global "
                    f"config, and the package mutates {wf} in place at run time", [], hit)
        for p in top:
            ctx.count("observed-shared-container:" + p)
    if _snapshot(base) != snap:
        bad(f"global-modified:{f}", f"the global config object changed while merging front matter myst.{f}={v!r}",
            {k: x[1] for k, x in snap.items()}, {k: x[1] for k, x in _snapshot(base).items()})
    if r3 is not None:
        if r1[0] == "ok":
            # valid value: no warning, same effect as the global setting (dict options merged over the global value)
            if ws:
                bad(f"warning-count:{f}:valid", f"valid front matter myst.{f}={v!r} produced warnings", [], [m for _, m in ws])
            if f in V.MERGE_FIELDS and isinstance(v, dict):
                glob = base.copy(**{f: {**getattr(base, f), **_copy.deepcopy(v)}})
            else:
                glob = c2 if r2[0] == "ok" else None
            if glob is not None and V.canon_cfg(glob) != r3:
                d = {k: (V.canon_cfg(glob)[k], r3[k]) for k in r3 if V.canon_cfg(glob)[k] != r3[k]}
                bad(f"frontmatter-neq-global:{f}", f"front matter myst.{f}={v!r} gives a different configuration than the same "
                    "value set globally", {k: a for k, (a, b) in d.items()}, {k: b for k, (a, b) in d.items()})
        else:
            if len(ws) != 1 or ws[0][0] is not MystWarnings.MD_TOPMATTER:
                bad(f"warning-count:{f}:invalid", f"invalid front matter myst.{f}={v!r}: expected exactly one topmatter warning",
                    1, [(str(t), m) for t, m in ws])
            if r3 != V.canon_cfg(base):
                d = {k: r3[k] for k in r3 if V.canon_cfg(base)[k] != r3[k]}
                bad(f"invalid-not-ignored:{f}", f"invalid front matter myst.{f}={v!r} changed the configuration", {}, d)
    return ok


# ------------------------------------------------------------------ docutils option strings

def docutils_parse(field, s):
    """Through the real docutils option parser -> settings -> create_myst_config."""
    import io
    import contextlib
    import warnings
    from docutils.frontend import OptionParser
    from myst_parser.parsers.docutils_ import Parser, create_myst_config
    with warnings.catch_warnings():
        warnings.simplefilter("ignore")
        op = OptionParser(components=(Parser,), read_config_files=False)
    err = io.StringIO()
    try:
        with contextlib.redirect_stderr(err), warnings.catch_warnings():
            warnings.simplefilter("ignore")
            settings = op.parse_args(["--myst-" + field.replace("_", "-") + "=" + s])
    except SystemExit:
        return ("optparse-error", None)
    try:
        cfg = create_myst_config(settings)
    except (TypeError, ValueError) as e:
        return ("rejected", type(e).__name__)
    return ("ok", cfg)


def _docutils_setting_value(field, s):
    import contextlib
    import io
    import warnings
    from docutils.frontend import OptionParser
    from myst_parser.parsers.docutils_ import Parser
    with warnings.catch_warnings():
        warnings.simplefilter("ignore")
        op = OptionParser(components=(Parser,), read_config_files=False)
        with contextlib.redirect_stderr(io.StringIO()):
            settings = op.parse_args(["--myst-" + field.replace("_", "-") + "=" + s])
    return getattr(settings, "myst_" + field)


def spell(field, v):
    """Docutils option-string spellings of a (valid) value, [] if it has none."""
    if field in V.OMIT_DOCUTILS or field in ("heading_slug_func",) and not isinstance(v, str):
        return []
    if type(v) is bool:
        return ["true", "yes", "1", "on", " True "] if v else ["false", "no", "0", "off", ""]
    if type(v) is int:
        return [str(v), " %d " % v]
    if type(v) is str:
        return [v] if not v.startswith("-") else []
    if type(v) in (list, tuple, set):
        items = list(v)
        if not all(type(x) is str and x and x == x.strip(" \t\n") and "," not in x for x in items):
            return []
        if field == "url_schemes" and not items:
            return []
        out = [",".join(items), " , ".join(items) + ","]
        if field == "url_schemes":
            out = [o for o in out if _yaml_plain(o)] + [json.dumps({k: None for k in items})]
        return out
    if type(v) is dict and V.jsonable(v):
        return [json.dumps(v)]
    return []


def _yaml_plain(s):
    import yaml
    try:
        return isinstance(yaml.safe_load(s), str)
    except Exception:
        return False


def check_docutils(ctx, case):
    from myst_parser.config.main import MdParserConfig
    if case.get("value") is None and case.get("strings"):
        # a bare option string (from a correspondence disagreement): whatever the option parser hands to
        # create_myst_config must be accepted iff it has the documented type
        f, s0 = case["field"], case["strings"][0]
        r = docutils_parse(f, s0)
        if r[0] == "optparse-error":
            return True
        val = _docutils_setting_value(f, s0)
        want = V.doc_type_ok(f, val)
        if want != (r[0] == "ok"):
            ctx.fail(f"docutils-string:{f}", case, f"--myst-{f.replace('_', '-')}={s0!r} -> {val!r}: acceptance differs from the documented type",
                     want, r[0])
            return False
        return True
    f, v = case["field"], deser(case["value"])
    ok = True
    for s in case.get("strings") or spell(f, v):
        r = docutils_parse(f, s)
        try:
            want = ("ok", V.canon_cfg(MdParserConfig(**{f: _copy.deepcopy(v)})))
        except (TypeError, ValueError) as e:
            want = ("rejected", None)
        got = ("ok", V.canon_cfg(r[1])) if r[0] == "ok" else ("rejected", None)
        if got != want:
            ok = False
            d = None
            if got[0] == want[0] == "ok":
                d = {k: (want[1][k], got[1][k]) for k in got[1] if got[1][k] != want[1][k]}
            ctx.fail(f"docutils-string:{f}", dict(case, strings=[s]),
                     f"--myst-{f.replace('_', '-')}={s!r} gives a different configuration than {f}={v!r}",
                     want[0] if d is None else {k: a for k, (a, b) in d.items()},
                     got[0] if d is None else {k: b for k, (a, b) in d.items()})
    return ok


# ------------------------------------------------------------------ effect equivalence on documents

SNIPPETS = [
    "# Title\n\n## Sub one\n\n### Deep\n\n[l1](#sub-one) [l2](#deep)\n",
    "<http://a.org> [b](https://b.org/x) [c](mailto:c@d.org) [d](ftp://e) [w](wiki:Page) [o](other:thing) [f](file.md)\n",
    "Term\n: Definition\n\n- [ ] todo\n- [x] done\n",
    "$a=1$ and $$b=2$$ (lab)\n\n$$\nc=3\n$$\n\n1$x$2 $ y $\n",
    "~~gone~~ \"quoted\" (c) +- --- ...\n",
    ":::{note}\ncolon\n:::\n\n```{note}\nback\n```\n",
    "```python\nx = 1\n```\n\n```mermaid\ngraph\n```\n\n```unknownlang\ny\n```\n",
    "foot[^a] note[^b]\n\n[^b]: second\n[^a]: first\n",
    "{{ a }} and {{ k }} [[ a ]] {{ wordcount-minutes }}\n",
    "| a | b |\n|---|---|\n| 1 | 2 |\n\n*emph* **strong** `code`\n",
    ":field: value\n:other: thing\n\n{#id .cls}\nattributed paragraph [span]{.x}\n",
    "<div class=\"admonition note\">\n<p>html adm</p>\n</div>\n\n<img src=\"a.png\" alt=\"x\">\n",
    "\\begin{equation}\na\n\\end{equation}\n",
    "> quote\n>\n> # heading in quote\n\n1. one\n2. two\n",
    "www.example.org and example.com/path\n",
]

# commonmark_only is left out: the strict CommonMark parser has no front-matter rule, so the block that
# carries the setting is itself rendered as document text and the two documents differ by construction.
FIELD_VALUES_FOR_DOCS = {
    "gfm_only": [True],
    "enable_extensions": [["deflist", "tasklist"], ["dollarmath", "amsmath"], ["strikethrough", "smartquotes", "replacements"],
                          ["colon_fence", "substitution", "fieldlist"], ["attrs_inline", "attrs_block", "html_image", "html_admonition"],
                          []],
    "disable_syntax": [["emphasis"], ["table", "link"], []],
    "all_links_external": [True], "links_external_new_tab": [True],
    "url_schemes": [["http"], ["mailto", "wiki"], {"wiki": "https://w.org/{{path}}"},
                    {"http": None, "other": {"url": "https://o.org/{{path}}#{{fragment}}", "title": "T {{netloc}}", "classes": ["k"]}}, []],
    "fence_as_directive": [["mermaid"], ["unknownlang", "python"], []],
    "number_code_blocks": [["python"], ["unknownlang"]],
    "title_to_header": [True],
    "heading_anchors": [0, 1, 2, 3, 7],
    "html_meta": [{"description": "d"}, {"keywords": "k2", "property=og:x": "y"}, {}],
    "footnote_sort": [False], "footnote_transition": [False],
    "words_per_minute": [1, 50],
    "substitutions": [{"a": "local *a*"}, {"k": 3, "a": "x"}, {}],
    "linkify_fuzzy_links": [False], "dmath_allow_labels": [False], "dmath_allow_space": [False],
    "dmath_allow_digits": [False], "dmath_double_inline": [True], "enable_checkboxes": [True],
    "highlight_code_blocks": [False],
}


def doc_pair(field, v, body, base):
    """(global settings, global text), (front matter text): same number of front-matter lines."""
    fm = "---\ntitle: T0\nmyst:\n  %s: %s\n---\n" % (field, json.dumps(v))
    gl = "---\ntitle: T0\nmyst: {}\n# pad\n---\n"
    return gl + body, fm + body


def check_doc(ctx, case):
    from lib.impl import publish
    f, v, body = case["field"], case["value"], case["body"]
    base = dict(case.get("base") or {})
    gtext, ftext = doc_pair(f, v, body, base)
    gset = {"myst_" + k: x for k, x in base.items()}
    fset = dict(gset)
    if f in V.MERGE_FIELDS and isinstance(v, dict) and isinstance(base.get(f), dict):
        gset["myst_" + f] = {**base[f], **v}
    else:
        gset["myst_" + f] = v
    try:
        d1, w1 = publish(gtext, gset)
        o1 = (d1.pformat(), w1)
    except Exception as e:
        o1 = ("!" + type(e).__name__, "")
    try:
        d2, w2 = publish(ftext, fset)
        o2 = (d2.pformat(), w2)
    except Exception as e:
        o2 = ("!" + type(e).__name__, "")
    if o1 != o2:
        import difflib
        diff = "\n".join(list(difflib.unified_diff(o1[0].splitlines(), o2[0].splitlines(), "global", "frontmatter", lineterm="", n=1))[:40])
        sig = f"effect:{f}" if not (o2[0].startswith("!") and not o1[0].startswith("!")) else f"exception:{o2[0][1:]}:frontmatter:{f}"
        ctx.fail(sig, case, f"document differs: myst.{f}={v!r} in front matter vs the same value as global setting",
                 (o1[1] + "\n" + diff)[:1500], o2[0][:200] if o2[0].startswith("!") else o2[1][:500])
        return False
    return True


def check_sphinx_doc(ctx, case):
    """Same comparison through the Sphinx front end (used for options the docutils settings omit)."""
    from lib.impl import SphinxProject
    f, v, body = case["field"], case["value"], case["body"]
    gtext, ftext = doc_pair(f, v, body, {})
    outs = []
    for text, conf in ((gtext, "myst_%s = %r\n" % (f, v)), (ftext, "")):
        try:
            r = SphinxProject({"index.md": text}, conf="myst_enable_extensions=['substitution']\n" + conf).build()
            outs.append((r["doctrees"]["index"].pformat().replace(r["src"], "<src>"), r["warnings"]))
        except Exception as e:
            outs.append(("!" + type(e).__name__, repr(e)[:300]))
    if outs[0] != outs[1]:
        ctx.fail(f"effect:{f}:sphinx", case, f"Sphinx: document differs for myst.{f}={v!r} front matter vs conf.py",
                 outs[0][0][:800] + outs[0][1][:300], outs[1][0][:800] + outs[1][1][:300])
        return False
    return True


def check_topmatter(ctx, case):
    """Several front-matter keys at once: expected result from the documented-type oracle alone."""
    import copy as cp
    from myst_parser.config.main import MdParserConfig, merge_file_level
    top = deser(case["topmatter"])
    try:
        base = MdParserConfig(**cp.deepcopy(BASE_KW))
    except Exception as e:
        ctx.fail("reject-documented:base-config", case, f"the (documented-valid) base configuration is rejected: {e!r}")
        return False
    snap = _snapshot(base)
    ws = []
    try:
        new = merge_file_level(base, cp.deepcopy(top), lambda t, m: ws.append(m))
    except Exception as e:
        ctx.fail(f"exception:{type(e).__name__}:merge_file_level", case, f"merge_file_level raised {e!r}")
        return False
    ok = True
    if _snapshot(base) != snap:
        ctx.fail("global-modified", case, "the global config object changed while merging front matter")
        ok = False
    exp = {k: getattr(base, k) for k in V.canon_cfg(base)}
    n_warn = 0
    myst = top.get("myst", {})
    if not isinstance(myst, dict):
        n_warn += 1
        myst = {}
    updates = dict(myst)
    for k in ("html_meta", "substitutions"):
        if k in top:
            n_warn += 1
            updates[k] = top[k]
    for k, v in updates.items():
        if not isinstance(k, str) or k not in V.DOC_FIELDS or k not in exp:
            n_warn += 1
        elif not V.doc_type_ok(k, v):
            n_warn += 1
        else:
            cv = V.doc_canonical(k, v)
            exp[k] = {**exp[k], **cv} if k in V.MERGE_FIELDS else cv
    got = V.canon_cfg(new)
    want = {k: V.canon(v) for k, v in exp.items()}
    if got != want:
        d = sorted(k for k in got if got[k] != want[k])
        ctx.fail("frontmatter-result:" + ",".join(d), case, "front matter result differs from applying the valid keys to the global config",
                 {k: want[k] for k in d}, {k: got[k] for k in d})
        ok = False
    if len(ws) != n_warn:
        ctx.fail("warning-count:topmatter", case, "number of topmatter warnings differs from the number of invalid/unknown/deprecated entries",
                 n_warn, ws)
        ok = False
    return ok


def check_kwargs(ctx, case, sphinx=False):
    import copy as cp
    from myst_parser.config.main import MdParserConfig
    kw = deser(case["kwargs" if not sphinx else "conf"])
    want_ok = all(isinstance(k, str) and k in V.DOC_FIELDS and V.doc_type_ok(k, v) for k, v in kw.items())
    r = sphinx_create(kw) if sphinx else impl_result(lambda: MdParserConfig(**cp.deepcopy(kw)))
    if want_ok != isinstance(r, dict):
        ctx.fail("accept-iff-type:" + ("sphinx" if sphinx else "constructor"), case,
                 "acceptance differs from the documented types of the keywords", want_ok, repr(r)[:300])
        return False
    return True


# documents that exercise every place of the package that writes to the parsing configuration at run time
# (regenerated list: gen/c13_config.config_writes); a writer the table does not know breaks the tie
WRITER_SNIPPETS = {
    ("myst_parser/sphinx_ext/directives.py", "run", "enable_extensions"):
        "```{figure-md} fig-target\n<img src=\"fish.png\" alt=\"fishy\" width=\"200px\">\n\nThe caption\n```\n",
}
RAW_IMG = "# Document B\n\n<img src=\"fish.png\" alt=\"raw html, not an image node\">\n\nTerm\n: Definition\n"
LEAK_FRONTMATTERS = ["---\nmyst:\n  title_to_header: false\n---\n", "---\nmyst: {}\ntitle: t\n---\n",
                     "---\nmyst:\n  enable_extensions: [deflist]\n---\n", "---\nmyst:\n  html_meta:\n    a: b\n---\n", ""]


def check_leak(ctx, case):
    """Sphinx: documents (with / without front matter) that use a directive which writes to md_config; afterwards the
    global config must be what conf.py said, and a later document must be parsed exactly as when it is built alone."""
    from lib.impl import SphinxProject
    from myst_parser.config.main import MdParserConfig
    conf_kw = case["conf"]
    conf = "".join("myst_%s = %r\n" % (k, v) for k, v in conf_kw.items())
    a = case["frontmatter"] + "# Document A\n\n" + case["snippet"]
    idx = "# Index\n\n```{toctree}\na\nb\n```\n"
    try:
        both = SphinxProject({"index.md": idx, "a.md": a, "b.md": RAW_IMG}, conf=conf).build()
        alone = SphinxProject({"index.md": "# Index\n\n```{toctree}\nb\n```\n", "b.md": RAW_IMG}, conf=conf).build()
    except Exception as e:
        ctx.fail(f"exception:{type(e).__name__}:sphinx-leak", case, f"Sphinx build raised {e!r}")
        return False
    ok = True
    want = V.canon_cfg(MdParserConfig(**conf_kw))
    got = V.canon_cfg(both["app"].env.myst_config)
    if got != want:
        d = sorted(k for k in got if got[k] != want[k])
        ctx.fail("global-modified:sphinx:" + ",".join(d), case, "env.myst_config after the build differs from the configured values",
                 {k: want[k] for k in d}, {k: got[k] for k in d})
        ok = False
    b1 = both["doctrees"]["b"].pformat().replace(both["src"], "<src>")
    b2 = alone["doctrees"]["b"].pformat().replace(alone["src"], "<src>")
    if b1 != b2:
        import difflib
        ctx.fail("config-leak:sphinx:later-document", case, "a document is parsed differently after another document that "
                 "uses a config-writing directive", None,
                 "\n".join(list(difflib.unified_diff(b2.splitlines(), b1.splitlines(), "alone", "after a.md", lineterm="", n=1))[:30]))
        ok = False
    return ok


def check_docutils_settings_untouched(ctx, case):
    """docutils: the mutable setting objects handed to the parser are unchanged by a parse with front matter"""
    import copy as cp
    from lib.impl import publish
    st = {"myst_" + k: cp.deepcopy(v) for k, v in case["settings"].items()}
    before = {k: V.canon(v) for k, v in st.items()}
    try:
        publish(case["text"], st)
    except Exception as e:
        ctx.fail(f"exception:{type(e).__name__}:docutils-settings", case, f"parse raised {e!r}")
        return False
    after = {k: V.canon(v) for k, v in st.items()}
    if before != after:
        d = sorted(k for k in before if before[k] != after[k])
        ctx.fail("global-modified:docutils-settings:" + ",".join(d), case, "docutils settings objects were modified by the parse",
                 {k: before[k] for k in d}, {k: after[k] for k in d})
        return False
    return True


def check_case(ctx, case):
    k = case["kind"]
    if k == "parser":
        return check_parser(ctx, case)
    if k == "parser-ext":
        return check_parser_ext(ctx, case)
    if k == "leak":
        return check_leak(ctx, case)
    if k == "docutils-settings":
        return check_docutils_settings_untouched(ctx, case)
    if k == "topmatter":
        return check_topmatter(ctx, case)
    if k == "kwargs":
        return check_kwargs(ctx, case)
    if k == "sphinxconf":
        return check_kwargs(ctx, case, sphinx=True)
    if k == "value":
        return check_value(ctx, case)
    if k == "docutils":
        return check_docutils(ctx, case)
    if k == "doc":
        return check_doc(ctx, case)
    if k == "sphinxdoc":
        return check_sphinx_doc(ctx, case)
    raise ValueError(k)


def field_names():
    import dataclasses as dc
    from myst_parser.config.main import MdParserConfig
    return [f.name for f in dc.fields(MdParserConfig)]


def value_cases(ctx, n_random):
    fields = field_names()
    base = V.base_values()
    for f in fields:
        for v in base:
            yield {"kind": "value", "field": f, "value": ser(v)}
    rng = ctx.rng
    for _ in range(n_random):
        f = rng.choice(fields)
        yield {"kind": "value", "field": f, "value": ser(V.rand_value(rng))}


def search(ctx):
    unknown = [f for f in field_names() if f not in V.DOC_FIELDS]
    if unknown:
        ctx.fail("undocumented-field", {"kind": "fields", "fields": unknown},
                 f"MdParserConfig has fields the documented-type oracle does not know: {unknown}")
    for c in ctx.suspects[:300]:
        if c:
            ctx.search_cases += 1
            check_case(ctx, c)
    for c in value_cases(ctx, ctx.budget(3000, 40000, 40000)):
        ctx.search_cases += 1
        v = deser(c["value"])
        good = c["field"] in V.DOC_FIELDS and V.doc_type_ok(c["field"], v)
        ctx.count("search:value:" + ("valid" if good else "invalid"))
        check_case(ctx, c)
        if good and (c["field"] not in V.OMIT_DOCUTILS) and ctx.rng.random() < ctx.budget(0.15, 0.5, 0.5):
            if spell(c["field"], v):
                ctx.search_cases += 1
                ctx.count("search:docutils-string")
                check_docutils(ctx, {"kind": "docutils", "field": c["field"], "value": c["value"]})
    # several front-matter keys at once
    import dataclasses as _dc
    from myst_parser.config.main import MdParserConfig as _C
    _fields = [f.name for f in _dc.fields(_C)]
    for _ in range(ctx.budget(1500, 20000, 20000)):
        ctx.search_cases += 1
        ctx.count("search:topmatter")
        check_topmatter(ctx, {"kind": "topmatter", "topmatter": ser(rand_topmatter(ctx.rng, _fields))})
    # effect equivalence on generated documents
    rng = ctx.rng
    n_docs = ctx.budget(120, 1500, 1500)
    fields = sorted(FIELD_VALUES_FOR_DOCS)
    for i in range(n_docs):
        f = fields[i % len(fields)]
        v = rng.choice(FIELD_VALUES_FOR_DOCS[f])
        k = rng.randint(2, 5)
        body = "\n".join(rng.sample(SNIPPETS, k))
        base = {}
        if rng.random() < 0.5:
            base = rng.choice([{"enable_extensions": ["substitution", "deflist", "dollarmath", "strikethrough", "colon_fence", "tasklist"]},
                               {"html_meta": {"description": "g", "author": "me"}, "substitutions": {"a": "GA", "g": "GG"},
                                "enable_extensions": ["substitution"]},
                               {"heading_anchors": 2, "enable_extensions": ["fieldlist", "attrs_inline", "amsmath"]}])
            base = {k2: x for k2, x in base.items() if k2 != f or f in V.MERGE_FIELDS}
        case = {"kind": "doc", "field": f, "value": v, "body": body, "base": base}
        ctx.search_cases += 1
        ctx.count("search:doc")
        if i < 2:
            ctx.sample(case)
        check_doc(ctx, case)
    # every documented extension is either handled by create_md_parser (then it changes the real parser) or
    # read elsewhere in the package (regenerated lists)
    from gen import c13_mdit as _M
    _txt, _mi = _M.generate(_common_repo())
    handled_elsewhere = {n for n, _ in _mi["others"]}
    for ext in sorted(V.DOC_EXTENSIONS):
        ctx.search_cases += 1
        ctx.count("search:parser-ext")
        check_parser_ext(ctx, {"kind": "parser-ext", "extension": ext}, set(_mi["tested"]), handled_elsewhere)
    # parser construction: spellings, the "only" modes
    for _ in range(ctx.budget(60, 600, 600)):
        ctx.search_cases += 1
        ctx.count("search:parser")
        check_parser(ctx, {"kind": "parser", "kwargs": ser(rand_parser_kwargs(rng))})
    # run-time writers of the configuration (figure-md ...) in documents with and without front matter
    from gen import c13_config as _G
    from lib import common as _common
    writers = sorted({(w["file"], w["func"], w["field"]) for w in _G.config_writes(_common.REPO)})
    for w in writers:
        if w not in WRITER_SNIPPETS:
            ctx.tie_break("search-coverage", f"a place that writes to the parsing configuration at run time has no test document: {w}")
    for w in writers:
        if w not in WRITER_SNIPPETS:
            continue
        for fm in LEAK_FRONTMATTERS[: ctx.budget(3, 5, 5)]:
            for conf_kw in ({"enable_extensions": ["deflist"]}, {"enable_extensions": ["deflist", "colon_fence"], "html_meta": {"g": "h"}})[: ctx.budget(1, 2, 2)]:
                ctx.search_cases += 1
                ctx.count("search:leak")
                check_leak(ctx, {"kind": "leak", "frontmatter": fm, "snippet": WRITER_SNIPPETS[w], "conf": conf_kw})
    for i in range(ctx.budget(20, 200, 200)):
        ctx.search_cases += 1
        ctx.count("search:docutils-settings")
        fm = rng.choice(LEAK_FRONTMATTERS[:4])
        check_docutils_settings_untouched(ctx, {"kind": "docutils-settings", "text": fm + "\n".join(rng.sample(SNIPPETS, 2)),
                                                "settings": {"enable_extensions": ["deflist", "substitution"], "html_meta": {"g": "h"},
                                                             "substitutions": {"a": "x"}, "url_schemes": {"http": None, "wiki": "https://w/{{path}}"},
                                                             "disable_syntax": ["table"], "fence_as_directive": ["mermaid"]}})
    for f, v in [("sub_delimiters", ["[", "]"]), ("ref_domains", ["py"])][: ctx.budget(2, 2, 2)]:
        for body in (SNIPPETS[8] + "\n" + SNIPPETS[0], SNIPPETS[1])[: ctx.budget(1, 2, 2)]:
            ctx.search_cases += 1
            ctx.count("search:sphinxdoc")
            check_sphinx_doc(ctx, {"kind": "sphinxdoc", "field": f, "value": v, "body": body})


def replay(ctx, data):
    w = data.get("witness")
    if not w or "kind" not in w:
        print("replay file names no concrete input:", data.get("no_longer_checks"))
        return 1
    ok = check_case(ctx, w)
    print("replay:", "property holds on this input" if ok else ctx.failures[-1])
    return 0 if ok else 1


# ------------------------------------------------------------------ final texts (MANIFEST level_claimed / level_note)
RULE = ("gen (fail-closed, every run): Gen/Config.v (fields, validator trees, flags, defaults, extension names, the "
        "_attr_to_optparse_option if-chain, fields written in place at run time), Gen/ConfigSrc.v (dc_validators closures, all "
        "check_* validators, merge_file_level translated statement by statement), Gen/MdParserSrc.v (create_md_parser); "
        "correspondence: every field x (fixed universe of values of every JSON/YAML type incl. tuple/set/callable spellings, wrong "
        "and nested-wrong types, + grammar-generated values) through the constructor, copy on a non-default base (incl. WHICH "
        "containers the copy shares with the base, by object identity), merge_file_level (single and multi-key front matter), "
        "the real docutils OptionParser, sphinx_ext.create_myst_config, and the real call sequence of create_md_parser, extracted "
        "Coq model vs implementation, relation = canonicalised as_dict() (list==tuple, sets as sets, callables by qualified name) "
        "/ error class / warning kinds / global-unchanged flag; search: independent documented-type predicate vs acceptance, "
        "canonical stored form, front matter == copy, one myst.topmatter warning per invalid value, deep snapshot of the global "
        "config, object identity for in-place-written fields, doctree under front matter == under the global setting on "
        "generated documents, Sphinx projects with the config-writing directive (figure-md) with/without front matter, parser "
        "observations on the real MarkdownIt; non-trivial = value outside the documented type, or coerced, or merged over a "
        "non-empty global value")
TRUSTED = [
    "Coq 8.16.1 kernel; statements of coq/Props/C13.v; the documented types of coq/Cfg/CfgSpec.v (annotation -> type, plus the "
    "documented refinements of the custom-validated options; JSON/YAML typing: bool is not int, float is not int)",
    "gen/c13_config.py, gen/c13_src.py, gen/c13_mdit.py, gen/c13_pywalk.py (walker for control flow) and their domain mappings "
    "(meaning of atomic expressions / simple statements: coq/Cfg/CfgSrcPrelude.v, coq/Cfg/MdParserPrelude.v): isinstance -> isinst, "
    "len -> jv_len, x[k] / k in x -> total accessors behind the isinstance test of the same and/or chain, all(isinstance..) -> "
    "forallb, set(value) -> canonical str set, setattr(inst, field.name, x) -> the validator's result, setattr/getattr(new, ..) -> "
    "cfg_set/cfg_get on the copy, validate_field(new, ..) -> validate + the validator's own setattr applied to new, "
    "warning(MD_TOPMATTER, msg) -> a warning kind chosen by the head of the message, raise X(..) -> Raise X, importlib -> oracle "
    "e_import (ImportError, outside the model's enum, via a catch test), config.<field> -> cfg_val, MarkdownIt chains -> steps",
    "hand-modelled and tied by correspondence only: MdParserConfig.__init__/__post_init__/copy (dc.replace), validate_field(s), "
    "the docutils decoders (_validate_int, validate_boolean, validate_comma_separated_list, _create_validate_tuple/yaml, "
    "_validate_url_schemes), sphinx_ext.create_myst_config, dict invariants (unique keys), floats abstracted to (integral part, "
    "has-fraction), int()/lower() for ASCII",
]
ORACLES = {
    "O_yaml": "yaml.safe_load of a docutils option string: the parsed value is an input of the model (docutils correspondence cases)",
    "O_import": "importlib for heading_slug_func strings: a table (callable / non-callable / missing attribute / missing module) "
                "computed in the running interpreter on every run and given to the model",
    "O_optparse": "docutils.frontend.OptionParser calls the option validator once per option (exercised through the real OptionParser)",
    "O_linkify": "md.linkify is not None (linkify-it-py installed) is the parameter has_linkify of the parser description; both values are exercised",
}
ASSUMPTIONS = ["JSON/YAML typing: a bool is not an int, 2.0 is not an int; list and tuple are one sequence type",
               "docutils halt_level/report_level at the harness defaults",
               "front-matter/global equivalence of the RENDERED document is a search result (docutils front end; sub_delimiters/"
               "ref_domains through Sphinx); commonmark_only is excluded there (that parser has no front-matter rule)"]
LEVEL_TEXT = (
    "Proof (Coq, 26 theorems, all closed, coqchk). FULL: validators built from the dc_validators combinators and the check_* "
    "functions accept exactly the documented type (C13_combinators_sound_complete, induction on the type), for every row of the "
    "REGENERATED field table (C13_fields_match_types; bound = the 30 fields); stored values are fixed points of their validator "
    "and independent of the spelling (C13_normal_form, _set_spellings, _url_spellings); the constructor yields a stable instance; "
    "for every validated global config, field and value, front matter myst:{f:v} yields exactly config.copy(f=v) (dict options "
    "merged over the global value), an invalid value leaves the config unchanged with exactly one topmatter warning and would be "
    "rejected globally too (C13_frontmatter_equals_global, C13_invalid_ignored_once), the global config is never written "
    "(C13_global_untouched); docutils option strings and Sphinx conf values give the constructor's configuration "
    "(C13_docutils_strings_equal over the REGENERATED _attr_to_optparse_option chain, _int_roundtrip, _bool_spellings, "
    "_comma_list, C13_sphinx_conf_equal); C13_validator_code_reached lists the validator / option-decoding code no field reaches. "
    "SOURCE-TRANSLATION TIE: C13_source_refines_model (the closures of instance_of/optional/in_/deep_iterable/deep_mapping, all "
    "seven check_* validators and merge_file_level, REGENERATED statement by statement, equal the model), "
    "C13_fields_match_types_src, C13_frontmatter_equals_global_src; create_md_parser REGENERATED as config -> parser description: "
    "C13_extensions_all_handled (no accepted-but-ignored and no dead extension name across check_extensions / create_md_parser / "
    "the rest of the package), C13_parser_same_for_spellings, C13_only_modes_as_coded. Container sharing: C13_copy_o_is_copy, "
    "C13_inplace_written_fields_fresh (every field mutated in place at run time - REGENERATED list, today enable_extensions by "
    "figure-md - gets a fresh container in every copy). Tie: regenerated tables and code + differential correspondence + direct "
    "search oracle (see rule).")
LEVEL_NOTE = (
    "PARTIAL / refuted: C13_copy_shares_nothing_partial holds for always-coercing fields only; C13_copy_shares_refuted - the real "
    "code shares the containers of disable_syntax, ref_domains, number_code_blocks, html_meta, substitutions, suppress_warnings, "
    "inventories (and inner dicts of url_schemes/substitutions/inventories) between the global and the per-document config; nothing "
    "writes to them in place, so this is an observation, not a finding. C13_frontmatter_raw_assignment_refuted documents the "
    "pre-repair code. No open finding. Fix commits in /repo (each reproduced by the search first, baseline green): e1d7b46 "
    "(front matter keeps the coerced value / restores on invalid), 10e0b30 (int options reject bool/float), 428ced7 "
    "(heading_anchors=None), 5b78c1e (url_schemes classes), 28a219b (enable_extensions container type), 2fafaa5 (heading_slug_func "
    "AttributeError), e60d3ec (--myst-url-schemes strips items), 782b8eb (words_per_minute must be positive). Observations: "
    "commonmark_only/gfm_only ignore enable_extensions, disable_syntax and all other options (docs promise nothing else); "
    "global_only options set in front matter are applied to the per-document config like any other (no global_only test in the "
    "code). Limits: rendered-document equivalence is search-only; floats abstracted; int()/lower() ASCII; dict key uniqueness assumed.")
