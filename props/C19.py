"""C19 - inventory filtering implements exactly the documented wildcard semantics."""
import itertools
import re

from lib.common import enc_str, enc_ostr, dec_str, dec_ostr, model_run_parallel, src_hashes

PID = "C19"
RULE = ("correspondence: exhaustive (pattern,name) pairs over small alphabets + random pairs + generated "
        "inventories x filter quadruples, model (extracted Coq) vs myst_parser.inventory; search: the documented "
        "semantics re-implemented independently in Python vs the implementation, native vs Sphinx representation, "
        "inv: links rendered through the docutils front end; non-trivial = pattern contains '*' or '\\\\' "
        "or the filter result is neither empty nor everything")
TRUSTED = ["_create_regex / match_with_wildcard: translated from the source by gen/py2coq.py + gen/c19_wild.py (domain mapping: re.escape(c) -> PLit c, '.*' -> PStar, re.compile(r, re.DOTALL) -> (r, true)) and proved equal to the model (C19_wildcard_correct_src); filter_inventories / filter_sphinx_inventories / filter_string: translated by gen/c19_filters.py (nested for-loops with continue/yield -> structural Fixpoints) and proved equal to the models (C19_filter_exact_src, C19_native_equals_sphinx_src); render_link_inventory / get_inventory_matches: translated by gen/c19_link.py with urlparse and normalizeLinkText as Section-variable oracles (C19_inv_link_render_src); to_sphinx is translated under C18 (C18_inventory_src_refines)",
           "Python re: re.escape(c) matches exactly c; '.*' with DOTALL matches any run (exercised by the correspondence over a metacharacter alphabet)",
           "functools.lru_cache returns what the wrapped function returns"]
ORACLES = {"O_re": "re.compile(re.escape(c)) matches only c; '.*' under DOTALL matches every string: checked by comparing the model with re on all pairs over the metacharacter alphabet",
           "O_urlparse": "urllib.parse.urlparse splits inv:<path>#<fragment> (search on generated documents)"}
ASSUMPTIONS = ["dict iteration order = insertion order (CPython >= 3.7)"]


def gen(ctx):
    """Gen/WildSrc.v: _create_regex translated statement by statement from the source (gen/py2coq.py);
    Inv/WildSrcProofs.v proves it equal to the hand-written model, so the theorems hold for what the code says now."""
    import hashlib
    from lib import common
    from gen.c19_wild import generate
    ctx.gen_info["sources"] = src_hashes(["myst_parser/inventory.py"])
    text = generate(common.REPO)
    common.write_if_changed(common.COQ / "Gen" / "WildSrc.v", text)
    ctx.gen_info["Gen/WildSrc.v"] = hashlib.sha256(text.encode()).hexdigest()[:16]
    # filter_inventories / filter_sphinx_inventories / filter_string, statement by statement (walker: gen/c19_filters.py)
    from gen import c19_filters
    ctx.gen_info["Gen/FilterSrc.v"] = c19_filters.run(ctx)
    # render_link_inventory / get_inventory_matches (base.py, sphinx_.py), statement by statement (gen/c19_link.py)
    from gen import c19_link
    ctx.gen_info["Gen/InvLinkSrc.v"] = c19_link.run(ctx)


# ------------------------------------------------------------------ independent spec

def spec_match(p: str, n: str) -> bool:
    """Documented semantics: '*' any run, '\\*' literal star, anything else itself."""
    # tokenise pattern
    toks = []
    i = 0
    while i < len(p):
        if p[i] == "\\" and i + 1 < len(p) and p[i + 1] == "*":
            toks.append(("L", "*")); i += 2
        elif p[i] == "*":
            toks.append(("S", None)); i += 1
        else:
            toks.append(("L", p[i])); i += 1
    # dynamic programming
    cur = {0}
    for kind, ch in toks:
        nxt = set()
        if kind == "S":
            if cur:
                m = min(cur)
                nxt = set(range(m, len(n) + 1))
        else:
            for k in cur:
                if k < len(n) and n[k] == ch:
                    nxt.add(k + 1)
        cur = nxt
        if not cur:
            return False
    return len(n) in cur


def words(alpha, maxlen):
    for k in range(maxlen + 1):
        for t in itertools.product(alpha, repeat=k):
            yield "".join(t)


def rand_word(rng, alpha, maxlen):
    return "".join(rng.choice(alpha) for _ in range(rng.randint(0, maxlen)))


def pair_stream(ctx):
    small = ctx.budget(3, 4, 4)
    a1 = "ab*\\."
    w1 = list(words(a1, small))
    for p in w1:
        for n in w1:
            yield p, n
    a2 = "a*\\.[(+?$^|\n"
    w2 = list(words(a2, ctx.budget(2, 3, 3)))
    for p in w2:
        for n in w2:
            yield p, n
    rng = ctx.rng
    a3 = "ab*\\.-_ \n\té[]{}()+?^$|"
    for _ in range(ctx.budget(20000, 300000, 300000)):
        p = rand_word(rng, a3, 10)
        # names derived from the pattern so that matches are frequent
        if rng.random() < 0.7:
            n = "".join(rand_word(rng, "ab\n*", 3) if c == "*" else c for c in p.replace("\\*", "\x00")).replace("\x00", "*")
            if rng.random() < 0.3:
                n = n + rng.choice(a3)
        else:
            n = rand_word(rng, a3, 10)
        yield p, n


def gen_inventories(rng, wf=False):
    def name(al="abc*.:-"):
        if wf:
            al = al.replace(":", "")
        return rand_word(rng, al, 3) or "x"
    invs = {}
    for _ in range(rng.randint(0, 3)):
        objs = {}
        for _ in range(rng.randint(0, 3)):
            d = objs.setdefault(name("abpy*"), {})
            for _ in range(rng.randint(0 if not wf else 1, 3)):
                t = d.setdefault(name(), {})
                for _ in range(rng.randint(0 if not wf else 1, 3)):
                    txt = rng.choice([None, "t", "some text"] + ([] if wf else ["", "-"]))
                    t[name("abc*.\\ ")] = {"loc": name("abc/#$"), "text": txt}
        if wf:
            objs = {d: {t: e for t, e in ts.items() if e} for d, ts in objs.items()}
            objs = {d: ts for d, ts in objs.items() if ts}
        invs[name("abk*")] = {"name": rng.choice(["proj", "", "P q"]), "version": rng.choice(["1.0", ""]),
                              "base_url": None if wf else rng.choice([None, "https://x.org/", "base"]), "objects": objs}
    return invs


def rand_pat(rng):
    if rng.random() < 0.35:
        return None
    return rng.choice(["*", "a*", "*a", "a", "ab", "*b*", "\\*", "a\\*", "py", "p*", "", "*:*", "c*.", "*\\"]) \
        if rng.random() < 0.7 else rand_word(rng, "abc*\\.", 4)


def enc_invs(invs):
    toks = []
    for k, inv in invs.items():
        toks += ["I", enc_str(k), enc_str(inv["name"]), enc_str(inv["version"]), enc_ostr(inv["base_url"])]
        for d, ts in inv["objects"].items():
            toks += ["D", enc_str(d)]
            for t, es in ts.items():
                toks += ["T", enc_str(t)]
                for n, it in es.items():
                    toks += ["E", enc_str(n), enc_str(it["loc"]), enc_ostr(it["text"])]
    return toks


def dec_matches(line):
    if line == ".":
        return []
    out = []
    for m in line.split(" "):
        f = m.split("|")
        out.append((dec_str(f[0]), dec_str(f[1]), dec_str(f[2]), dec_str(f[3]), dec_str(f[4]), dec_str(f[5]),
                    dec_ostr(f[6]), dec_str(f[7]), dec_ostr(f[8])))
    return out


def mt(m):
    return (m.inv, m.domain, m.otype, m.name, m.project, m.version, m.base_url, m.loc, m.text)


def corr(ctx):
    from myst_parser import inventory as I
    if not ctx.have_runner:
        return
    pairs = list(dict.fromkeys(pair_stream(ctx)))
    lines = ["match\t%s\t%s" % (enc_str(n), enc_str(p)) for p, n in pairs]
    outs = model_run_parallel(PID, lines)
    for (p, n), o in zip(pairs, outs):
        try:
            r = "1" if I.match_with_wildcard(n, p) else "0"
        except Exception as e:
            r = "!" + type(e).__name__
        ctx.corr_cases += 1
        if "*" in p or "\\" in p:
            ctx.nontriv(("m", p, n))
        ctx.count("match:" + ("hit" if r == "1" else "miss" if r == "0" else "exc"))
        if r != o:
            if len(ctx.disagreements) < 50:
                ctx.disagree("match_with_wildcard", {"kind": "match", "pattern": p, "name": n}, r, o)
            else:
                ctx.disagreements.append(None) if False else None
    ctx.sample({"pattern": pairs[len(pairs) // 2][0], "name": pairs[len(pairs) // 2][1]})
    # filters
    rng = ctx.rng
    cases, lines = [], []
    for _ in range(ctx.budget(1500, 20000, 20000)):
        invs = gen_inventories(rng)
        q = [rand_pat(rng) for _ in range(4)]
        cases.append((invs, q))
        lines.append("\t".join(["filter"] + [enc_ostr(x) for x in q] + enc_invs(invs)))
    outs = model_run_parallel(PID, lines)
    for (invs, q), o in zip(cases, outs):
        try:
            r = [mt(m) for m in I.filter_inventories(invs, invs=q[0], domains=q[1], otypes=q[2], targets=q[3])]
        except Exception as e:
            r = "!" + type(e).__name__
        mo = dec_matches(o) if not o.startswith("!") else o
        ctx.corr_cases += 1
        total = sum(len(es) for inv in invs.values() for ts in inv["objects"].values() for es in ts.values())
        if isinstance(r, list) and 0 < len(r) < total:
            ctx.nontriv(("f", repr(invs), tuple(q)))
        ctx.count("filter:" + ("exc" if not isinstance(r, list) else "empty" if not r else "all" if len(r) == total else "some"))
        if r != mo:
            ctx.disagree("filter_inventories", {"kind": "filter", "invs": invs, "q": q}, repr(r)[:500], repr(mo)[:500])
    if cases:
        ctx.sample({"filter": cases[0][1], "inventories": cases[0][0]})
    corr_invlinks(ctx)
    # Sphinx in-memory representation: to_sphinx + filter_sphinx_inventories (arbitrary, also non-wf, inventories)
    cases, lines = [], []
    for i in range(ctx.budget(1500, 20000, 20000)):
        invs = gen_inventories(rng, wf=(i % 2 == 0))
        q = [rand_pat(rng) for _ in range(4)]
        cases.append((invs, q))
        lines.append("\t".join(["sfilter"] + [enc_ostr(x) for x in q] + enc_invs(invs)))
    outs = model_run_parallel(PID, lines)
    for (invs, q), o in zip(cases, outs):
        try:
            sph = {k: I.to_sphinx(inv) for k, inv in invs.items()}
            r = [mt(m) for m in I.filter_sphinx_inventories(sph, invs=q[0], domains=q[1], otypes=q[2], targets=q[3])]
        except Exception as e:
            r = "!" + type(e).__name__
        mo = dec_matches(o) if not o.startswith("!") else o
        ctx.corr_cases += 1
        ctx.count("sfilter:" + ("exc" if not isinstance(r, list) else "empty" if not r else "some"))
        if isinstance(r, list) and r:
            ctx.nontriv(("s", repr(invs), tuple(q)))
        if r != mo:
            ctx.disagree("filter_sphinx_inventories(to_sphinx)", {"kind": "filter", "invs": invs, "q": q, "wf": False},
                         repr(r)[:500], repr(mo)[:500])


def corr_invlinks(ctx):
    """render_link_inventory through the docutils front end vs the model, one link per document."""
    import io as _io
    import os
    from docutils import nodes
    from myst_parser import inventory as I
    from lib.impl import publish, parse_warnings, scratch_dir
    rng = ctx.rng
    cases, lines = [], []
    with scratch_dir() as d:
        for i in range(ctx.budget(150, 1500, 1500)):
            c = gen_invlink_case(rng)
            link = c["links"][rng.randrange(len(c["links"]))]
            if c["entries"] and rng.random() < 0.7:
                # mostly-valid stream: derive the link from an existing entry so that one / several entries match
                e = rng.choice(c["entries"])
                link = [rng.choice(["k", "*", None]), None, None, rng.choice([e[2].replace("*", "\\*"), e[2][:1] + "*", "*"])]
                if link[0] is not None and rng.random() < 0.7:
                    link[1] = rng.choice([e[0], "*", e[0][:1] + "*"])
                    if rng.random() < 0.7:
                        link[2] = rng.choice([e[1], "*", e[1][:1] + "*"])
            pi, pd, po, pt = link
            explicit = rng.random() < 0.5
            base = rng.choice(["https://e.org/base", "https://e.org/base/", "", "rel", "/abs/"])
            entries = [list(e) for e in c["entries"]]
            if rng.random() < 0.3 and entries:
                entries[0][3] = "/abs.html#$"
            data = make_inv_bytes([tuple(e) for e in entries])
            path = os.path.join(d, f"o{i}.inv")
            with open(path, "wb") as f:
                f.write(data)
            path_s = ":".join(x for x in (pi, pd, po) if x is not None)
            text = f"[{'text' if explicit else ''}](<inv:{path_s}#{pt}>)\n"
            try:
                doc, ws = publish(text, {"myst_inventories": {"k": (base, path)}})
                warns = [w["tag"] for w in parse_warnings(ws) if (w["tag"] or "").startswith("myst.i")]
                refs = [r for r in doc.findall(nodes.reference) if "inv_match" in r]
                if not refs:
                    obs = "missing" if warns == ["myst.iref_missing"] else "!" + repr(warns)
                else:
                    r = refs[0]
                    kind = "children" if explicit else ("literal:" + enc_str(r[0].astext()) if isinstance(r[0], nodes.literal)
                                                         else "text:" + enc_str(r[0].astext()))
                    amb = "ambiguous" if warns == ["myst.iref_ambiguous"] else "one" if not warns else "!" + repr(warns)
                    obs = f"{amb} {enc_str(r['refuri'])} {kind}"
            except Exception as e:
                obs = "!" + type(e).__name__
            inv = I.load(_io.BytesIO(data), base_url=base)
            cases.append(({"kind": "invlink", "entries": entries, "links": [link], "text": text, "base": base}, obs))
            lines.append("\t".join(["invlink", "1" if explicit else "0"] + [enc_ostr(x) for x in (pi, pd, po, pt)] + enc_invs({"k": inv})))
    outs = model_run_parallel(PID, lines)
    for (case, obs), o in zip(cases, outs):
        ctx.corr_cases += 1
        ctx.count("invlink:" + obs.split(" ")[0])
        if obs.split(" ")[0] in ("one", "ambiguous"):
            ctx.nontriv(("l", case["text"], repr(case["entries"]), case["base"]))
        if obs != o:
            ctx.disagree("render_link_inventory", case, obs, o)


# ------------------------------------------------------------------ direct property oracle

def check_case(ctx, case):
    from myst_parser import inventory as I
    k = case["kind"]
    if k == "match":
        p, n = case["pattern"], case["name"]
        want = spec_match(p, n)
        try:
            got = I.match_with_wildcard(n, p)
        except Exception as e:
            got = "!" + type(e).__name__
        if got != want:
            sig = "wildcard:" + ("exception" if isinstance(got, str) else
                                 "trailing-backslash" if p.endswith("\\") and not p.endswith("\\\\") and False else "semantics")
            ctx.fail(sig, case, f"match_with_wildcard({n!r}, {p!r}) = {got}, documented semantics gives {want}",
                     expected=want, observed=got)
            return False
        return True
    if k == "filter":
        invs, q = case["invs"], case["q"]
        flat = []
        for ik, inv in invs.items():
            for d, ts in inv["objects"].items():
                for t, es in ts.items():
                    for n, it in es.items():
                        flat.append((ik, d, t, n, inv["name"], inv["version"], inv["base_url"], it["loc"], it["text"]))
        want = [m for m in flat if all(q[i] is None or spec_match(q[i], m[i]) for i in range(4))]
        try:
            got = [mt(m) for m in I.filter_inventories(invs, invs=q[0], domains=q[1], otypes=q[2], targets=q[3])]
        except Exception as e:
            got = "!" + type(e).__name__
        if got != want:
            ctx.fail("filter:native", case, "filter_inventories differs from filtering the flattened entries",
                     expected=repr(want)[:800], observed=repr(got)[:800])
            return False
        if case.get("wf"):
            sph = {ik: I.to_sphinx(inv) for ik, inv in invs.items()}
            got2 = [mt(m) for m in I.filter_sphinx_inventories(sph, invs=q[0], domains=q[1], otypes=q[2], targets=q[3])]
            if got2 != want:
                ctx.fail("filter:sphinx-repr", case, "filter_sphinx_inventories(to_sphinx(.)) differs from the native filter",
                         expected=repr(want)[:800], observed=repr(got2)[:800])
                return False
        return True
    if k == "invlink":
        return check_invlink(ctx, case)
    if k == "sphinxmethod":
        return check_sphinx_method(ctx, case)
    return True


_SPHINX_RENDERER = []


def sphinx_renderer(named):
    """a real SphinxRenderer whose document's env carries `named` as the intersphinx named inventory"""
    from types import SimpleNamespace
    from docutils.utils import new_document
    from myst_parser.config.main import MdParserConfig
    from myst_parser.mdit_to_docutils.sphinx_ import SphinxRenderer
    from myst_parser.parsers.mdit import create_md_parser
    cfg = MdParserConfig()
    md = create_md_parser(cfg, SphinxRenderer)
    doc = new_document("<c19>")
    doc.settings.env = SimpleNamespace(intersphinx_cache={}, intersphinx_inventory={}, intersphinx_named_inventory=named,
                                       docname="index", srcdir="")
    md.renderer.setup_render({"document": doc, "myst_config": cfg}, {})
    return md.renderer


def check_sphinx_method(ctx, case):
    """SphinxRenderer.get_inventory_matches on an intersphinx table given as an ORDERED list of
    (inventory, 'domain:type', [(name, project, version, loc, text)]) - the order in which Sphinx filled the dicts -
    queried several times on ONE renderer (any per-document cache shows up); expected: the entries whose coordinates
    match, in that order."""
    named = {}
    for ik, dt, items in case["tables"]:
        tbl = named.setdefault(ik, {}).setdefault(dt, {})
        for n, proj, ver, loc, txt in items:
            tbl[n] = (proj, ver, loc, txt)
    flat = [(ik, dt.split(":", 1)[0], dt.split(":", 1)[1], n) + tuple(it) for ik, dts in named.items()
            for dt, es in dts.items() for n, it in es.items()]
    try:
        r = sphinx_renderer(named)
    except Exception as e:
        ctx.fail("sphinxmethod:harness:" + type(e).__name__, case, f"cannot build a SphinxRenderer: {e!r}")
        return False
    for q in case["queries"]:
        want = [(m[0], m[1], m[2], m[3], m[6]) for m in flat if all(q[i] is None or spec_match(q[i], m[i]) for i in range(4))]
        try:
            got = [(m.inv, m.domain, m.otype, m.name, m.loc) for m in
                   r.get_inventory_matches(invs=q[0], domains=q[1], otypes=q[2], target=q[3])]
        except Exception as e:
            got = "!" + type(e).__name__ + ": " + str(e)[:100]
        if got != want:
            ctx.fail("invlink:sphinx-matches", case,
                     f"SphinxRenderer.get_inventory_matches{tuple(q)!r} differs from the matching entries in inventory order",
                     expected=repr(want)[:800], observed=repr(got)[:800])
            return False
    return True


def gen_sphinx_method_case(rng):
    doms = ["py", "std", "c", "a*"]
    typs = ["function", "label", "doc", "class", "m"]
    names = ["a", "ab", "item_a", "item_c", "b.c", "x*y"]
    tables, seen = [], set()
    for ik in rng.sample(["k", "proj", "z"], rng.randint(1, 2)):
        for _ in range(rng.randint(1, 5)):
            dt = rng.choice(doms) + ":" + rng.choice(typs)      # drawn independently: domains interleave
            if (ik, dt) in seen:
                continue
            seen.add((ik, dt))
            items = [[n, "P", "1", rng.choice(["p.html#$", "q.html", "r/" + n.replace("*", "") + ".html"]), rng.choice(["-", "T"])]
                     for n in rng.sample(names, rng.randint(1, 3))]
            tables.append([ik, dt, items])
    pats = [["k", "*", "proj", None, "z*"], ["*", None, "py", "s*", "std", "a\\*"],
            ["*", None, "*c*", "label", "f*", "doc"], ["*", "item_*", "a*", "a", "*b*", "x\\*y", "zz"]]
    queries = []
    for _ in range(rng.randint(1, 4)):
        q = [rng.choice(pats[i]) for i in range(4)]
        if q[3] is None:
            q[3] = "*"
        queries.append(q)
    return {"kind": "sphinxmethod", "tables": tables, "queries": queries}


def make_inv_bytes(entries, project="proj", version="1.0"):
    import zlib
    body = "".join(f"{n} {dom}:{typ} 1 {loc} {txt}\n" for (dom, typ, n, loc, txt) in entries)
    return (f"# Sphinx inventory version 2\n# Project: {project}\n# Version: {version}\n"
            "# The remainder of this file is compressed using zlib.\n").encode() + zlib.compress(body.encode())


def check_invlink(ctx, case):
    import os
    from lib.impl import publish, parse_warnings, scratch_dir
    entries = [tuple(e) for e in case["entries"]]
    with scratch_dir() as d:
        path = os.path.join(d, "objects.inv")
        with open(path, "wb") as f:
            f.write(make_inv_bytes(entries))
        text = case["text"]
        try:
            doc, ws = publish(text, {"myst_inventories": {"k": (case.get("base", "https://e.org/base"), path)}})
        except Exception as e:
            ctx.fail("invlink:exception:" + type(e).__name__, case, f"inv link document raised {e!r}")
            return False
    from docutils import nodes
    warns = [w for w in parse_warnings(ws) if (w["tag"] or "").startswith("myst.iref") or (w["tag"] or "") == "myst.inv_load"]
    refs = [r for r in doc.findall(nodes.reference) if "inv_match" in r]
    ok = True
    exp_w, exp_refs = [], []
    # "inventory order" = iteration order of the loaded inventory: domains, then object types, then
    # names, each in order of first appearance in the file
    dorder, torder = {}, {}
    for e in entries:
        dorder.setdefault(e[0], len(dorder))
        torder.setdefault((e[0], e[1]), len(torder))
    ordered = sorted(entries, key=lambda e: (dorder[e[0]], torder[(e[0], e[1])]))
    for (pi, pd, po, pt) in case["links"]:
        ms = [e for e in ordered if (pi is None or spec_match(pi, "k")) and (pd is None or spec_match(pd, e[0]))
              and (po is None or spec_match(po, e[1])) and spec_match(pt, e[2])]
        # implementation keeps the last of duplicate (domain,type,name) entries (dict); generator avoids duplicates
        if not ms:
            exp_w.append("myst.iref_missing")
        else:
            if len(ms) > 1:
                exp_w.append("myst.iref_ambiguous")
            e = ms[0]
            loc = e[3][:-1] + e[2] if e[3].endswith("$") else e[3]
            base = case.get("base", "https://e.org/base")
            exp_refs.append(loc if (not base or loc.startswith("/")) else base + loc if base.endswith("/") else base + "/" + loc)
    got_w = [w["tag"] for w in warns]
    got_refs = [r["refuri"] for r in refs]
    if got_w != exp_w or got_refs != exp_refs:
        ctx.fail("invlink:semantics", case, "inv: link warnings/refuris differ from the documented behaviour",
                 expected={"warnings": exp_w, "refuris": exp_refs}, observed={"warnings": got_w, "refuris": got_refs})
        ok = False
    return ok


def gen_invlink_case(rng):
    names = ["a", "ab", "b.c", "mod", "x*y", "f"]
    doms = [("py", "function"), ("py", "module"), ("std", "label"), ("c", "function")]
    entries, seen = [], set()
    for _ in range(rng.randint(1, 6)):
        d, t = rng.choice(doms)
        n = rng.choice(names)
        if (d, t, n) in seen:
            continue
        seen.add((d, t, n))
        entries.append([d, t, n, rng.choice(["p.html#$", "q.html", "r/s.html#" + n.replace("*", "")]), rng.choice(["-", "Txt"])])
    links, parts = [], []
    # links of one document vary one coordinate at a time around a base quadruple, so that any state
    # carried from one link to the next (caches, reused match lists) shows up
    base = [rng.choice(["k", "*"]), rng.choice(["py", "*", "s*", "c"]), rng.choice(["function", "*", "m*", "module", "label"]),
            rng.choice(names + ["*", "a*", "x\\*y", "zz", "*b*"])]
    for _ in range(rng.randint(1, 5)):
        q = list(base)
        r = rng.random()
        if r < 0.6:
            i = rng.randrange(4)
            q[i] = rng.choice([["k", "*", "z"], ["py", "*", "s*", "c", "std"], ["function", "*", "m*", "module", "label", "f*"],
                               names + ["*", "a*", "x\\*y", "zz", "*b*"]][i])
        elif r < 0.8:
            cut = rng.randrange(3)      # omit trailing path parts: inv:#t, inv:k#t, inv:k:py#t
            q = q[:cut] + [None] * (3 - cut) + [q[3]]
        pi, pd, po, pt = q
        path = ":".join(x for x in (pi, pd, po) if x is not None)
        if (pi is None and (pd is not None or po is not None)) or (pd is None and po is not None):
            continue
        links.append([pi, pd, po, pt])
        txt = rng.choice(["", "text"])
        parts.append(f"[{txt}](<inv:{path}#{pt}>)")
    if not links:
        links.append([None, None, None, "a"]); parts.append("[](<inv:#a>)")
    return {"kind": "invlink", "entries": entries, "links": links, "text": "\n\n".join(parts) + "\n"}


def search(ctx):
    # suspects first
    for c in ctx.suspects[:200]:
        if c:
            ctx.search_cases += 1
            check_case(ctx, c)
    n_fail = 0
    for p, n in pair_stream(ctx):
        ctx.search_cases += 1
        if not check_case(ctx, {"kind": "match", "pattern": p, "name": n}):
            n_fail += 1
            if n_fail > 20:
                break
    rng = ctx.rng
    for i in range(ctx.budget(1500, 20000, 20000)):
        wf = i % 2 == 0
        case = {"kind": "filter", "invs": gen_inventories(rng, wf=wf), "q": [rand_pat(rng) for _ in range(4)], "wf": wf}
        ctx.search_cases += 1
        check_case(ctx, case)
    for i in range(ctx.budget(250, 2500, 2500)):
        case = gen_invlink_case(rng)
        ctx.search_cases += 1
        ctx.count("invlink")
        if i == 0:
            ctx.sample(case)
        check_case(ctx, case)
    # the Sphinx front end's matcher on intersphinx tables whose 'domain:type' keys interleave domains
    for i in range(ctx.budget(300, 3000, 3000)):
        case = gen_sphinx_method_case(rng)
        ctx.search_cases += 1
        ctx.count("sphinx-method")
        if len({t[1].split(":")[0] for t in case["tables"]}) > 1:
            ctx.nontriv(("sphinx-method", i))
        check_case(ctx, case)


def replay(ctx, data):
    w = data.get("witness")
    if not w:
        print("replay file names no concrete input:", data.get("no_longer_checks"))
        return 1
    ok = check_case(ctx, w)
    print("replay:", "property holds on this input" if ok else ctx.failures[-1])
    return 0 if ok else 1

LEVEL_TEXT = ("Proof (Coq 8.16, 14 theorems, all closed under the global context): for every pattern and name the matcher accepts "
              "exactly the documented wildcard language - '*' any run (newlines included), '\\*' a literal star, any other character "
              "itself (C19_wildcard_correct, no premise); the nested filter loops equal filtering the flattened entry list on the four "
              "coordinates in inventory order (C19_filter_exact); the Sphinx in-memory representation of well-formed inventories "
              "filters to the same entries in the same order (C19_native_equals_sphinx; the premise is shown necessary by "
              "C19_sphinx_text_refuted); an inv: link renders nothing but one iref_missing warning for no match, else the FIRST match with "
              "one iref_ambiguous warning iff several, refuri = location joined to the base URL, text = explicit text / display text / "
              "name (C19_inv_link, C19_inv_link_render); inventories are loaded once per document (C19_inventories_loaded_once). "
              "Tie to the code, checked on every run: (a) _create_regex, match_with_wildcard, filter_inventories, "
              "filter_sphinx_inventories, filter_string, render_link_inventory and get_inventory_matches are REGENERATED from the source "
              "statement by statement (gen/py2coq.py, gen/c19_*.py) and proved equal to the models, and every statement above is "
              "restated on the regenerated code (C19_*_src) - a source edit breaks gen or a refinement proof; (b) differential "
              "correspondence of the extracted model with the implementation: all (pattern,name) pairs up to length 3/4 over "
              "'a b * \\ .' and 2/3 over regex metacharacters, random pairs, generated inventories x filter quadruples in both "
              "representations, single-link documents through the docutils front end with varied base URLs; (c) direct oracle: an "
              "independent implementation of the documented semantics, brute-force filtering, documents with several inv: links, and the "
              "real SphinxRenderer.get_inventory_matches on generated intersphinx tables whose domain:type keys interleave domains.")
LEVEL_NOTE = ("Trusted base: Coq kernel (no axioms; coqchk in the thorough tier); the translators gen/py2coq.py + gen/c19_wild.py / "
              "c19_filters.py / c19_link.py with their domain mappings (re.escape(c) -> PLit c, '.*' -> PStar, "
              "re.compile(r, re.DOTALL) -> (r, true); dict .items() loops -> list recursion; urlparse and markdown-it's "
              "normalizeLinkText as Section-variable oracles); Python re (escape / '.*' / DOTALL / fullmatch) as oracle O_re, exercised "
              "by the correspondence over a metacharacter alphabet; functools.lru_cache; posixpath.join as modelled by C18's pjoin "
              "(C18_posixpath_join). to_sphinx is regenerated under C18. Two defects were repaired (fix 5ab8487: trailing backslash "
              "dropped; '*' did not match a newline); no open finding.")
