"""C08 - directive text splits into arguments, options, body without loss or leakage."""
import itertools
import os
import random
import re

from lib.common import enc_str, enc_strs, dec_str, dec_strs, model_run, src_hashes

PID = "C08"
RULE = ("correspondence: extracted Coq model of parse_directive_text vs the implementation - exhaustive contents over the "
        "9-line vocabulary (<=5 lines quick / <=6 thorough) x first-line variants x trailing-newline variants for one "
        "representative class per distinct directive signature, random contents (own option keys, unicode whitespace, "
        "all line separators, long bodies, additional_options, validate_options=False) for ALL registered docutils+Sphinx "
        "directive classes; the option tokenizer / converters / yaml / dedent results are captured from the implementation run "
        "and handed to the model as tables keyed by their argument (a different option block = table miss = disagreement); "
        "search: the property clauses re-computed independently in Python from the content lines (split at CRLF/CR/LF); "
        "document level: sequences of 2-3 directives of related classes (Include / admonition / image-figure / code / table "
        "families: the docutils classes + subclasses with different option_specs registered by the harness) rendered in one "
        "document in every order - each directive's parse inside run_directive (class spec, arguments, options, warnings, body) "
        "must equal the parse of the same directive rendered alone and parse_directive_text on the class registered under its "
        "name; "
        "non-trivial = content has an option block, or arguments are parsed, or a warning/MarkupError results")
TRUSTED = ["gen/c08_dirsrc.py: statement-by-statement translation of split_lines / parse_directive_arguments / "
           "_parse_directive_options / parse_directive_text into coq/Gen/DirSrc.v, proved equal to the model (C08_src_refines_model); "
           "trusted there: the walker itself and its domain mapping (coq/Dir/PyRuntime.v: _RE_NEWLINE.split, lines[-1], "
           "split(None, k), `x or \"\"`, yaml `or {}` / isinstance dict, re.search('^-{3,}', MULTILINE) = first line starting with "
           "'---'; str methods -> PyLines; externals -> tokenize / yaml_load / opt_known / opt_conv / opt_is_flag / is_test; "
           "ParseWarnings -> constructor by type argument and interpolated names, not by wording)",
           "coq/Dir/DirModel.v + PyLines.v are hand transcriptions of parse_directive_text/_parse_directive_options/"
           "parse_directive_arguments and of str.splitlines/strip/split/join/textwrap.dedent (checked by correspondence, not proved)",
           "Python re: '^-{3,}' with MULTILINE on a '\\n'-joined text finds the first line starting with '---'",
           "options_to_items (other team's model, C07), docutils option converters, yaml.safe_load: oracles (tables)"]
ORACLES = {
    "tokenize": "options_to_items(block): Section variable; exercised by every correspondence case with an option block "
                "(captured call -> table); C08_styles_interchangeable additionally assumes O_tok_nl (a final newline does not "
                "change the items nor the comments flag of a block of unindented single-line pairs): checked in search on the real "
                "tokenizer; C08_styles_interchangeable_c07_partial instantiates the oracle with the C07 model (coq/Dir/DirTokenizer.v)",
    "opt_conv": "option_spec[name](value): per-signature function into res; captured per case",
    "yaml_load": "yaml.safe_load (validate_options=False path): captured per case",
    "O_re_multiline": "re.search('^-{3,}', MULTILINE) = first line starting with '---' (lines hold no separator): dash-style cases",
    "dedent": "textwrap.dedent is modelled (PyLines.dedent), compared through the captured option block of every dash-style case",
}
ASSUMPTIONS = ["dict iteration order = insertion order (CPython >= 3.7)",
               "Unicode whitespace class of the running interpreter and the line separators of directives.split_lines (regenerated into Gen/C08Unicode.v)"]

VOCAB = [":class: x", ":bad: v", ":name:", "", "text", "---", "----", "class: x", "  cont"]
FIRST_LINES = ["", "one", "two words", "many words in  a row "]


def gen(ctx):
    from gen import c08_unicode, c08_dirsrc
    from lib import common
    c08_unicode.generate(ctx)
    # source-translation tie: the four functions of directives.py regenerated as Gallina (fail-closed)
    text = c08_dirsrc.generate(common.REPO)
    changed = common.write_if_changed(common.COQ / "Gen" / "DirSrc.v", text)
    ctx.gen_info["DirSrc"] = {"lines": text.count("\n"), "rewritten": changed}
    ctx.gen_info["sources"] = src_hashes(["myst_parser/parsers/directives.py"])


# ------------------------------------------------------------------ registry

_CLASSES = None


def directive_classes():
    """label -> class, for every docutils registry entry and every Directive subclass of the Sphinx built-ins."""
    global _CLASSES
    if _CLASSES is not None:
        return _CLASSES
    import importlib
    from docutils.parsers.rst import Directive, directives
    out = {}
    for name, (mod, cls) in sorted(directives._directive_registry.items()):
        m = importlib.import_module("docutils.parsers.rst.directives." + mod)
        out["docutils:" + name] = getattr(m, cls)
    import sphinx.application
    mods = list(sphinx.application.builtin_extensions) + [
        "sphinx.ext.autodoc", "sphinx.ext.autodoc.directive", "sphinx.ext.autosummary", "sphinx.ext.doctest",
        "sphinx.ext.graphviz", "sphinx.ext.ifconfig", "sphinx.ext.inheritance_diagram", "sphinx.ext.todo",
        "sphinx.directives.code", "sphinx.directives.other", "sphinx.directives.patches"]
    for ext in mods:
        try:
            importlib.import_module(ext)
        except Exception:
            pass

    def subs(c):
        for s in c.__subclasses__():
            yield s
            yield from subs(s)
    seen = set(out.values())
    for s in sorted(subs(Directive), key=lambda c: (c.__module__, c.__qualname__)):
        if s in seen or not (s.__module__.startswith("sphinx") or s.__module__.startswith("docutils")):
            continue
        seen.add(s)
        out[s.__module__ + "." + s.__qualname__] = s
    _CLASSES = out
    return out


def signature(cls):
    from docutils.parsers.rst.directives import flag
    from docutils.parsers.rst.directives.misc import TestDirective
    spec = cls.option_spec or {}
    return {"has_spec": bool(cls.option_spec), "keys": list(spec), "flags": [k for k, v in spec.items() if v is flag],
            "allkeys": known_key(spec, "\x00no-such-key"),
            "req": cls.required_arguments, "opt": cls.optional_arguments, "fws": bool(cls.final_argument_whitespace),
            "has_content": bool(cls.has_content), "is_test": issubclass(cls, TestDirective)}


def known_key(spec, k):
    """options_spec[name] does not raise KeyError (sphinx autodoc's DummyOptionSpec accepts every key)."""
    try:
        spec[k]
    except KeyError:
        return False
    return True


def sig_key(cls):
    s = signature(cls)
    return (s["has_spec"], s["req"], s["opt"], s["fws"], s["has_content"], s["is_test"])


PREFERRED = ["docutils:note", "docutils:image", "docutils:figure", "sphinx.directives.code.CodeBlock", "docutils:table",
             "docutils:admonition", "docutils:epigraph", "docutils:title", "docutils:contents", "docutils:rubric",
             "docutils:restructuredtext-test-directive", "docutils:sectnum", "docutils:math", "docutils:class",
             "docutils:default-role", "sphinx.directives.code.Highlight"]


def representatives():
    """one class per distinct signature, preferred names first."""
    cl = directive_classes()
    reps, seen = [], set()
    for lab in PREFERRED + sorted(cl):
        if lab in cl and sig_key(cl[lab]) not in seen:
            seen.add(sig_key(cl[lab]))
            reps.append(lab)
    return reps


# ------------------------------------------------------------------ observing the implementation

_KIND = {}


def wkind(w):
    t = getattr(w.type, "value", str(w.type))
    return {"directive_parse": "P", "directive_option": "O", "directive_comments": "C"}.get(t, "?" + t)


class Capture:
    """patches the externals of myst_parser.parsers.directives to record (argument -> result)."""

    def __enter__(self):
        from myst_parser.parsers import directives as D
        self.D = D
        self.tok, self.yam = [], []
        self._o2i, self._yaml = D.options_to_items, D.yaml
        cap = self

        def o2i(block, *a, **k):
            try:
                items, state = cap._o2i(block, *a, **k)
            except D.TokenizeError:
                cap.tok.append((block, "tokerr", False, []))
                raise
            except Exception as e:
                cap.tok.append((block, "exc:" + type(e).__name__, False, []))
                raise
            cap.tok.append((block, "ok", bool(state.has_comments), [(str(a), str(b)) for a, b in items]))
            return items, state

        class Y:
            parser = cap._yaml.parser
            scanner = cap._yaml.scanner

            @staticmethod
            def safe_load(text):
                try:
                    r = cap._yaml.safe_load(text)
                except (cap._yaml.parser.ParserError, cap._yaml.scanner.ScannerError):
                    cap.yam.append((text, "err", []))
                    raise
                except Exception as e:
                    cap.yam.append((text, "exc:" + type(e).__name__, []))
                    raise
                if not r:
                    cap.yam.append((text, "falsy", []))
                elif not isinstance(r, dict):
                    cap.yam.append((text, "notdict", []))
                else:
                    cap.yam.append((text, "dict", [(str(k), repr(v)) for k, v in r.items()]))
                return r
        D.options_to_items = o2i
        D.yaml = Y
        return self

    def __exit__(self, *a):
        self.D.options_to_items = self._o2i
        self.D.yaml = self._yaml


def observe(case):
    """run parse_directive_text; canonical observation (+ captured oracle tables)."""
    from myst_parser.parsers.directives import MarkupError, parse_directive_text
    cls = directive_classes()[case["cls"]]
    with Capture() as cap:
        try:
            r = parse_directive_text(cls, case["first"], case["content"], line=case.get("line"),
                                     validate_options=case.get("validate", True),
                                     additional_options=case.get("additional"))
        except MarkupError:
            return {"exc": "MarkupError", "tok": cap.tok, "yam": cap.yam}
        except Exception as e:
            return {"exc": type(e).__name__, "tok": cap.tok, "yam": cap.yam, "msg": repr(e)[:200]}
    raw = signature(cls)["is_test"] and case.get("validate", True)    # TestDirective keeps the raw strings
    opts = sorted((str(k), (v if (raw and isinstance(v, str)) else repr(v))) for k, v in r.options.items())
    return {"args": list(r.arguments), "opts": opts, "body": list(r.body), "offset": r.body_offset,
            "warns": [(wkind(w), w.lineno) for w in r.warnings], "msgs": [w.msg for w in r.warnings],
            "tok": cap.tok, "yam": cap.yam}


def conv_table(cls, pairs):
    """(key, value) -> outcome of the directive's own converter, for the model's opt_conv table."""
    from docutils.parsers.rst.directives import flag
    spec = cls.option_spec or {}
    out, seen = [], set()
    for k, v in pairs:
        if not known_key(spec, k):
            continue
        val = v if v else None
        if spec[k] is flag:
            val = None
        if (k, val) in seen:
            continue
        seen.add((k, val))
        try:
            out.append((k, val, "ok", repr(spec[k](val))))
        except ValueError:
            out.append((k, val, "verr", ""))
        except TypeError:
            out.append((k, val, "terr", ""))
        except Exception as e:
            out.append((k, val, "exc:" + type(e).__name__, ""))
    return out


# ------------------------------------------------------------------ model protocol

def enc_o(s):
    return "~" if s is None else enc_str(s)


def enc_pairs(pairs):
    return ";".join(enc_str(k) + "|" + enc_str(v) for k, v in pairs) if pairs else "."


def model_line(case, obs):
    cls = directive_classes()[case["cls"]]
    s = signature(cls)
    add = case.get("additional")
    pairs = []
    for (_b, kind, _c, items) in obs["tok"]:
        pairs += items
    if add:
        pairs += list(add.items())
    conv = conv_table(cls, pairs)
    def kf(kind, rest):
        return ["exc", kind.split(":")[1]] if kind.startswith("exc:") else [kind] + rest
    tokt = " ".join("|".join([enc_str(b)] + kf(kind, ["1" if hc else "0"] + [enc_str(x) for kv in items for x in kv]))
                    for (b, kind, hc, items) in obs["tok"]) or "."
    convt = " ".join("|".join([enc_str(k), enc_o(v)] + kf(kind, [enc_str(r)])) for (k, v, kind, r) in conv) or "."
    yamt = " ".join("|".join([enc_str(b)] + kf(kind, [enc_str(x) for kv in items for x in kv]))
                    for (b, kind, items) in obs["yam"]) or "."
    line = case.get("line")
    return "\t".join(["parse", "1" if s["has_spec"] else "0", enc_strs(s["keys"]) if s["keys"] else ".",
                      "1" if s["allkeys"] else "0",
                      enc_strs(s["flags"]) if s["flags"] else ".", str(s["req"]), str(s["opt"]),
                      "1" if s["fws"] else "0", "1" if s["has_content"] else "0", "1" if s["is_test"] else "0",
                      enc_str(case["first"]), enc_str(case["content"]), "~" if line is None else str(line),
                      "1" if case.get("validate", True) else "0",
                      "~" if add is None else enc_pairs(list(add.items())), tokt, convt, yamt])


def dec_model(reply):
    if reply.startswith("!"):
        return {"exc": reply[1:]}
    f = reply.split("\t")
    opts = [] if f[1] == "." else sorted((dec_str(p.split("|")[0]), dec_str(p.split("|")[1])) for p in f[1].split(";"))
    warns = []
    if f[4] != ".":
        for w in f[4].split(";"):
            k, ln = w.split(":")[:2]
            warns.append((k, None if ln == "~" else int(ln)))
    return {"args": dec_strs(f[0]), "opts": opts, "body": dec_strs(f[2]), "offset": int(f[3]), "warns": warns}


def relation(obs):
    """R: (arguments, sorted option keys + converted repr, body, offset, warning kinds+lines) or the exception class."""
    if "exc" in obs:
        return {"exc": obs["exc"]}
    return {"args": obs["args"], "opts": [list(x) for x in obs["opts"]], "body": obs["body"], "offset": obs["offset"],
            "warns": [list(x) for x in obs["warns"]]}


# ------------------------------------------------------------------ case streams

def contents_upto(n):
    out = [""]
    for k in range(1, n + 1):
        for t in itertools.product(VOCAB, repeat=k):
            s = "\n".join(t)
            out.append(s)
            out.append(s + "\n")
    return out


WS = [" ", "\t", " ", " ", "\x1f", "\x0c", "　"]
SEPS = ["\n", "\n", "\n", "\r\n", "\r", "\x0b", "\x0c", "\x1c", "\x1d", "\x1e", "\x85", " ", " "]
VALUES = ["x", "1", "", "a b", "left", "center", "10", "50%", "-1", "yes", "python", "3,4", "x y z", "\"q\"", "'s'", "# c",
          "v # comment", "|", ">-", "[1, 2]", "{a: 1}", "a: b", "http://x.org/y", "é", "1 2 3", "*", "none"]


def rand_case(rng, label, cls):
    spec = cls.option_spec or {}
    keys = list(spec) or ["class", "name"]
    style = rng.choice(["none", "colon", "colon", "dash", "dash", "mixed"])
    lines = []

    def kv():
        k = rng.choice(keys) if rng.random() < 0.75 else rng.choice(["bad", "zz", "Class", "a b", ""])
        v = rng.choice(VALUES)
        return k, v
    if style in ("colon", "mixed"):
        if rng.random() < 0.1:
            lines.append(rng.choice(["", " "]))
        for _ in range(rng.randint(1, 4)):
            k, v = kv()
            ind = rng.choice(["", "", "", " ", "  ", "\t", " "])
            lines.append(f"{ind}:{k}:{' ' + v if v else ''}")
    elif style == "dash":
        lines.append(rng.choice(["---", "---", "----", "--- ", "---x"]))
        ind = rng.choice(["", "", "  ", "\t"])
        for _ in range(rng.randint(0, 4)):
            k, v = kv()
            r = rng.random()
            if r < 0.1:
                lines.append(ind + f"{k}: |")
                lines.append(ind + "  block " + v)
            elif r < 0.15:
                lines.append(rng.choice(["", " ", ind + "# comment"]))
            else:
                lines.append(ind + rng.choice(["", "", " "]) + f"{k}:{' ' + v if v else ''}")
        if rng.random() < 0.85:
            lines.append(rng.choice(["---", "---", "-----", "---x", "--- "]))
    for _ in range(rng.choice([0, 0, 1, 1, 2, 3, 5, 9])):
        r = rng.random()
        lines.append("" if r < 0.3 else rng.choice(WS) if r < 0.4 else rng.choice(VOCAB) if r < 0.7
                     else rng.choice(["body text", "# h", "- item", "> q", "```", ":::", "    code", ":notopt", "a:b", "--"]))
    sep = rng.choice(SEPS) if rng.random() < 0.25 else "\n"
    content = (sep if rng.random() < 0.8 else rng.choice(SEPS)).join(lines) if rng.random() < 0.8 else \
        "".join(l + rng.choice(SEPS) for l in lines)
    content += rng.choice(["", "", "\n", "\n\n", "\r\n", " "])
    nwords = rng.choice([0, 0, 1, 1, 2, 3, 5])
    first = rng.choice(["", "", " "]) + \
        rng.choice([" ", "  ", "\t", " "]).join(rng.choice(["a", "bb", "c.d", "é", ":x:", "1"]) for _ in range(nwords)) + \
        rng.choice(["", "", " ", "\n"])
    case = {"cls": label, "first": first, "content": content}
    if rng.random() < 0.5:
        case["line"] = rng.randint(0, 50)
    if rng.random() < 0.25:
        case["additional"] = {k: v for k, v in (kv() for _ in range(rng.randint(0, 3)))}
    if rng.random() < 0.08:
        case["validate"] = False
    return case


def shards(ctx, kind):
    """work units: ('ex', label, first_lines, lo, hi, nlines) over the shared contents list, or ('rnd', seed, n, labels)."""
    reps = representatives()
    cl = directive_classes()
    units = []
    nmax = ctx.budget(5, 6, 6)
    with_spec = [l for l in reps if cl[l].option_spec]
    without = [l for l in reps if not cl[l].option_spec]
    # the vocabulary matters for classes with an option_spec: full depth for them with an empty first line,
    # depth 3 with every first line; classes without option_spec: depth 3 (their content is never interpreted)
    full = contents_count(nmax)
    step = 40000
    quick = ctx.tier != "thorough" and not ctx.deep
    if kind == "corr":
        big = with_spec[:5] if quick else with_spec      # quick: the other representatives one line less
    else:
        big = with_spec[:6] if ctx.tier == "thorough" and not ctx.deep else with_spec[:3] if quick else with_spec
    for lab in big:
        for lo in range(0, full, step):
            units.append(("ex", lab, [""], lo, min(full, lo + step), nmax))
    if kind == "corr" and quick:
        less = contents_count(nmax - 1)
        for lab in with_spec[5:]:
            units.append(("ex", lab, [""], 0, less, nmax - 1))
    small = contents_count(3)
    for lab in with_spec + without:
        units.append(("ex", lab, FIRST_LINES if lab in with_spec else FIRST_LINES, 0, small, 3))
    labels = sorted(cl)
    per = ctx.budget(120, 1500, 3000)
    chunk = max(1, len(labels) // 32)
    for i in range(0, len(labels), chunk):
        units.append(("rnd", ctx.rng.getrandbits(48), per, labels[i:i + chunk]))
    return units


_CONTENTS = {}


def contents_count(n):
    return 1 + 2 * sum(len(VOCAB) ** k for k in range(1, n + 1))


def contents(n):
    if n not in _CONTENTS:
        _CONTENTS[n] = contents_upto(n)
    return _CONTENTS[n]


def unit_cases(unit):
    if unit[0] == "ex":
        _, lab, firsts, lo, hi, n = unit
        cs = contents(n)
        for i in range(lo, hi):
            for f in firsts:
                yield {"cls": lab, "first": f, "content": cs[i], "line": 3}
    else:
        _, seed, per, labels = unit
        rng = random.Random(seed)
        cl = directive_classes()
        for lab in labels:
            for _ in range(per):
                yield rand_case(rng, lab, cl[lab])


def nontrivial(case, obs):
    return "exc" in obs or bool(obs["tok"]) or bool(obs["args"]) or bool(obs["warns"]) or bool(obs["yam"])


# ------------------------------------------------------------------ correspondence

def corr_unit(unit):
    stats = {"cases": 0, "counts": {}, "nontriv": 0, "dis": [], "sample": None}
    cases, lines, obss = [], [], []
    for case in unit_cases(unit):
        obs = observe(case)
        cases.append(case)
        obss.append(obs)
        lines.append(model_line(case, obs))
    outs = model_run(PID, lines)
    for case, obs, o in zip(cases, obss, outs):
        stats["cases"] += 1
        mo = dec_model(o) if not o.startswith("!failure") and not o.startswith("!bad") else {"exc": o}
        r = relation(obs)
        b = ("exc:" + obs["exc"]) if "exc" in obs else \
            ("dash" if case["content"].startswith("---") else "colon" if obs["tok"] else "noblock") + \
            (":warn" if obs["warns"] else "")
        stats["counts"][unit[0] + ":" + b] = stats["counts"].get(unit[0] + ":" + b, 0) + 1
        if nontrivial(case, obs):
            stats["nontriv"] += 1
        if r != relation(mo):
            if len(stats["dis"]) < 5:
                stats["dis"].append((case, r, relation(mo)))
            else:
                stats["dis"].append(None)
    if cases:
        stats["sample"] = cases[len(cases) // 2]
    return stats


def run_units(units, fn):
    import multiprocessing as mp
    # warm the caches before forking so children share them
    directive_classes()
    for u in units:
        if u[0] == "ex":
            contents(u[5])
    ctxm = mp.get_context("fork")
    with ctxm.Pool(min(16, os.cpu_count() or 4)) as pool:
        return pool.map(fn, units, chunksize=1)


def corr(ctx):
    if not ctx.have_runner:
        return
    units = shards(ctx, "corr")
    for st in run_units(units, corr_unit):
        ctx.corr_cases += st["cases"]
        for k, v in st["counts"].items():
            ctx.count("corr:" + k, v)
        ctx.nontrivial.update(("c", id(st), i) for i in range(min(st["nontriv"], 100000)))
        for d in st["dis"]:
            if d is None:
                ctx.disagreements.append({"what": "parse_directive_text", "case": None, "impl": None, "model": None})
            else:
                ctx.disagree("parse_directive_text", d[0], d[1], d[2])
        if st["sample"]:
            ctx.sample(st["sample"], limit=6)
    ctx.disagreements = [d for d in ctx.disagreements if d["case"] is not None] + \
                        [d for d in ctx.disagreements if d["case"] is None]
    ctx.suspects = [c for c in ctx.suspects if c]


# ------------------------------------------------------------------ direct property oracle (independent of the model)

def py_is_blank(s):
    return not s.strip()


def content_lines(text):
    """the lines of a directive's content: breaks at CRLF, CR, LF only (as markdown-it splits), no empty last line
    for a trailing newline."""
    ls = re.split(r"\r\n|\r|\n", text)
    if ls[-1] == "":
        ls.pop()
    return ls


def spec_split(cls, first, content):
    """expected (n_opt, offset, body, merged, block) computed from the content lines only."""
    import textwrap
    lines = content_lines(content)
    n_opt, block = 0, None
    if cls.option_spec:
        if lines and lines[0].startswith("---") and content.startswith("---"):
            j = next((i for i in range(1, len(lines)) if lines[i].startswith("---")), None)
            if j is None:
                n_opt = len(lines)
                block = textwrap.dedent("\n".join(lines[1:]))
            else:
                n_opt = j + 1
                block = textwrap.dedent("".join(l + "\n" for l in lines[1:j]))
        else:
            while n_opt < len(lines) and lines[n_opt].lstrip().startswith(":"):
                n_opt += 1
            if n_opt or content.lstrip().startswith(":"):
                block = "\n".join(l.lstrip()[1:] for l in lines[:n_opt])
    merged = not (cls.required_arguments or cls.optional_arguments) and bool(first.strip())
    if merged:
        return {"n_opt": n_opt, "offset": 0, "body": [first] + lines[n_opt:], "merged": True, "block": block, "lines": lines}
    off = n_opt + (1 if n_opt < len(lines) and py_is_blank(lines[n_opt]) else 0)
    return {"n_opt": n_opt, "offset": off, "body": lines[off:], "merged": False, "block": block, "lines": lines}


def spec_args(cls, first):
    words, cur = [], ""
    for ch in first:
        if ch.isspace():
            if cur:
                words.append(cur)
            cur = ""
        else:
            cur += ch
    if cur:
        words.append(cur)
    req, tot = cls.required_arguments, cls.required_arguments + cls.optional_arguments
    if not tot:
        return []
    if len(words) < req:
        return "MarkupError"
    if len(words) > tot:
        if not cls.final_argument_whitespace:
            return "MarkupError"
        # the last argument absorbs the rest of the text verbatim (leading whitespace removed)
        rest = first
        out = []
        for _ in range(tot - 1):
            rest = rest.lstrip()
            i = next(k for k, ch in enumerate(rest) if ch.isspace())
            out.append(rest[:i])
            rest = rest[i:]
        return out + [rest.lstrip()]
    return words


def named_in(msg, key):
    head = msg.split("(allowed:")[0]
    return repr(key) in head


def check_case(ctx, case):
    """evaluate every clause of the property on the implementation for this input; True if all hold."""
    from docutils.parsers.rst.directives import flag
    from myst_parser.parsers.options import TokenizeError, options_to_items
    cls = directive_classes()[case["cls"]]
    obs = observe(case)
    ok = True

    def bad(sig, what, exp, got):
        nonlocal ok
        ok = False
        ctx.fail(sig, case, what, expected=exp, observed=got)
    if "exc" in obs and obs["exc"] != "MarkupError":
        # signature by call site: which external let the exception through
        site = obs["exc"]
        if any(k.startswith("exc:") for (_b, k, _i) in obs["yam"]):
            site = "yaml.safe_load"
        elif any(k.startswith("exc:") for (_b, k, _h, _i) in obs["tok"]):
            site = "options_to_items"
        else:
            pairs = [kv for (_b, _k, _h, items) in obs["tok"] for kv in items] + list((case.get("additional") or {}).items())
            if any(k.startswith("exc:") for (_k, _v, k, _r) in conv_table(cls, pairs)):
                site = "option-converter"
        bad("exception:" + site, f"parse_directive_text raised {obs['exc']}: {obs.get('msg')}", "result or MarkupError", obs["exc"])
        return False
    exp_args = spec_args(cls, case["first"])
    if "exc" in obs:
        if exp_args != "MarkupError":
            bad("args:spurious-error", "MarkupError although the argument count fits the declaration", exp_args, "MarkupError")
        return ok
    if exp_args == "MarkupError":
        bad("args:count-not-enforced", "argument count outside the declaration accepted", "MarkupError", obs["args"])
    elif obs["args"] != exp_args:
        bad("args:split", "arguments differ from the whitespace split", exp_args, obs["args"])
    sp = spec_split(cls, case["first"], case["content"])
    lines = sp["lines"]
    # body = suffix of the content lines
    if not sp["merged"]:
        off = obs["offset"]
        if not (0 <= off <= len(lines)) or obs["body"] != lines[off:]:
            if obs["body"] == sp["body"] and off == sp["offset"] + 1 and lines and py_is_blank(lines[-1]):
                pass  # reported below as the offset defect with its own signature
            else:
                bad("body:not-suffix-at-offset", "body is not the content lines from body_offset on", lines[off:] if 0 <= off <= len(lines) else None, obs["body"])
        if obs["offset"] != sp["offset"]:
            tb = lines and py_is_blank(lines[-1]) and obs["offset"] == sp["offset"] + 1
            bad("offset:trailing-blank-line" if tb else "offset:index",
                "body_offset is not the index of the first body line within the content", sp["offset"], obs["offset"])
        if obs["body"] != sp["body"]:
            tb = bool(lines) and py_is_blank(lines[-1]) and obs["body"] == sp["body"][:-1]
            bad("body:trailing-blank-line-lost" if tb else "body:lines",
                "body lines are not the content lines after the option block (minus one leading blank line)", sp["body"], obs["body"])
    else:
        if obs["body"] != sp["body"] or obs["offset"] != 0:
            tb = bool(lines) and py_is_blank(lines[-1]) and obs["body"] == sp["body"][:-1]
            bad("body:trailing-blank-line-lost" if tb else "merged:body", "first line + content lines after the option block expected",
                [sp["body"], 0], [obs["body"], obs["offset"]])
    # no leakage: without option_spec nothing is interpreted as options
    if not cls.option_spec and (obs["opts"] or obs["tok"] or obs["yam"]):
        bad("noopts:leak", "a directive without option_spec parsed options from its body", [], obs["opts"])
    # options
    if cls.option_spec and case.get("validate", True):
        from docutils.parsers.rst.directives.misc import TestDirective
        items, tokerr = [], False
        if sp["block"] is not None:
            try:
                items = [(str(a), str(b)) for a, b in options_to_items(sp["block"])[0]]
            except TokenizeError:
                tokerr = True
            except Exception:
                return ok   # reported through the exception clause above
        block_d = dict(items)
        add = dict(case.get("additional") or {})
        if issubclass(cls, TestDirective):
            exp = sorted(block_d.items())
            if obs["opts"] != exp:
                bad("options:kept", "TestDirective keeps all block options", exp, obs["opts"])
            return ok
        merged_opts = dict(add) if not tokerr else {}
        if not tokerr:
            merged_opts.update(block_d)      # block options take priority
        spec = cls.option_spec
        exp_kept, dropped = {}, []
        for k, v in merged_opts.items():
            if not known_key(spec, k):
                dropped.append(k)
                continue
            val = None if (not v or spec[k] is flag) else v
            try:
                exp_kept[k] = repr(spec[k](val))
            except (ValueError, TypeError):
                dropped.append(k)
            except Exception:
                return ok
        exp = sorted(exp_kept.items())
        if obs["opts"] != exp:
            pri = any(k in add and k in block_d for k in set(dict(obs["opts"])) | set(exp_kept))
            bad("options:priority" if pri and sorted(dict(obs["opts"])) == sorted(exp_kept) else "options:kept",
                "kept options are not exactly the known keys whose converter succeeds (block over additional_options)", exp, obs["opts"])
        omsgs = [m for (k, _l), m in zip(obs["warns"], obs["msgs"]) if k == "O"]
        values = set(merged_opts.values())
        for k in dropped:
            if k in values:
                continue    # the key also occurs as a value, which converter messages quote: naming is ambiguous
            n = sum(1 for m in omsgs if named_in(m, k))
            if n != 1:
                bad("options:dropped-warning", f"dropped option {k!r} is named in {n} warnings (expected exactly 1)", 1, n)
                break
        for k in exp_kept:
            if k not in values and any(named_in(m, k) for m in omsgs):
                bad("options:valid-warned", f"valid option {k!r} is named in a warning", 0, 1)
                break
        if tokerr and len(omsgs) != 1:
            bad("options:tokenize-warning", "an untokenizable option block must give exactly one warning", 1, len(omsgs))
    return ok


def styles_case(rng):
    """colon-style and dash-style contents for the same single-line pairs + the same body."""
    cl = directive_classes()
    lab = rng.choice(["docutils:note", "docutils:image", "docutils:figure", "sphinx.directives.code.CodeBlock",
                      "docutils:admonition", "docutils:table", "docutils:contents", "docutils:math"])
    keys = list(cl[lab].option_spec) + ["bad"]
    pairs = [(rng.choice(keys), rng.choice(["x", "1", "", "a b", "left", "10", "\"q\"", "'s'", "50%"])) for _ in range(rng.randint(1, 4))]
    body = [rng.choice(["", "text", "more text", "  cont", "- a", "--", "x: y"]) for _ in range(rng.randint(0, 4))]
    tail = rng.choice(["", "\n", "\n\n"])
    kv = [f"{k}:{' ' + v if v else ''}" for k, v in pairs]
    first = rng.choice(["", "arg"]) if (cl[lab].required_arguments or cl[lab].optional_arguments) else ""
    return {"kind": "styles", "cls": lab, "first": first, "kv": kv, "body": body, "tail": tail}


def check_styles(ctx, sc):
    from myst_parser.parsers.options import options_to_items
    colon = "\n".join([":" + l for l in sc["kv"]] + sc["body"]) + sc["tail"]
    dash = "\n".join(["---"] + sc["kv"] + ["---"] + sc["body"]) + sc["tail"]
    a = observe({"cls": sc["cls"], "first": sc["first"], "content": colon, "line": 1})
    b = observe({"cls": sc["cls"], "first": sc["first"], "content": dash, "line": 1})
    ra = (a.get("exc"), a.get("args"), a.get("opts"), a.get("body"), [w[0] for w in a.get("warns", [])])
    rb = (b.get("exc"), b.get("args"), b.get("opts"), b.get("body"), [w[0] for w in b.get("warns", [])])
    ok = True
    if ra != rb:
        ctx.fail("styles:not-interchangeable", sc, "colon-style and dash-style option blocks give different results",
                 expected=repr(ra)[:600], observed=repr(rb)[:600])
        ok = False
    if "offset" in a and "offset" in b and b["offset"] - a["offset"] != 2 and not (sc["first"] and not a["args"] and sc["first"].strip()):
        ctx.fail("styles:offset", sc, "dash-style offset must be colon-style offset + 2 (the two delimiter lines)",
                 expected=a["offset"] + 2, observed=b["offset"])
        ok = False
    # O_tok_nl on the real tokenizer
    blk = "\n".join(sc["kv"])
    try:
        ia, sa = options_to_items(blk)
        ib, sb = options_to_items(blk + "\n")
        if ia != ib or bool(sa.has_comments) != bool(sb.has_comments):
            ctx.fail("oracle:O_tok_nl", sc, "a final newline changes the items / the comments flag of a block of single-line pairs")
            ok = False
    except Exception:
        pass
    return ok


# ------------------------------------------------------------------ document level: sequences of related directives (round 4)
#
# "converted by the directive's own option spec" is quantified over every class in the registry.  run_directive decides
# per call which class (and so which option_spec) parse_directive_text is given; whatever it keeps on the renderer between
# calls only shows when ONE render runs several directives of different but related classes.  Families of related classes
# (the docutils ones + subclasses registered by this harness the way a project / extension would) are rendered in
# sequences, in every order; each directive's parse (class spec, arguments, options, body, warnings) must equal the parse
# of the same directive rendered alone, and the alone parse must equal parse_directive_text called with the registered
# class (plus, for Include-derived classes, the three Markdown-only options run_directive documents).

MYST_INCLUDE_EXTRAS = ("relative-images", "relative-docs", "heading-offset")
DOCSEQ_FILES = {"inc1.md": "one\n\ntwo\n\nthree\n\nfour\n", "inc2.md": "alpha\n\nbeta\n\ngamma\n",
                "data.csv": "a,b\n1,2\n"}


def _one_based(argument):
    from docutils.parsers.rst import directives
    return directives.positive_int(argument) - 1


def docseq_families():
    """family -> {directive name: (class or None if already registered, argument, body)} and the option pool."""
    from docutils import nodes
    from docutils.parsers.rst import directives
    from docutils.parsers.rst.directives.admonitions import BaseAdmonition
    from docutils.parsers.rst.directives.body import CodeBlock
    from docutils.parsers.rst.directives.images import Figure, Image
    from docutils.parsers.rst.directives.misc import Include
    from docutils.parsers.rst.directives.tables import ListTable

    class VIncA(Include):
        option_spec = {**Include.option_spec, "start-line": _one_based, "label": directives.unchanged_required}

    class VIncB(Include):
        option_spec = {"start-line": directives.nonnegative_int, "end-line": directives.positive_int,
                       "tag": directives.flag, "encoding": directives.encoding}

    class VIncC(VIncA):
        option_spec = {**VIncA.option_spec, "tag": directives.unchanged, "tab-width": directives.positive_int}

    class VAdmA(BaseAdmonition):
        node_class = nodes.note
        option_spec = {**BaseAdmonition.option_spec, "level": directives.nonnegative_int}

    class VAdmB(BaseAdmonition):
        node_class = nodes.tip
        option_spec = {"class": directives.unchanged, "level": directives.unchanged_required}

    class VFig(Figure):
        option_spec = {**Figure.option_spec, "credit": directives.unchanged_required, "scale": directives.positive_int}

    class VImg(Image):
        option_spec = {k: v for k, v in Image.option_spec.items() if k not in ("scale", "target")}

    class VCode(CodeBlock):
        option_spec = {**CodeBlock.option_spec, "emphasize": directives.positive_int_list,
                       "number-lines": directives.flag}

    class VList(ListTable):
        option_spec = {**ListTable.option_spec, "header-rows": directives.positive_int, "caption": directives.unchanged}

    lt = "* - a\n  - b\n* - c\n  - d"
    fams = {
        "include": ({"include": (None, ["inc1.md", "inc2.md"], ""), "vinc-a": (VIncA, ["inc1.md", "inc2.md"], ""),
                     "vinc-b": (VIncB, ["inc2.md", "inc1.md"], ""), "vinc-c": (VIncC, ["inc1.md"], "")},
                    [("start-line", ["0", "1", "2", "x", "-1"]), ("end-line", ["3", "5", "0", "x"]), ("label", ["p", ""]),
                     ("tag", ["", "y"]), ("heading-offset", ["1", "x"]), ("relative-docs", ["a"]), ("relative-images", [""]),
                     ("encoding", ["utf8", "no-such-codec"]), ("tab-width", ["4", "0", "x"]), ("literal", [""]),
                     ("start-after", ["one", "alpha"]), ("bogus", ["1"])]),
        "admonition": ({"note": (None, [""], "body"), "tip": (None, [""], "body"), "warning": (None, [""], "body"),
                        "admonition": (None, ["Title"], "body"), "vadm-a": (VAdmA, [""], "body"),
                        "vadm-b": (VAdmB, [""], "body")},
                       [("class", ["a b", "", "1x"]), ("name", ["n1"]), ("level", ["1", "x", ""]), ("bogus", ["1"])]),
        "image": ({"image": (None, ["img.png"], ""), "figure": (None, ["img.png"], "caption"),
                   "vfig": (VFig, ["img.png"], "caption"), "vimg": (VImg, ["img.png"], "")},
                  [("alt", ["text"]), ("width", ["10px", "x"]), ("height", ["5em"]), ("scale", ["50", "50%", "0", "x"]),
                   ("align", ["left", "center", "top", "middle", "x"]), ("figwidth", ["image", "10px", "x"]),
                   ("figclass", ["a"]), ("name", ["n2"]), ("credit", ["me", ""]), ("target", ["http://x.org"]),
                   ("bogus", ["1"])]),
        "code": ({"code": (None, ["python"], "x = 1"), "sourcecode": (None, ["python"], "x = 1"),
                  "vcode": (VCode, ["python"], "x = 1"), "parsed-literal": (None, [""], "lit"),
                  "math": (None, [""], "a = b")},
                 [("number-lines", ["", "3", "x"]), ("class", ["a"]), ("name", ["n3"]), ("emphasize", ["1,2", "x"]),
                  ("label", ["eq1"]), ("nowrap", [""]), ("bogus", ["1"])]),
        "table": ({"list-table": (None, ["T"], lt), "vlist": (VList, ["T"], lt), "csv-table": (None, ["T"], "a,b\n1,2"),
                   "table": (None, ["T"], "| a | b |\n|---|---|\n| 1 | 2 |")},
                  [("widths", ["auto", "1 2", "x"]), ("header-rows", ["1", "x", "0"]), ("stub-columns", ["1", "x"]),
                   ("align", ["left", "center", "x"]), ("width", ["50%", "x"]), ("class", ["a"]), ("name", ["n4"]),
                   ("delim", [";", "tab", "xx"]), ("quote", ["'", "xx"]), ("header", ["h1,h2"]), ("caption", ["c"]),
                   ("bogus", ["1"])]),
    }
    return fams


class DocseqRegistry:
    """registers the harness classes under their names for the duration of a block (and removes them again)."""
    _fams = None

    def __enter__(self):
        from docutils.parsers.rst import directives
        if DocseqRegistry._fams is None:
            DocseqRegistry._fams = docseq_families()
        self.added = []
        for members, _pool in DocseqRegistry._fams.values():
            for name, (cls, _a, _b) in members.items():
                if cls is not None and name not in directives._directives:
                    directives.register_directive(name, cls)
                    self.added.append(name)
        return DocseqRegistry._fams

    def __exit__(self, *a):
        from docutils.parsers.rst import directives
        for name in self.added:
            directives._directives.pop(name, None)


def docseq_text(d, style=None):
    """one directive of a sequence as a backtick fence."""
    lines = ["```{" + d["name"] + "}" + (" " + d["arg"] if d["arg"] else "")]
    if d.get("style") == "dash" and d["opts"]:
        lines += ["---"] + [f"{k}: {v}".rstrip() for k, v in d["opts"]] + ["---"]
    else:
        lines += [f":{k}: {v}".rstrip() for k, v in d["opts"]]
    if d["body"]:
        lines += ([""] if d["opts"] and d.get("style") != "dash" else []) + d["body"].split("\n")
    return "\n".join(lines + ["```"])


def docseq_render(dirs):
    """render the directives in one document; every call of parse_directive_text made by run_directive, in order:
    (registered ancestors of the class, keys of its option_spec, first line, content, result)."""
    import myst_parser.mdit_to_docutils.base as base
    from lib.impl import parse_only, scratch_dir
    calls = []
    orig = base.parse_directive_text

    def spy(directive_class, first_line, content, **kw):
        rec = {"cls": [c.__module__.split(".")[-1] + "." + c.__qualname__.split(".")[-1] for c in directive_class.__mro__
                       if c.__qualname__.split(".")[-1] != "MystInclude"][:3],
               "spec": sorted(directive_class.option_spec or {}),
               "conv": sorted((k, getattr(v, "__qualname__", repr(v))) for k, v in (directive_class.option_spec or {}).items()),
               "first": first_line, "content": content, "kw": {k: v for k, v in kw.items() if k != "line"}}
        try:
            r = orig(directive_class, first_line, content, **kw)
        except Exception as e:
            rec["exc"] = type(e).__name__ + ": " + str(e)
            calls.append(rec)
            raise
        line = kw.get("line") or 0
        rec.update(args=list(r.arguments), opts=sorted((str(k), repr(v)) for k, v in r.options.items()), body=list(r.body),
                   offset=r.body_offset,
                   warns=[(wkind(w), w.msg, (w.lineno - line) if w.lineno is not None else None) for w in r.warnings])
        calls.append(rec)
        return r
    base.parse_directive_text = spy
    try:
        with scratch_dir() as d:
            for f, t in DOCSEQ_FILES.items():
                with open(os.path.join(d, f), "w", encoding="utf8") as fh:
                    fh.write(t)
            text = "\n\n".join(docseq_text(x) for x in dirs) + "\n"
            try:
                parse_only(text, {}, source_path=os.path.join(d, "main.md"))
            except Exception as e:
                # a directive's run() raised on the parsed options (not this property's subject): the parses made so
                # far are still compared, the rest of the document was not rendered
                calls.append({"render-exc": type(e).__name__})
    finally:
        base.parse_directive_text = orig
    return calls


def docseq_direct(fams, d):
    """parse_directive_text on the class registered under the name (the property's reading of 'its own option spec')."""
    from docutils.parsers.rst import directives
    from docutils.parsers.rst.directives.misc import Include
    from myst_parser.parsers.directives import parse_directive_text
    cls, _ = directives.directive(d["name"], None, None)
    if cls is None:
        return None
    own = dict(cls.option_spec or {})
    if issubclass(cls, Include):
        own.update({"relative-images": directives.flag, "relative-docs": directives.path,
                    "heading-offset": directives.nonnegative_int})
    text = docseq_text(d).split("\n")
    first, content = text[0].split("}", 1)[1].strip(), "\n".join(text[1:-1])
    probe = type("Probe", (cls,), {"option_spec": own})
    try:
        r = parse_directive_text(probe, first, content, line=0)
    except Exception as e:
        return {"exc": type(e).__name__ + ": " + str(e), "spec": sorted(own)}
    return {"spec": sorted(own), "args": list(r.arguments), "opts": sorted((str(k), repr(v)) for k, v in r.options.items()),
            "body": list(r.body), "offset": r.body_offset,
            "warns": [(wkind(w), w.msg, w.lineno) for w in r.warnings]}


# what the property speaks about first; the class handed to parse_directive_text last (differences there that the
# options of this case happen not to exercise)
DOCSEQ_FIELDS = [("exc", "arguments"), ("args", "arguments"), ("opts", "options"), ("warns", "warnings"), ("body", "body"),
                 ("offset", "body"), ("spec", "spec"), ("conv", "spec"), ("cls", "spec")]


def check_docseq(ctx, case):
    """case: {"kind": "docseq", "family": f, "dirs": [{name, arg, opts, body, style}], "orders": [[i, ...], ...]}"""
    ok = True
    with DocseqRegistry() as fams:
        dirs = case["dirs"]
        alone = []
        for i, d in enumerate(dirs):
            calls = docseq_render([d])
            alone.append(calls)
            if any("render-exc" in c for c in calls):
                return True         # this directive's run() raises by itself: nothing to compare in a sequence
            if not calls:
                ctx.fail("docseq:not-run:" + case["family"], case, f"directive {i} ({d['name']}) alone: run_directive made no parse",
                         expected=">= 1 call", observed=0)
                return False
            direct = docseq_direct(fams, d)
            top = calls[0]
            for fld, sub in DOCSEQ_FIELDS:
                if fld in ("conv", "cls"):
                    continue
                if direct is not None and direct.get(fld) != top.get(fld):
                    ctx.fail(f"docseq:alone-vs-own-spec:{sub}:{case['family']}", case,
                             f"directive {i} ({d['name']}) rendered alone: {fld} differs from parse_directive_text on the "
                             f"class registered under its name", expected=direct.get(fld), observed=top.get(fld))
                    ok = False
                    break
        for order in case["orders"]:
            got = docseq_render([dirs[i] for i in order])
            want = [c for i in order for c in alone[i]]
            if len(got) != len(want):
                ctx.fail("docseq:calls:" + case["family"], dict(case, orders=[order]),
                         f"order {order}: {len(got)} directive parses in the sequence, {len(want)} when rendered one by one",
                         expected=len(want), observed=len(got))
                ok = False
                continue
            done = False
            for j, (g, w) in enumerate(zip(got, want)):
                for fld, sub in DOCSEQ_FIELDS:
                    if g.get(fld) != w.get(fld):
                        ctx.fail(f"docseq:{sub}:{case['family']}", dict(case, orders=[order]),
                                 f"order {order}: parse #{j} ({w['cls'][0]}, first line {w['first']!r}) differs in {fld} from "
                                 f"the same directive rendered alone", expected=w.get(fld), observed=g.get(fld))
                        ok = False
                        done = True
                        break
                if done:
                    break
    return ok


def docseq_case(rng, fams=None):
    fams = fams or DocseqRegistry._fams or docseq_families()
    fam = rng.choice(sorted(fams))
    members, pool = fams[fam]
    n = rng.choice([2, 2, 3])
    dirs = []
    for _ in range(n):
        name = rng.choice(sorted(members))
        _cls, args, body = members[name]
        opts = []
        for k, vals in rng.sample(pool, rng.randint(0, 4)):
            opts.append([k, rng.choice(vals)])
        dirs.append({"name": name, "arg": rng.choice(args), "opts": opts, "body": body,
                     "style": rng.choice(["colon", "colon", "dash"])})
    orders = [list(range(n)), list(reversed(range(n)))]
    if n == 3:
        orders += [[1, 2, 0], [2, 0, 1]]
    return {"kind": "docseq", "family": fam, "dirs": dirs, "orders": orders}


def docseq_fixed():
    """every ordered pair of distinct members of every family, each with one option that only some members declare."""
    fams = docseq_families()
    out = []
    for fam, (members, pool) in sorted(fams.items()):
        names = sorted(members)
        for a in names:
            for b in names:
                if a >= b:
                    continue
                for (k, vals) in pool:
                    dirs = [{"name": x, "arg": members[x][1][0], "opts": [[k, vals[0]]], "body": members[x][2],
                             "style": "colon"} for x in (a, b)]
                    out.append({"kind": "docseq", "family": fam, "dirs": dirs, "orders": [[0, 1], [1, 0]]})
    return out


def docseq_unit(unit):
    seed, n, fixed_slice = unit

    class C:
        def __init__(self):
            self.failures = []

        def fail(self, signature, witness, what, expected=None, observed=None):
            self.failures.append({"signature": signature, "witness": witness, "what": what,
                                  "expected": expected, "observed": observed})
    c = C()
    rng = random.Random(seed)
    per_sig, count = {}, 0
    with DocseqRegistry() as fams:
        fixed = docseq_fixed()
        cases = fixed[fixed_slice[0]::fixed_slice[1]] + [docseq_case(rng, fams) for _ in range(n)]
        for case in cases:
            count += 1
            before = len(c.failures)
            check_docseq(c, case)
            new = c.failures[before:]
            del c.failures[before:]
            for f in new:
                per_sig[f["signature"]] = per_sig.get(f["signature"], 0) + 1
                if per_sig[f["signature"]] <= 2:
                    c.failures.append(f)
    return count, c.failures


def search_unit(unit):
    class C:
        def __init__(self):
            self.failures = []

        def fail(self, signature, witness, what, expected=None, observed=None):
            if len(self.failures) < 40:
                self.failures.append({"signature": signature, "witness": witness, "what": what,
                                      "expected": expected, "observed": observed})
    c = C()
    n = 0
    per_sig = {}
    for case in unit_cases(unit):
        n += 1
        before = len(c.failures)
        check_case(c, case)
        # keep at most 3 witnesses per signature per unit (shortest first come from the enumeration order)
        for f in c.failures[before:]:
            per_sig[f["signature"]] = per_sig.get(f["signature"], 0) + 1
        c.failures = c.failures[:before] + [f for f in c.failures[before:] if per_sig[f["signature"]] <= 3]
    return n, c.failures


def search(ctx):
    for c in ctx.suspects[:300]:
        ctx.search_cases += 1
        (check_styles if c.get("kind") == "styles" else check_docseq if c.get("kind") == "docseq" else check_case)(ctx, c)
    # the stored witnesses of this property's findings are always re-run
    for w in KNOWN_WITNESSES:
        ctx.search_cases += 1
        check_case(ctx, w)
    units = shards(ctx, "search")
    res = run_units(units, search_unit)
    for n, fails in res:
        ctx.search_cases += n
        for f in fails:
            ctx.failures.append(f)
    # order failures: shortest witness first so the replay is the simplest input
    ctx.failures.sort(key=lambda f: (len(str(f["witness"].get("content", ""))) + len(str(f["witness"].get("first", ""))), str(f["witness"])))
    # document level: sequences of related directive classes in one render, every order
    nproc = min(16, os.cpu_count() or 4)
    total = ctx.budget(480, 6400, 12800)
    dres = run_units([(ctx.rng.getrandbits(48), total // nproc, (i, nproc)) for i in range(nproc)], docseq_unit)
    dfails = []
    for n, fails in dres:
        ctx.search_cases += n
        ctx.count("search:docseq", n)
        dfails += fails
    dfails.sort(key=lambda f: len(str(f["witness"])))
    ctx.failures += dfails
    rng = ctx.rng
    for i in range(ctx.budget(1500, 20000, 40000)):
        sc = styles_case(rng)
        ctx.search_cases += 1
        ctx.count("search:styles")
        if i == 0:
            ctx.sample(sc)
        check_styles(ctx, sc)


KNOWN_WITNESSES = [
    {"cls": "docutils:note", "first": "", "content": ":class: x\nbody\n\n", "line": 0},
    {"cls": "docutils:note", "first": "", "content": "---\nclass: x\n---\nbody\n\n", "line": 0},
    {"cls": "docutils:note", "first": "", "content": "---\nclass: x\n---x\nbody", "line": 0},
    # former finding exception:option-converter (fixed 155ac3f)
    {"cls": "docutils:figure", "first": "a.png", "content": ":figwidth:\n\nbody", "line": 0},
    {"cls": "docutils:csv-table", "first": "", "content": ":quote:\n\na,b", "line": 0},
]


def replay(ctx, data):
    w = data.get("witness")
    if not w:
        print("replay file names no concrete input:", data.get("no_longer_checks"))
        return 1
    if w.get("kind") == "docseq":
        for i, d in enumerate(w["dirs"]):
            print(f"--- directive {i}"); print(docseq_text(d))
        print("--- orders:", w["orders"])
    ok = (check_styles if w.get("kind") == "styles" else check_docseq if w.get("kind") == "docseq" else check_case)(ctx, w)
    print("replay:", "property holds on this input" if ok else ctx.failures[-1])
    return 0 if ok else 1


LEVEL_TEXT = ("Proof (Coq 8.16, 16 theorems, all closed under the global context), no bounds: universally quantified over the directive "
              "signature (has option_spec, known keys, flags, converters, required / optional arguments, final_argument_whitespace, "
              "has_content), the first line, the content, and every behaviour of the option tokenizer / YAML loader. IN FULL: the body "
              "returned by parse_directive_text is skipn body_offset (split_lines content) - nothing lost, nothing leaked - and "
              "body_offset = lines of the option block (delimiters included) + 1 if exactly one following blank line is stripped "
              "(C08_body_is_suffix, C08_offset_is_index); when the first line is body text the body is first line :: that suffix "
              "(C08_merged_first_line); a class without option_spec never consults the tokenizer and keeps ':key:' lines as body "
              "(C08_no_opts_no_leak); MarkupError iff the number of arguments is outside the declaration, the last argument absorbs "
              "the rest iff final_argument_whitespace, arguments are exactly the whitespace-separated pieces of the first line "
              "(C08_arguments, C08_arguments_in_text); kept options = known keys whose own converter succeeds, converted by it, "
              "each dropped key in exactly one warning, unknown and invalid distinguished (C08_option_validation); the option block "
              "wins over additional_options (C08_block_priority). "
              "TIED TO REGENERATED CODE: split_lines, parse_directive_arguments, _parse_directive_options and parse_directive_text are "
              "regenerated statement by statement from parsers/directives.py on every run (gen/c08_dirsrc.py -> coq/Gen/DirSrc.v) and "
              "proved equal to the model (C08_src_refines_model); C08_body_is_suffix_src, C08_offset_is_index_src, C08_arguments_src, "
              "C08_block_priority_src restate the main clauses on the regenerated code - a source edit breaks gen or a refinement "
              "proof. "
              "PARTIAL / RELATIVE TO AN ORACLE: C08_styles_interchangeable (colon and dash style give the same options for "
              "single-line pairs) is relative to the tokenizer oracle and assumes a final newline does not change the items of such "
              "a block; C08_styles_interchangeable_c07_partial discharges that for the C07 tokenizer model on comment-free blocks of "
              "plain scalars. C08_rejoin_refuted: the splitter as it was before fix 601d16e does not satisfy C08_body_is_suffix. "
              "Tie checked on every run: (a) the regeneration above; (b) differential correspondence with the extracted model - "
              "exhaustive contents over a 9-line vocabulary (<= 5 lines quick / <= 6 thorough) x first lines x trailing-newline "
              "variants for one class per distinct signature, random contents for ALL 151 registered docutils + Sphinx directive "
              "classes, tokenizer / converter / YAML results captured per case and handed to the model as tables; (c) direct oracle - "
              "the clauses recomputed independently from the content lines; colon vs dash style on the real tokenizer; document "
              "level: sequences of related directive classes (Include / admonition / image / code / table families incl. registered "
              "subclasses) rendered in one document in every order, each parse inside run_directive equal to the parse of the same "
              "directive alone and to parse_directive_text on the class registered under its name.")
LEVEL_NOTE = ("Trusted base: Coq kernel (no axioms); gen/c08_dirsrc.py (own AST walker, fail-closed) with its domain mapping "
              "coq/Dir/PyRuntime.v + PyLines.v (_RE_NEWLINE.split, lines[-1], split(None, k), `x or \"\"`, yaml `or {}` / isinstance "
              "dict, re.search('^-{3,}', MULTILINE) = first line starting with '---', str methods, textwrap.dedent as modelled, "
              "ParseWarnings -> constructor by type argument and interpolated names); gen/c08_unicode.py (whitespace class of the "
              "running interpreter, separators read from _RE_NEWLINE); oracles as Section variables / captured tables: "
              "options_to_items (C07's subject; instantiated with the C07 model in coq/Dir/DirTokenizer.v), the directives' own option "
              "converters, yaml.safe_load; dict insertion order. run_directive itself is not modelled: its choice of class per call is "
              "covered by the document-level search only. Repaired in this project: 601d16e (body re-joined and re-split: trailing "
              "blank line shifted body_offset; '---x' closed a dash block); concurrent fixes 22b9d98, 155ac3f (any exception from "
              "YAML / a converter is a warning) and 620bbcf (split_lines at CR / LF only) were followed in model and translator. "
              "No open finding.")
