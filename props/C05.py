"""C05 - heading levels determine section nesting; nested headings never make sections."""
import itertools
import os
import re

from lib.common import model_run_parallel, src_hashes

PID = "C05"
RULE = ("gen: update_section_level_state, the section/rubric skeleton of render_heading and nested_render_text._restore are "
        "re-translated from base.py into Gallina on every run (fail-closed) and proved equal to the model; correspondence: extracted "
        "Coq model vs the doctree built by the docutils front end (both tiers) and by in-process Sphinx builds (thorough tier, {only} as "
        "the match_titles directive) on every level sequence 1..6 up to length 6 (thorough; <= 4 quick), random longer sequences with "
        "paragraphs, headings inside block quotes / list items / every registered docutils directive that nested-parses Markdown "
        "content (probed from the directive registry) / ordered list items / definition-list dd / field-list bodies / footnote "
        "definitions / colon-fence divs and directives / a match_titles directive, in every surrounding context and in pairs, "
        "{include} files with :heading-offset: incl. nested includes (scratch files); relation = tree of (section|rubric, level, "
        "marker) + multiset of [myst.header] warnings; search: parent of every section computed independently (closest preceding "
        "still-open heading of lower level), rubric levels with the offsets added up, warning count, source order; non-trivial = a "
        "document with a level skip, a level decrease, a nested heading or an include")
TRUSTED = ["Coq 8.16.1 kernel; the statements of coq/Props/C05.v and the specification coq/Sect/SectionsSpec.v (ParentSpec, parent_spec, "
           "exp_edge, exp_warn, heading_levels, doc_headings)",
           "gen/c05_src.py (own fail-closed walker) regenerates update_section_level_state (every statement), the section/rubric "
           "skeleton of render_heading and nested_render_text._restore as Gallina code over the state record of Sect/Sections.v; domain "
           "mapping: _level_to_section = association list in dict order, current_node / _heading_offset / md_env['temp_root_node'] = "
           "record fields, x.append(y) / create_warning(append_to=x) = log entries, heading number = label of the new node, max of an "
           "empty generator = ValueError, missing key = KeyError, isinstance(.., document|section) = is_doc_or_section (any other class "
           "set is refused), dict(d.items()) = d, the statements listed in RH_SKIP (line/source, attributes, mathjax classes, title node, "
           "inline children, heading target) are dropped, unknown statements are an error; refinement proved in Sect/SectSrcProofs.v",
           "hand transcription (checked by correspondence, not regenerated): the token-tree walk of coq/Sect/Sections.v - container "
           "tokens via current_node_context, MockState.nested_parse (directive bodies, match_titles), MockIncludeDirective (heading-offset)",
           "markdown-it-py block structure: the generated markdown is parsed into the intended nesting (the correspondence fails if not)",
           "docutils directives nested-parse their content into their node; the kinds used are probed on every run and listed in the evidence notes"]
ORACLES = {"O_mdit_blocks": "markdown-it produces heading/blockquote/list_item/fence/dl/field_list/footnote/colon_fence tokens for the "
                            "generated text as intended (every correspondence case; a container-kind probe run first)",
           "O_directives": "every docutils directive with content that accepts a heading body (22 on this tree: admonitions, topic, sidebar, "
                           "container, compound, epigraph, highlights, pull-quote, figure legend, list-table / csv-table cells, header, "
                           "footer, class) nested-parses it into its own node without match_titles (systematic cases per kind)",
           "O_include": "MockIncludeDirective reads the scratch file and renders it in place with the given heading-offset (cases with {include})",
           "O_sphinx": "thorough tier: the same documents through lib.impl.SphinxProject; {only} nested-parses with match_titles=True"}
ASSUMPTIONS = ["heading levels are 1..6 plus non-negative heading-offsets (offsets of nested includes add up, fix 94acff7)",
               "docutils front end in both tiers; Sphinx front end in the thorough tier"]


def gen(ctx):
    import hashlib
    from gen import c05_src
    from lib.common import COQ, REPO, write_if_changed
    ctx.gen_info["sources"] = src_hashes(["myst_parser/mdit_to_docutils/base.py", "myst_parser/mocking.py"])
    # round 3: update_section_level_state / render_heading / nested_render_text._restore, statement by statement
    src = c05_src.generate(REPO)
    write_if_changed(COQ / "Gen" / "SectSrc.v", src)
    ctx.gen_info["SectSrc"] = hashlib.sha256(src.encode()).hexdigest()[:16]


# ------------------------------------------------------------------ documents
# block ::= ["H", tag] | ["P"] | ["Q", blocks] | ["L", blocks] | ["N", blocks] | ["T", blocks] | ["I", offset, blocks]
#         | ["D", name, blocks]   any registered docutils directive that nested-parses Markdown content (probed, see container_kinds)
#         | ["X", kind, blocks]   other container tokens: ol (ordered list item), dd (definition), field (field body),
#                                 fn (footnote definition), div (colon fence :::name), colon (:::{note})

def children_of(b):
    k = b[0]
    if k in ("Q", "L", "N", "T"):
        return b[1]
    if k in ("I", "D", "X"):
        return b[2]
    return None


def fence_height(blocks):
    h = 0
    for b in blocks:
        if b[0] in ("N", "T"):
            h = max(h, 1 + fence_height(b[1]))
        elif b[0] in ("Q", "L"):
            h = max(h, fence_height(b[1]))
        elif b[0] == "I":
            h = max(h, 1)
        elif b[0] == "D" or (b[0] == "X" and b[1] in ("div", "colon")):
            h = max(h, 1 + fence_height(b[2]))
        elif b[0] == "X":
            h = max(h, fence_height(b[2]))
    return h


def indent(body, first, rest):
    ls = body.split("\n")
    return "\n".join([first + ls[0]] + [(rest + l if l else "") for l in ls[1:]])


class Renderer:
    """doc structure -> markdown files; numbers the headings in render order"""

    def __init__(self, prefix="", ext=".md", titled="{verif-titled}"):
        self.files = {}
        self.nh = 0
        self.ninc = 0
        self.prefix = prefix      # name prefix / extension of the included scratch files
        self.ext = ext
        self.titled = titled      # how a match_titles directive is written ("only} html{" trick not needed: see block)

    def blocks(self, bs):
        out = []
        for b in bs:
            out.append(self.block(b))
        return "\n\n".join(out)

    def block(self, b):
        k = b[0]
        if k == "H":
            i = self.nh
            self.nh += 1
            return "#" * b[1] + " h%d" % i
        if k == "P":
            return "para"
        if k == "Q":
            body = self.blocks(b[1] or [["P"]])
            return "\n".join((">" if not l else "> " + l) for l in body.split("\n"))
        if k == "L":
            body = self.blocks(b[1] or [["P"]]).split("\n")
            return "\n".join([("- " + body[0])] + [("  " + l if l else "") for l in body[1:]])
        if k in ("N", "T"):
            fence = "`" * (3 + fence_height(b[1]))
            head = "{note}" if k == "N" else self.titled
            return fence + head + "\n" + self.blocks(b[1] or [["P"]]) + "\n" + fence
        if k == "D":
            name = b[1]
            fence = "`" * (3 + fence_height(b[2]))
            body = self.blocks(b[2] or [["P"]])
            arg = DIRECTIVE_ARG.get(name, "")
            if name == "figure":
                body = "cap\n\n" + body
            elif name == "list-table":
                body = indent(body, "* - ", "    ") + "\n  - b"
            elif name == "csv-table":
                body = '"' + body + '"'
            return fence + "{" + name + "}" + (" " + arg if arg else "") + "\n" + body + "\n" + fence
        if k == "X":
            kind = b[1]
            body = self.blocks(b[2] or [["P"]])
            if kind == "ol":
                return indent(body, "1. ", "   ")
            if kind == "dd":
                return "term\n" + indent(body, ": ", "  ")
            if kind == "field":
                # a leading paragraph: at the start of a directive body ":name:" would be read as the option block
                return "para\n\n:name:\n" + indent(body, "    ", "    ")
            if kind == "fn":
                self.nfn = getattr(self, "nfn", 0) + 1
                # the body goes on continuation lines (indent 4); on the label line its column would be 7
                return "[^f%d]: para\n\n" % self.nfn + indent(body, "    ", "    ")
            colons = ":" * (3 + fence_height(b[2]))
            head = "name" if kind == "div" else "{note}"
            return colons + head + "\n" + body + "\n" + colons
        if k == "I":
            name = "%sinc%d%s" % (self.prefix, self.ninc, self.ext)
            self.ninc += 1
            self.files[name] = None  # reserve (render order = numbering order)
            self.files[name] = self.blocks(b[2]) + "\n"
            return "```{include} %s\n:heading-offset: %d\n```" % (name, b[1])
        raise ValueError(k)


def render_doc(doc, **kw):
    r = Renderer(**kw)
    main = r.blocks(doc) + "\n"
    return main, r.files


def enc_tree(bs):
    out = []
    for b in bs:
        k = b[0]
        if k == "H":
            out.append("H%d" % b[1])
        elif k == "P":
            out.append("P")
        elif k == "Q":
            out.append("C( " + enc_tree(b[1] or [["P"]]) + " )")
        elif k == "L":
            out.append("C( C( " + enc_tree(b[1] or [["P"]]) + " ) )")
        elif k == "N":
            out.append("D0( " + enc_tree(b[1] or [["P"]]) + " )")
        elif k == "T":
            out.append("D1( " + enc_tree(b[1] or [["P"]]) + " )")
        elif k == "I":
            out.append("I%d( " % b[1] + enc_tree(b[2]) + " )")
        elif k == "D" or (k == "X" and b[1] == "colon"):
            # a directive body is rendered by nested_render_text(heading_offset=0: the offset in force stays), node appended afterwards
            out.append("D0( " + enc_tree(b[2] or [["P"]]) + " )")
        elif k == "X" and b[1] == "div":
            # render_colon_fence: current_node_context(container, append=True) around nested_render_text(content) (offset +0)
            out.append("C( I0( " + enc_tree(b[2] or [["P"]]) + " ) )")
        elif k == "X":
            out.append("C( C( " + enc_tree(b[2] or [["P"]]) + " ) )")
    return " ".join(out)


# ------------------------------------------------------------------ which containers exist

DIRECTIVE_ARG = {}
_KINDS = None
X_KINDS = ["ol", "dd", "field", "fn", "div", "colon"]


def container_kinds(notes=None):
    """Every registered docutils directive with content, and the MyST container tokens, that accept a heading in
    their body on this implementation: probed with a small document; kept when rendering reports no ERROR and the
    heading is found in the doctree (as rubric *or* section - the property decides which it must be)."""
    global _KINDS
    if _KINDS is not None:
        return _KINDS
    from docutils.parsers.rst import directives
    from docutils.parsers.rst.languages import en
    from docutils.utils import new_document
    from docutils.frontend import get_default_settings
    from myst_parser.parsers.docutils_ import Parser
    from lib.impl import scratch_dir
    register_titled()
    doc0 = new_document("probe", get_default_settings(Parser))
    cands = []
    for name in sorted(set(directives._directive_registry) | set(directives._directives)):
        if name in ("note", "verif-titled", "include"):
            continue
        try:
            cls, _ = directives.directive(name, en, doc0)
        except Exception:
            cls = None
        if cls is None or not getattr(cls, "has_content", False):
            continue
        if getattr(cls, "required_arguments", 0):
            DIRECTIVE_ARG[name] = "x.png" if name in ("figure", "image") else "Title"
        cands.append(["D", name])
    cands += [["X", k] for k in X_KINDS]
    kept, dropped = [], []
    with scratch_dir() as d:
        for c in cands:
            doc = [["H", 1], c + [[["H", 2], ["P"]]], ["H", 2]]
            try:
                tree, warns, other = run_impl(doc, d)
            except Exception as e:
                dropped.append("%s:%s" % (c[1], type(e).__name__))
                continue
            found = "h1" in _markers(tree)
            if other or not found:
                dropped.append(c[1])
            else:
                kept.append(c)
    _KINDS = (kept, dropped)
    return _KINDS


def _markers(tree):
    out = set()
    for x in tree:
        out.add(x[1])
        if x[0] == "S":
            out |= _markers(x[2])
    return out



# ------------------------------------------------------------------ driving the implementation

_SETTINGS = None
_REGISTERED = False


def register_titled():
    """a directive that nested-parses its body with match_titles=True (like Sphinx's `only`)"""
    global _REGISTERED
    if _REGISTERED:
        return
    from docutils import nodes
    from docutils.parsers.rst import Directive, directives

    class VerifTitled(Directive):
        has_content = True

        def run(self):
            node = nodes.container()
            self.state.nested_parse(self.content, self.content_offset, node, match_titles=True)
            return [node]

    directives.register_directive("verif-titled", VerifTitled)
    _REGISTERED = True


def run_impl(doc, d):
    """-> (canonical tree, [warning messages]) or ('!Exc', None)"""
    import copy
    import io
    global _SETTINGS
    from docutils.utils import new_document
    from myst_parser.parsers.docutils_ import Parser
    from lib.impl import parse_warnings
    register_titled()
    main, files = render_doc(doc)
    for name, content in files.items():
        with open(os.path.join(d, name), "w", encoding="utf8") as f:
            f.write(content)
    if _SETTINGS is None:
        from docutils.frontend import get_default_settings
        _SETTINGS = get_default_settings(Parser)
    st = copy.copy(_SETTINGS)
    st.record_dependencies = copy.copy(_SETTINGS.record_dependencies)
    ws = io.StringIO()
    st.warning_stream = ws
    st.report_level = 1
    st.halt_level = 5
    st.myst_enable_extensions = ["deflist", "fieldlist", "colon_fence"]
    document = new_document(os.path.join(d, "main.md"), st)
    Parser().parse(main, document)
    warns = [w["msg"] for w in parse_warnings(ws.getvalue()) if w["tag"] == "myst.header"]
    other = [w for w in parse_warnings(ws.getvalue()) if w["level"] in ("ERROR", "SEVERE")]
    return canon_impl(document), warns, other


def canon_impl(node):
    from docutils import nodes
    out = []
    for c in node.children:
        if isinstance(c, nodes.section):
            title = c[0].astext() if len(c) and isinstance(c[0], nodes.title) else "?"
            out.append(["S", title, canon_impl(c)])
        elif isinstance(c, nodes.rubric):
            out.append(["R", c.astext(), c.get("level")])
        elif isinstance(c, nodes.system_message):
            continue
        elif isinstance(c, nodes.Element):
            out.extend(canon_impl(c))
    return out


def canon_model(reply):
    """log of appends -> canonical tree, list of (pl, level) warnings"""
    if reply.startswith("!"):
        return reply, None
    log = reply.split("\t")[0]
    children = {}
    warns = []
    if log != ".":
        for e in log.split(" "):
            p, x = e.split(">")
            if x[0] == "W":
                i, pl, lv = x[1:].split(":")
                warns.append((int(pl), int(lv)))
            else:
                children.setdefault(p, []).append(x)

    def build(ref):
        out = []
        for x in children.get(ref, []):
            if x[0] == "S":
                out.append(["S", "h" + x[1:], build(x)])
            elif x[0] == "R":
                i, lv = x[1:].split(":")
                out.append(["R", "h" + i, int(lv)])
            elif x[0] == "C":
                out.extend(build(x))
        return out
    return build("D"), warns


W1 = re.compile(r"Non-consecutive header level increase; H(\d+) to H(\d+)")
W2 = re.compile(r"Document headings start at H(\d+), not H1")


def warn_pairs(msgs):
    """[(parent level, level)] if every message has a known wording, else None (then only counts are compared)"""
    out = []
    for m in msgs:
        a = W1.search(m)
        b = W2.search(m)
        if a:
            out.append((int(a.group(1)), int(a.group(2))))
        elif b:
            out.append((0, int(b.group(1))))
        else:
            return None
    return out


# ------------------------------------------------------------------ generators

FRAGILE = ("csv-table", "list-table")   # body must stay simple (one table cell): headings and paragraphs only


def rand_blocks(rng, depth, allow_titled, top=True, in_sidebar=False):
    kinds = container_kinds()[0]
    n = rng.randint(1, 5 if top else 3)
    out = []

    def sub(**kw):
        return rand_blocks(rng, depth - 1, allow_titled, False, kw.get("in_sidebar", in_sidebar))

    def push(b):
        if out and out[-1][0] in ("L", "X") and b[0] in ("L", "X"):
            out.append(["P"])  # adjacent lists (of the same kind) would merge into one list node
        out.append(b)
    for _ in range(n):
        k = rng.random()
        if k < 0.45 or depth <= 0:
            out.append(["H", rng.randint(1, 6)] if rng.random() < 0.8 else ["P"])
        elif k < 0.53:
            out.append(["Q", sub()])
        elif k < 0.61:
            push(["L", sub()])
        elif k < 0.67:
            out.append(["N", sub()])
        elif k < 0.71 and allow_titled:
            out.append(["T", sub()])
        elif k < 0.88 and kinds:
            c = rng.choice(kinds)
            if (c[1] in LOOSE and not top) or (c[1] == "sidebar" and in_sidebar):
                c = ["D", "topic"] if ["D", "topic"] in kinds else ["X", "ol"]
            if c[1] in FRAGILE:
                push(c + [[["H", rng.randint(1, 6)] if rng.random() < 0.7 else ["P"] for _ in range(rng.randint(1, 3))]])
            elif c[1] in LOOSE:
                push(c + [rand_blocks(rng, depth - 1, False, False, in_sidebar)])
            else:
                push(c + [sub(in_sidebar=in_sidebar or c[1] == "sidebar")])
        else:
            out.append(["I", rng.choice([0, 0, 1, 1, 2, 3]), sub()])
    return out


# header / footer content goes to document.decoration (front of the document): position is not compared
LOOSE = ("header", "footer")


def systematic(ctx):
    """every container kind in every surrounding context, and kind-in-kind combinations"""
    kinds = container_kinds()[0]
    wraps = [lambda b: [b], lambda b: [["Q", [b]]], lambda b: [["L", [["P"], b]]], lambda b: [["I", 2, [b]]],
             lambda b: [["N", [b]]]]
    for c in kinds:
        for wi, w in enumerate(wraps):
            if c[1] in LOOSE and wi:
                continue
            for tag in (1, 2, 6):
                yield [["H", 1], ["H", 2]] + w(c + [[["H", tag], ["P"]]]) + [["P"], ["H", 3]]
        yield [c + [[["H", 3]]], ["H", 1], c + [[["P"], ["H", 1], ["H", 5]]], ["H", 2]]
    inner = [c for c in kinds if c[1] not in LOOSE]
    pairs = [(a, b) for a in kinds for b in inner]
    if ctx.tier != "thorough" and not ctx.deep:
        import random
        pairs = random.Random("pairs-%s" % ctx.seed).sample(pairs, min(len(pairs), 250))
    for a, b in pairs:
        if a[1] in FRAGILE or (a[1] == "sidebar" and b[1] == "sidebar"):
            continue
        yield [["H", 2], a + [[["H", 1], b + [[["H", 4], ["P"]]], ["H", 2]]], ["H", 3]]


def case_stream(ctx, salt, allow_titled=True):
    maxlen = ctx.budget(4, 6, 6)
    for k in range(0, maxlen + 1):
        for seq in itertools.product(range(1, 7), repeat=k):
            yield [["H", l] for l in seq]
    # fixed shapes
    yield [["H", 3], ["H", 1], ["H", 3], ["Q", [["H", 2]]], ["P"], ["L", [["H", 1]]], ["N", [["H", 1]]], ["H", 2]]
    yield [["H", 1], ["I", 2, [["H", 1], ["H", 2], ["I", 1, [["H", 1]]]]], ["P"], ["H", 2], ["Q", [["I", 0, [["H", 1]]]]]]
    yield [["H", 1], ["I", 2, [["N", [["H", 2]]], ["Q", [["H", 2]]]]], ["H", 2]]
    if allow_titled:
        yield [["H", 1], ["H", 2], ["Q", [["P"], ["T", [["H", 2], ["P"]]]]], ["P"], ["H", 3]]
    yield from systematic(ctx)
    import random
    rng = random.Random("%s-%s-%s" % (ctx.seed, salt, ctx.tier))
    for _ in range(ctx.budget(3000, 15000, 30000)):
        r = rng.random()
        if r < 0.35:
            # long level sequences interleaved with paragraphs
            n = rng.randint(5, 30)
            doc = []
            for _ in range(n):
                doc.append(["H", rng.randint(1, 6)])
                if rng.random() < 0.3:
                    doc.append(["P"])
            yield doc
        else:
            yield rand_blocks(rng, 3, allow_titled)


def nontriv(doc):
    def has_nested(bs, inside):
        for b in bs:
            if b[0] == "H" and inside:
                return True
            if b[0] in ("Q", "L", "N", "T") and has_nested(b[1], True):
                return True
            if b[0] in ("D", "X") and has_nested(b[2], True):
                return True
            if b[0] == "I" and has_nested(b[2], inside):
                return True
        return False
    lv = [b[1] for b in doc if b[0] == "H"]
    skip = any(b > a + 1 for a, b in zip([0] + lv, lv)) or any(b < a for a, b in zip(lv, lv[1:]))
    return skip or has_nested(doc, False) or any(b[0] == "I" for b in doc)


# ------------------------------------------------------------------ parallel helpers

def _impl_chunk(docs):
    from lib.impl import scratch_dir
    out = []
    with scratch_dir() as d:
        for doc in docs:
            try:
                out.append(run_impl(doc, d))
            except Exception as e:
                out.append(("!" + type(e).__name__, None, None))
    return out


def pmap_chunks(fn, items, jobs=12, chunk=200):
    chunks = [items[i:i + chunk] for i in range(0, len(items), chunk)]
    if len(chunks) <= 1:
        return [fn(c) for c in chunks]
    import multiprocessing as mp
    try:
        with mp.get_context("fork").Pool(min(jobs, len(chunks))) as pool:
            return pool.map(fn, chunks)
    except (OSError, PermissionError):
        return [fn(c) for c in chunks]


# ------------------------------------------------------------------ correspondence

def corr(ctx):
    if not ctx.have_runner:
        return
    kept, dropped = container_kinds()
    ctx.notes.append("container kinds exercised: " + ", ".join(c[1] for c in kept)
                     + "; registered directives with content that reject a heading body / are not nested-parsed: " + ", ".join(dropped))
    if len(kept) < 20:
        raise RuntimeError("container probing found only %d kinds: %r" % (len(kept), kept))
    docs = list(case_stream(ctx, "corr"))
    lines = ["render\t" + enc_tree(doc) for doc in docs]
    mouts = model_run_parallel(PID, lines)
    impl = [r for part in pmap_chunks(_impl_chunk, docs) for r in part]
    nd = 0
    for doc, mo, (itree, iw, other) in zip(docs, mouts, impl):
        ctx.corr_cases += 1
        mtree, mw = canon_model(mo)
        if is_loose(doc) and not isinstance(itree, str) and not isinstance(mtree, str):
            itree, mtree = loosen(itree), loosen(mtree)
        kinds = set(_kinds(doc))
        ctx.count("doc:" + ("headings-only" if kinds <= {"H"} else "flat" if kinds <= {"H", "P"} else "nested"))
        for k in kinds - {"H", "P"}:
            ctx.count("with:" + k)
        if any(":" in k for k in kinds):
            ctx.count("doc:with-directive-or-token-container")
        if nontriv(doc):
            ctx.nontriv(repr(doc))
        bad = None
        if isinstance(itree, str) or isinstance(mtree, str):
            if itree != mtree:
                bad = ("exception", itree, mtree)
        else:
            if itree != mtree:
                bad = ("tree", itree, mtree)
            else:
                ip = warn_pairs(iw)
                if ip is None:
                    if len(iw) != len(mw):
                        bad = ("warning count", len(iw), len(mw))
                elif sorted(ip) != sorted(mw):
                    bad = ("warnings", sorted(ip), sorted(mw))
            if other and not bad:
                bad = ("unexpected docutils error", [w["msg"] for w in other], [])
        if bad:
            nd += 1
            if nd <= 20:
                ctx.disagree("sections: " + bad[0], {"doc": doc}, bad[1], bad[2])
    if ctx.tier == "thorough" or ctx.deep:
        corr_sphinx(ctx)
    ctx.sample({"doc": docs[len(docs) // 2], "markdown": render_doc(docs[len(docs) // 2])[0]})
    ctx.sample({"doc": docs[-1], "markdown": render_doc(docs[-1])[0], "files": render_doc(docs[-1])[1]})


# ------------------------------------------------------------------ Sphinx front end (thorough tier)

SPHINX_D = ["admonition", "topic", "sidebar", "container", "compound", "epigraph", "tip", "warning"]


def sphinx_docs(ctx, n):
    import random
    rng = random.Random("%s-sphinx-%s" % (ctx.seed, ctx.tier))
    global _KINDS
    saved = _KINDS
    # under Sphinx: a fixed subset of directives, the MyST container tokens, {only} as the match_titles directive
    # (footnote definitions are left out: the doctree Sphinx stores is the one after the footnote-collecting transform)
    _KINDS = ([["D", k] for k in SPHINX_D] + [["X", k] for k in X_KINDS if k != "fn"], [])
    try:
        docs = [[["H", 3], ["H", 1], ["H", 3], ["Q", [["H", 2]]], ["P"], ["L", [["H", 1]]], ["N", [["H", 1]]], ["H", 2]],
                [["H", 1], ["I", 2, [["H", 1], ["H", 2], ["I", 1, [["H", 1]]]]], ["P"], ["H", 2], ["Q", [["I", 0, [["H", 1]]]]]],
                [["H", 1], ["H", 2], ["Q", [["P"], ["T", [["H", 2], ["P"]]]]], ["P"], ["H", 3]]]
        for k in range(1, 4):
            for seq in itertools.product(range(1, 7), repeat=k):
                if k < 3 or rng.random() < 0.3:
                    docs.append([["H", l] for l in seq])
        while len(docs) < n:
            docs.append(rand_blocks(rng, 3, True))
    finally:
        _KINDS = saved
    return docs[:n]


def run_sphinx_batch(docs):
    """-> [(canonical tree, [myst.header messages], [other errors])] through an in-process Sphinx build"""
    import shutil
    from lib.impl import SphinxProject
    files, names = {}, []
    for k, doc in enumerate(docs):
        main, inc = render_doc(doc, prefix="d%d_" % k, ext=".inc", titled="{only} html")
        files["d%d.md" % k] = main
        files.update(inc)
        names.append("d%d" % k)
    files["index.md"] = "# index\n"
    proj = SphinxProject(files, conf="myst_enable_extensions = ['deflist', 'fieldlist', 'colon_fence']\n", builder="dummy")
    res = proj.build(keep=True)
    try:
        env = res["app"].env
        wl = [re.sub(r"\x1b\[[0-9;]*m", "", l) for l in res["warnings"].splitlines()]
        out = []
        for k, name in enumerate(names):
            tree = canon_impl(env.get_doctree(name))
            pat = re.compile(r"(?<![A-Za-z0-9_])d%d(_inc\d+\.inc|\.md)[^: ]*:" % k)
            mine = [l for l in wl if pat.search(l)]
            hw = [l for l in mine if "[myst.header]" in l]
            other = [l for l in mine if "ERROR" in l or "SEVERE" in l or "CRITICAL" in l]
            out.append((tree, hw, other))
        return out
    finally:
        shutil.rmtree(os.path.dirname(res["src"]), ignore_errors=True)


def corr_sphinx(ctx):
    docs = sphinx_docs(ctx, ctx.budget(0, 900, 900))
    if not docs:
        return
    lines = ["render\t" + enc_tree(doc) for doc in docs]
    mouts = model_run_parallel(PID, lines)
    nd = 0
    for a in range(0, len(docs), 150):
        part = docs[a:a + 150]
        try:
            res = run_sphinx_batch(part)
        except Exception as e:
            ctx.disagree("sphinx build", {"doc": part[0], "front_end": "sphinx"}, "!" + type(e).__name__ + ": " + str(e)[:300], "")
            continue
        for doc, mo, (itree, hw, other) in zip(part, mouts[a:a + 150], res):
            ctx.corr_cases += 1
            ctx.count("sphinx:doc")
            mtree, mw = canon_model(mo)
            bad = None
            if itree != mtree:
                bad = ("tree", itree, mtree)
            else:
                ip = warn_pairs(hw)
                if ip is None:
                    if len(hw) != len(mw):
                        bad = ("warning count", len(hw), len(mw))
                elif sorted(ip) != sorted(mw):
                    bad = ("warnings", sorted(ip), sorted(mw))
            if other and not bad:
                bad = ("unexpected error", other[:2], [])
            if bad:
                nd += 1
                if nd <= 10:
                    ctx.disagree("sphinx sections: " + bad[0], {"doc": doc, "front_end": "sphinx"}, bad[1], bad[2])


def _kinds(bs):
    for b in bs:
        yield b[0] if b[0] not in ("D", "X") else b[0] + ":" + b[1]
        ch = children_of(b)
        if ch is not None:
            yield from _kinds(ch)


def is_loose(doc):
    return any(k in ("D:header", "D:footer") for k in _kinds(doc))


def loosen(tree):
    """section tree without rubrics + sorted rubrics (for documents with header/footer content)"""
    rub = []

    def strip(t):
        out = []
        for x in t:
            if x[0] == "S":
                out.append(["S", x[1], strip(x[2])])
            else:
                rub.append(x)
        return out
    st = strip(tree)
    return [st, sorted(rub)]


# ------------------------------------------------------------------ direct property oracle

def expected_structure(doc):
    """Independent computation from the document structure:
    (doc-level headings [(id, level)], nested headings {id: level}) with ids in source order."""
    top, nested, ignored = [], {}, set()
    counter = [0]

    def skip(bs):
        # inside a directive that parses its body with match_titles=True headings may open sections (by design);
        # the property only requires that the structure outside is as if the directive were not there
        for b in bs:
            if b[0] == "H":
                ignored.add(counter[0])
                counter[0] += 1
            elif children_of(b) is not None:
                skip(children_of(b))

    def walk(bs, off, inside):
        for b in bs:
            k = b[0]
            if k == "H":
                i = counter[0]
                counter[0] += 1
                if inside:
                    nested[i] = b[1] + off
                else:
                    top.append((i, b[1] + off))
            elif k in ("Q", "L"):
                walk(b[1], off, True)
            elif k == "N":
                walk(b[1], off, True)      # documented reading: "offset all the heading levels" of the included document,
            elif k == "I":                 # so offsets of nested includes add up and directive bodies keep the offset
                walk(b[2], off + b[1], inside)
            elif k == "D" or k == "X":
                walk(b[2], off, True)
            elif k == "T":
                skip(b[1])
    walk(doc, 0, False)
    return top, nested, ignored


def parent_spec(levels, i):
    """closest preceding still-open heading of lower level, else None (the document)"""
    for j in range(i - 1, -1, -1):
        if levels[j] < levels[i] and all(levels[k] > levels[j] for k in range(j + 1, i)):
            return j
    return None


def check_doc(ctx, case, d):
    doc = case["doc"]
    ok = True

    def fail(sig, what, expected=None, observed=None):
        nonlocal ok
        ok = False
        ctx.fail(sig, case, what, expected, observed)
    try:
        itree, iw, other = run_impl(doc, d)
    except Exception as e:
        fail("sections:exception:" + type(e).__name__, "rendering raised %r" % (e,))
        return False
    if other:
        fail("sections:docutils-error", "rendering reported %s" % other[0]["msg"][:200])
    top, nested, ignored = expected_structure(doc)
    levels = [l for _, l in top]
    ids = [i for i, _ in top]
    exp_parent = {}
    nwarn = 0
    for k, (i, l) in enumerate(top):
        p = parent_spec(levels, k)
        exp_parent[i] = None if p is None else ids[p]
        if l - (0 if p is None else levels[p]) > 1:
            nwarn += 1
    # observed: parent of every section, order of appearance, rubrics
    obs_parent, order, rubrics = {}, [], {}

    def walk(t, parent):
        for x in t:
            m = re.fullmatch(r"h(\d+)", x[1] or "")
            hid = int(m.group(1)) if m else x[1]
            if x[0] == "S":
                obs_parent[hid] = parent
                order.append(hid)
                walk(x[2], hid)
            else:
                rubrics[hid] = x[2]
                order.append(hid)
    walk(itree, None)
    opened = sorted(i for i in ignored if i in obs_parent)
    if opened:
        fail("sections:match-titles-directive-opens-section",
             "heading(s) %s in the body of a directive that nested-parses with match_titles=True opened a section "
             "(attached to %s, outside the directive)" % (", ".join("h%d" % i for i in opened),
                                                          ["document" if obs_parent[i] is None else "h%s" % obs_parent[i] for i in opened]),
             "rubric", "section")
        ok = True  # keep checking the structure outside the directive
    obs_parent = {i: p for i, p in obs_parent.items() if i not in ignored}
    rubrics = {i: l for i, l in rubrics.items() if i not in ignored}
    order = [i for i in order if i not in ignored]
    for i in nested:
        if i in obs_parent:
            fail("sections:nested-heading-made-section", "heading h%d inside a container opened a section" % i)
    for i, _ in top:
        if i not in obs_parent:
            fail("sections:document-level-heading-not-a-section", "heading h%d at document level did not become a section" % i)
    if ok:
        if obs_parent != exp_parent:
            diff = {i: (exp_parent[i], obs_parent.get(i)) for i in exp_parent if exp_parent[i] != obs_parent.get(i)}
            fail("sections:wrong-parent", "section parents differ from 'closest preceding still-open heading of lower level': "
                 "{heading: (expected, observed)} = %r" % diff, exp_parent, obs_parent)
        if order != sorted(order) and not is_loose(doc):
            fail("sections:order", "sections/rubrics are not in source order", sorted(order), order)
        if rubrics != nested:
            fail("sections:rubric-level", "rubrics {heading: level} differ from the nested headings", nested, rubrics)
    if not ignored and len(iw) != nwarn:
        fail("sections:warning-count", "%d [myst.header] warnings, expected %d (one per upward skip of more than one level)"
             % (len(iw), nwarn), nwarn, iw)
    return ok and not opened


class _MiniCtx:
    def __init__(self):
        self.failures = []

    def fail(self, signature, witness, what, expected=None, observed=None):
        self.failures.append({"signature": signature, "witness": witness, "what": what,
                              "expected": expected, "observed": observed})


def _check_chunk(docs):
    from lib.impl import scratch_dir
    mc = _MiniCtx()
    with scratch_dir() as d:
        for doc in docs:
            check_doc(mc, {"doc": doc}, d)
    return mc.failures


def search(ctx):
    from lib.impl import scratch_dir
    seen = {}
    with scratch_dir() as d:
        for c in ctx.suspects[:200]:
            if c and "doc" in c:
                ctx.search_cases += 1
                check_doc(ctx, c, d)
    container_kinds()
    docs = list(case_stream(ctx, "search"))
    ctx.search_cases += len(docs)
    for part in pmap_chunks(_check_chunk, docs):
        for f in part:
            seen[f["signature"]] = seen.get(f["signature"], 0) + 1
            if seen[f["signature"]] <= 5:
                ctx.failures.append(f)


def replay(ctx, data):
    from lib.impl import scratch_dir
    w = data.get("witness")
    if not w:
        print("replay file names no concrete input:", data.get("no_longer_checks"))
        return 1
    with scratch_dir() as d:
        ok = check_doc(ctx, w, d)
    print("replay:", "property holds on this input" if ok else ctx.failures[-1])
    print(render_doc(w["doc"])[0])
    return 0 if ok else 1


LEVEL_TEXT = ("Proof (Coq 8.16, 15 theorems, all closed under the global context). FULL, for every input without bound: "
              "C05_level_map_inv (any token tree with tags >= 1: rendering never raises, level 0 stays first in the level map, keys "
              "strictly increasing); C05_sections_refine_spec + C05_skip_warnings (every level sequence: exactly one edge per heading, in "
              "source order, from the closest preceding still-open heading of lower level or the document; exactly one [myst.header] "
              "warning per upward skip of more than one level and nothing else); C05_parent_spec_unique, C05_greatest_lower_is_open; "
              "C05_document_sections (whole documents: document-level headings interleaved with any blocks, containers, directive "
              "bodies and nested heading-offset includes, w.r.t. effective levels = tag + sum of the enclosing offsets); "
              "C05_directive_headings_are_rubrics; C05_restore_after_nested, C05_restore_after_titled_directive; "
              "C05_titled_directive_attaches (where a match_titles directive attaches its section). TIED TO REGENERATED CODE: "
              "C05_source_refines_model (update_section_level_state, render_heading skeleton, nested_render_text._restore as "
              "re-translated from base.py on this run = model) and C05_sections_refine_spec_src (the refinement theorem on the "
              "regenerated step). PARTIAL + REFUTED: C05_nested_headings_are_rubrics_partial (containers never make sections, rubrics "
              "record their level - guarded by 'no match_titles directive inside') with C05_nested_headings_are_rubrics_refuted.")
LEVEL_NOTE = ("Open finding (KNOWN-FINDING on every run): sections:match-titles-directive-opens-section - a directive that nested-parses "
              "with match_titles=True (Sphinx {only}) opens sections even inside a block quote, attached through the outer level map to "
              "an outer section, not to the directive's node; characterised by C05_titled_directive_attaches, not repaired. Fixed during "
              "the work: 94acff7 (heading offsets of nested renders accumulate). Oracle / trusted parts: the token-tree walk of "
              "Sections.v (containers, MockState.nested_parse, MockIncludeDirective) is hand-written and tied by differential "
              "correspondence only (docutils both tiers, Sphinx thorough tier); markdown-it block parsing and the docutils directive "
              "classes are oracles; statements of render_heading listed in RH_SKIP are asserted irrelevant. Limits: inline children, ids "
              "and names of headings are outside the model (C09/C10); an exception inside nested_render_text skips the restore "
              "(modelled as Raise, unreachable by C05_level_map_inv).")
