"""C11 - footnotes are numbered, linked and collected consistently."""
from __future__ import annotations

import os
import re
from concurrent.futures import ProcessPoolExecutor

from lib.common import enc_str, enc_strs, dec_str, dec_ostr, model_run_parallel, src_hashes

PID = "C11"
RULE = ("correspondence: every arrangement of <= N events (reference / top-level definition / definition inside a block quote) over "
        "a small label set (named, numeric) under the four footnote_sort x footnote_transition settings, plus random larger "
        "arrangements (references and definitions nested to depth 4 in quotes, list items, definition-list definitions and sections; "
        "references in table cells, field lists, headings and definition bodies; missing, duplicate and unreferenced labels), "
        "published through the docutils front end (and Sphinx builds in the thorough tier); separately docutils' Footnotes transform "
        "alone on exhaustively enumerated hand-built registries against its transcription (O_footnotes_xform); the "
        "extracted Coq pipeline is compared with the real doctree per reference (target label, displayed number), per footnote "
        "(label, number, back-references, body), on the layout of the document's children (in place / collected at the end, order, "
        "transition) and on the ref.footnote warning lines. search: the property clauses evaluated directly on the real doctree. "
        "non-trivial = an arrangement with at least one reference and one definition")
TRUSTED = ["SortFootnotes.apply, UnreferencedFootnotesDetector.apply, CollectFootnotes.apply (transforms.py) and render_footnote_ref / "
           "render_footnote_reference (base.py) are translated from the source on every run (gen/c11_src.py on gen/c09_pywalk.py -> "
           "coq/Gen/FootSrc.v) and proved equal to the hand-written model coq/Refs/Foot.v (C11_run_src_is_run, C11_render_src_is_model); "
           "trusted there: the domain mapping = coq/Refs/FootOps.v + the table in the docstring of gen/c11_src.py (registries -> record "
           "fields, node['names'] -> the one label, L[0] / L.index(x) only under a syntactic guard, list.sort/sorted -> the stable insertion "
           "sort, create_warning -> one warning value, footnote.parent.remove + document += -> remove_foot / append on the layout tree, "
           "try int() except ValueError -> match int_of, document.note_* -> registry updates, the `with current_node_context` block -> rendered "
           "by the caller) and the walker's control-flow translation; docutils' Footnotes transform / note_* stay a hand transcription",
           "gen/c11_transforms.py (priorities and get_transforms lists -> coq/Gen/Transforms.v)",
           "docutils Transformer applies transforms sorted by (priority, insertion order)",
           "the Markdown parser (markdown-it footnote plugin) turns [^l] / [^l]: into footnote_ref / footnote_reference tokens in document order"]
ORACLES = {"O_footnotes_xform": "(final: DISCHARGED for the translated source - C11_docutils_footnotes_src proves footnotes_apply_src, generated from the installed docutils, equal to the transcription on every renderer-produced registry, and C11_all_src_is_run removes the premise; what is left to trust is the mapping coq/Refs/DocutilsOps.v) (round 4: the transform is also TRANSLATED from the installed docutils source on every run, Gen/DocutilsFootSrc.v; number_footnotes proved equal to the transcription - C11_docutils_number_src_partial -, the whole translated apply run extracted beside the transcription on every enumerated registry) docutils.transforms.references.Footnotes (number_footnotes, number_footnote_references, resolve_footnotes_and_citations) and document.note_*: transcribed in Foot.v (docutils_footnotes); validated on its own by corr_docutils_only (the real transform applied to hand-built docutils documents: extra registered names x orders of auto-numbered footnotes x manual footnotes x reference sequences, exhaustively for small sizes) and exercised by every pipeline case",
           "O_footnotes_xform_fx": "the same assumption under the name it has in coq/Refs/FootSrcProofs.v (Section SrcTheorems): fx s = docutils_footnotes s; exercised by corr_docutils_only and every pipeline case",
           "O_isdigit_int": "Python str.isdigit / int(): passed to the model as a table computed by Python for the labels of the case",
           "O_show": "str(int) = Base.PyStr.show (decimal); used for the numbers docutils assigns"}
ASSUMPTIONS = ["dict iteration order = insertion order (CPython >= 3.7)",
               "list.sort / sorted are stable",
               "only footnote material registers names in the generated documents (no heading or target shares a label with a footnote)"]
LEVEL_TEXT = ("Proof (Coq), 30 theorems, all closed, over a Gallina model of the footnote pipeline (renderer methods + SortFootnotes + docutils "
              "Footnotes + UnreferencedFootnotesDetector + CollectFootnotes, ordered by the regenerated priorities; documents are rose trees of "
              "references / definitions / containers), for all arrangements and both settings: references point at their definition with the same "
              "number and are back-linked (C11_refs_point_to_defs), labels pairwise distinct (C11_labels_distinct), auto numbers follow first "
              "reference and referenced footnotes precede unreferenced ones when sorting is on (C11_auto_order_partial, C11_referenced_first_partial; "
              "for sorting off refuted: C11_auto_order_refuted = the open finding), numeric labels keep their number, collection from any depth / "
              "ascending order / transition rule (C11_collect_layout, C11_collect_sorted, C11_stay_put), one warning per duplicate / unreferenced "
              "definition (C11_dup_and_unreferenced), no text lost (C11_no_text_lost), transform order from the source (C11_transform_order), totality "
              "(C11_total). EVERY RUN regenerates the Gallina definitions from the sources and re-proves them equal to the model: the three MyST "
              "transforms and the two renderer methods from transforms.py / base.py (C11_run_src_is_run, C11_render_src_is_model), docutils' Footnotes "
              "transform from the INSTALLED docutils source (C11_docutils_footnotes_src: apply, number_footnotes, number_footnote_references, "
              "resolve_* equal the transcription on every registry state the renderer produces) and the document.note_* registry methods "
              "(C11_docutils_registry_methods_src); hence C11_all_src_is_run and the *_all_src theorems hold with no oracle premise.")
LEVEL_NOTE = ("Remaining trust: the domain mappings (coq/Refs/FootOps.v, coq/Refs/DocutilsOps.v + the tables in gen/c11_src.py, gen/c11_docutils.py: "
              "what node/registry operations mean on the model types; docutils statements matched by exact text; symbolize_footnotes locked by "
              "source hash because MyST registers no symbol footnotes - C11_only_named_footnotes) and the statement walker; markdown-it's footnote "
              "tokenisation (oracle); set_duplicate_name_id (dupnames) is not modelled - documents whose only names are footnote labels never reach "
              "it; the mappings and these limits are exercised by the differential correspondence (docutils + Sphinx front ends, docutils-only "
              "registries). Open finding: with footnote_sort=False auto numbers follow definition order.")

KNOWN_SORT_OFF = {"kind": "arr", "arr": [["R", ["b"]], ["R", ["a"]], ["D", "a", []], ["D", "b", []]], "sort": False, "trans": True}


def gen(ctx):
    import hashlib
    from gen import c11_transforms, c11_src
    from lib import common
    c11_transforms.run(ctx)
    # Gen/FootSrc.v: SortFootnotes / UnreferencedFootnotesDetector / CollectFootnotes .apply translated from the source
    text = c11_src.generate(common.REPO)
    common.write_if_changed(common.COQ / "Gen" / "FootSrc.v", text)
    ctx.gen_info["Gen/FootSrc.v"] = hashlib.sha256(text.encode()).hexdigest()[:16]
    # Gen/DocutilsFootSrc.v: docutils' Footnotes transform translated from the INSTALLED docutils source
    from gen import c11_docutils
    text = c11_docutils.generate()
    common.write_if_changed(common.COQ / "Gen" / "DocutilsFootSrc.v", text)
    ctx.gen_info["Gen/DocutilsFootSrc.v"] = hashlib.sha256(text.encode()).hexdigest()[:16]
    ctx.gen_info["sources"] = src_hashes(["myst_parser/mdit_to_docutils/transforms.py", "myst_parser/mdit_to_docutils/base.py",
                                          "myst_parser/parsers/docutils_.py", "myst_parser/parsers/sphinx_.py"])


# ------------------------------------------------------------------ model side

SETTINGS = {"myst_enable_extensions": ["deflist", "fieldlist"], "doctitle_xform": False}
KNOWN_MANY = {"kind": "arr", "arr": [["R", ["z"] * 1000 + ["a"]], ["D", "z", []], ["D", "a", []], ["D", "u", []]],
              "sort": True, "trans": True}


def labels_of(arr):
    out = []

    def walk(items):
        for it in items:
            if it[0] == "R":
                out.extend(it[1])
            elif it[0] == "D":
                out.append(it[1])
                out.extend(it[2])
            else:
                if len(it) > 3:
                    out.extend(it[3])
                walk(it[2])
    walk(arr)
    return list(dict.fromkeys(out))


def py_int(s):
    try:
        return int(s)
    except ValueError:
        return None


def model_line(case, legacy=False):
    from gen.c11_docs import to_model
    arr = case["arr"]
    labs = labels_of(arr)
    f = ["run", "1" if legacy else "0", "1" if case["sort"] else "0", "1" if case["trans"] else "0", "L", str(len(labs))]
    for l in labs:
        i = py_int(l)
        f += [enc_str(l), "1" if l.isdigit() else "0", "~" if i is None else str(i)]

    def enc(items):
        for it in items:
            if it[0] == "R":
                f.extend(["R", enc_strs(it[1])])
            elif it[0] == "D":
                f.extend(["D", enc_str(it[1]), str(it[2]), enc_strs(it[3])])
            else:
                f.extend(["B", str(len(it[1]))])
                enc(it[1])
    enc(to_model(arr))
    return "\t".join(f)


def parse_layout(tokens):
    """token stream of the driver -> nested list: "O" | "M" | "T" | "F:label" | ["B", [...]]"""
    pos = [0]

    def items(closing):
        out = []
        while pos[0] < len(tokens):
            t = tokens[pos[0]]
            pos[0] += 1
            if t == "]":
                if closing:
                    return out
                raise ValueError("unbalanced layout")
            if t == "[":
                out.append(["B", items(True)])
            elif t in ("O", "M", "T"):
                out.append(t)
            else:
                out.append("F:" + dec_str(t[2:]))
        return out
    return items(False)


def lay_str(lay):
    return " ".join(x if isinstance(x, str) else "[" + lay_str(x[1]) + "]" for x in lay)


def lay_strip(lay, drop=("F",)):
    """remove footnotes (drop=("F",)) or messages (("M",)) at every depth"""
    out = []
    for x in lay:
        if isinstance(x, str):
            if x[0] in drop and (x == "M" or x.startswith("F:")):
                continue
            out.append(x)
        else:
            out.append(["B", lay_strip(x[1], drop)])
    return out


def lay_foots(lay):
    out = []
    for x in lay:
        if isinstance(x, str):
            if x.startswith("F:"):
                out.append(x[2:])
        else:
            out += lay_foots(x[1])
    return out


def decode_warns(warn_s, info):
    """model warnings -> (lines of the definitions they are about, #too-many errors)"""
    wl, too_many = [], 0
    seen = {}
    first_line, dup_lines = {}, {}
    for d in info["defs"]:
        if d["label"] in first_line:
            dup_lines.setdefault(d["label"], []).append(d["line"])
        else:
            first_line[d["label"]] = d["line"]
    if warn_s != ".":
        for it in warn_s.split(" "):
            if it == "X":
                too_many += 1
            elif it.startswith("D!"):
                l = dec_str(it[2:])
                k = seen.get(l, 0)
                seen[l] = k + 1
                wl.append(dup_lines[l][k] if k < len(dup_lines.get(l, [])) else -1)
            else:
                _, l, _a = it.split("!")
                wl.append(first_line.get(dec_str(l), -1))
    return sorted(wl), too_many


def decode_refs_foots(refs_s, foots_s):
    refs = []
    if refs_s != ".":
        for it in refs_s.split(" "):
            idx, lab, rid, txt = it.split("!")
            refs.append({"label": dec_str(lab), "target": dec_ostr(rid), "text": dec_ostr(txt)})
    foots = {}
    if foots_s != ".":
        for it in foots_s.split(" "):
            lab, disp, back, body = it.split("!")
            foots[dec_str(lab)] = {"display": dec_str(disp), "backrefs": [] if back == "." else [int(x) for x in back.split("+")],
                                   "body": int(body)}
    return refs, foots


def parse_model(reply, info):
    """-> canonical observation dict (same shape as observe())"""
    if reply.startswith("!"):
        return {"exc": reply[1:]}
    refs_s, foots_s, layout_s, warn_s = reply.split(" # ")
    refs, foots = decode_refs_foots(refs_s, foots_s)
    layout = [] if layout_s == "." else parse_layout(layout_s.split(" "))
    wl, too_many = decode_warns(warn_s, info)
    return {"exc": None, "refs": refs, "foots": foots, "layout": layout, "wlines": wl, "too_many": too_many}


# ------------------------------------------------------------------ implementation side

def flabel(f):
    return (list(f["names"]) + list(f.get("dupnames", [])) + ["?"])[0]


def abstract_refs_foots(doc):
    from docutils import nodes
    refnodes = [n for n in doc.findall(lambda n: isinstance(n, (nodes.footnote_reference, nodes.problematic)))
                if isinstance(n, nodes.footnote_reference) or n.astext().startswith("[^")]

    # document order as written = creation order = the counter in the auto-generated id
    # (collected footnotes take the references inside their bodies to the end of the tree)
    def created(r):
        m = re.search(r"(\d+)$", (list(r.get("ids", [])) + ["0"])[0])
        return int(m.group(1)) if m else 0
    refnodes.sort(key=created)
    id2idx = {}
    for i, r in enumerate(refnodes):
        for x in r.get("ids", []):
            id2idx[x] = i
    footnodes = list(doc.findall(nodes.footnote))
    id2foot = {}
    for f in footnodes:
        for x in f.get("ids", []):
            id2foot[x] = f
    refs = []
    for r in refnodes:
        if isinstance(r, nodes.problematic):
            m = re.match(r"\[\^(.*)\]$", r.astext())
            refs.append({"label": m.group(1) if m else "?", "target": None, "text": None, "problematic": True})
            continue
        tgt = id2foot.get(r.get("refid"))
        refs.append({"label": r.get("refname", None), "target": flabel(tgt) if tgt is not None else None,
                     "text": r.astext() or None})
    foots = {}
    for f in footnodes:
        lab = [c for c in f.children if isinstance(c, nodes.label)]
        m = re.search(r"body(\d+)z", f.astext())
        foots.setdefault(flabel(f), []).append(
            {"display": lab[0].astext() if lab else None, "backrefs": [id2idx.get(b, -1) for b in f.get("backrefs", [])],
             "body": int(m.group(1)) if m else None})
    return refs, foots


def abstract_layout(node):
    """the children of a node as far as footnotes are concerned, at every depth:
    footnote -> "F:label", system_message -> "M", transition -> "T"; block quotes, list items, definitions and
    sections are containers ["B", ...]; list / definition-list wrappers are transparent; anything else "O" """
    from docutils import nodes
    out = []
    for c in node.children:
        if isinstance(c, nodes.footnote):
            out.append("F:" + flabel(c))
        elif isinstance(c, nodes.system_message):
            out.append("M")
        elif isinstance(c, nodes.transition):
            out.append("T")
        elif isinstance(c, nodes.section) and "system-messages" in c.get("classes", []):
            continue
        elif isinstance(c, (nodes.block_quote, nodes.list_item, nodes.definition, nodes.section)):
            out.append(["B", abstract_layout(c)])
        elif isinstance(c, (nodes.bullet_list, nodes.enumerated_list, nodes.definition_list, nodes.definition_list_item)):
            out += abstract_layout(c)
        elif isinstance(c, nodes.Element):
            out.append("O")
    return out


def abstract_tree(doc):
    refs, foots = abstract_refs_foots(doc)
    return refs, foots, abstract_layout(doc)


def observe(case):
    from gen.c11_docs import render
    from lib.impl import publish, parse_warnings
    text, info = render(case["arr"])
    st = dict(SETTINGS)
    st.update({"myst_footnote_sort": case["sort"], "myst_footnote_transition": case["trans"]})
    try:
        doc, ws = publish(text, st)
    except Exception as e:
        return {"exc": type(e).__name__, "sig": exc_signature(e), "text": text, "info": info}
    refs, foots, layout = abstract_tree(doc)
    warns = parse_warnings(ws)
    return {"exc": None, "text": text, "info": info, "refs": refs, "foots": foots, "layout": layout,
            "nbody": len(re.findall(r"body\d+z", doc.astext())),
            "wlines": sorted((w["line"] or 0) for w in warns if w["tag"] == "ref.footnote"),
            "errors": sum(1 for w in warns if w["level"] == "ERROR" and "Too many autonumbered" in w["msg"])}


def exc_signature(e):
    import traceback
    tb = traceback.extract_tb(e.__traceback__)
    site = "?"
    if tb:
        site = os.path.basename(tb[-1].filename).rsplit(".", 1)[0] + "." + tb[-1].name
    return f"exception:{type(e).__name__}:{site}"


def compare(obs, m, layout=True):
    if obs["exc"] or m["exc"]:
        return None if obs["exc"] == m["exc"] else f"impl raised {obs['exc']}, model {m['exc']}"
    if len(obs["refs"]) != len(m["refs"]):
        return f"{len(obs['refs'])} references in the doctree, model {len(m['refs'])}"
    for i, (a, b) in enumerate(zip(obs["refs"], m["refs"])):
        if a["target"] != b["target"]:
            return f"reference {i} [^{b['label']}]: points at {a['target']!r}, model {b['target']!r}"
        if b["target"] is not None and a["text"] != b["text"]:
            return f"reference {i} [^{b['label']}]: shows {a['text']!r}, model {b['text']!r}"
    fo = obs["foots"]
    if sorted(fo) != sorted(m["foots"]) or any(len(v) != 1 for v in fo.values()):
        return f"footnotes {sorted((k, len(v)) for k, v in fo.items())}, model {sorted(m['foots'])}"
    for k, v in m["foots"].items():
        a = fo[k][0]
        if a["display"] != v["display"]:
            return f"footnote {k}: label {a['display']!r}, model {v['display']!r}"
        if a["backrefs"] != v["backrefs"]:
            return f"footnote {k}: backrefs {a['backrefs']}, model {v['backrefs']}"
        if v["body"] is not None and a["body"] != v["body"]:
            return f"footnote {k}: body {a['body']}, model {v['body']}"
    if layout and obs["layout"] != m["layout"]:
        return f"layout {lay_str(obs['layout'])}, model {lay_str(m['layout'])}"
    if obs["wlines"] != m["wlines"]:
        return f"ref.footnote warnings at lines {obs['wlines']}, model {m['wlines']}"
    if obs["errors"] != m["too_many"]:
        return f"'Too many autonumbered' errors {obs['errors']}, model {m['too_many']}"
    return None


_CACHE = {}


def _key(case):
    return (repr(case["arr"]), case["sort"], case["trans"])


def _observe_safe(case):
    try:
        return observe(case)
    except Exception as e:  # pragma: no cover
        return {"exc": "harness:" + repr(e)}


def pmap(fn, items, chunksize=32):
    if len(items) < 64:
        return [fn(x) for x in items]
    import multiprocessing as mp
    with ProcessPoolExecutor(max_workers=min(16, os.cpu_count() or 4), mp_context=mp.get_context("fork")) as ex:
        return list(ex.map(fn, items, chunksize=chunksize))


FIXED = [
    [["R", ["b"]], ["R", ["a"]], ["D", "a", []], ["D", "b", []]],
    [["R", ["b", "a", "1", "b", "zz"]], ["D", "a", []], ["D", "b", []], ["B", "quote", [["D", "1", []], ["D", "a", []]]], ["D", "u", []]],
    [["D", "a", ["a"]]],
    [["D", "a", []], ["D", "a", []]],
    [["R", ["10", "2", "x"]], ["D", "x", []], ["D", "10", []], ["D", "2", []]],
    [["R", ["01", "a"]], ["D", "01", []], ["D", "a", []]],
    [["R", ["a", "2"]], ["D", "2", []], ["D", "a", []], ["D", "b", []], ["R", ["b"]]],
    [["R", ["²", "1"]], ["D", "²", []], ["D", "1", []]],
    [["R", ["٣", "a"]], ["D", "a", []], ["D", "٣", []]],
    [["R", ["*", "a", "#"]], ["D", "*", []], ["D", "a", []], ["D", "#", []]],      # not symbol / anonymous footnotes: ordinary names
    # nesting: list > quote > definition, definition-list definition, sections with a reference in the heading
    [["R", ["a"], "table"], ["B", "list", [["B", "quote", [["D", "a", ["b"]], ["R", ["1"]]]], ["D", "b", []]]],
     ["B", "dl", [["R", ["a"], "field"], ["D", "1", []], ["B", "list", [["D", "a", []]]]]],
     ["B", "section", [["R", ["b"]], ["B", "quote", [["B", "dl", [["D", "c", []]]]]]], ["c"]], ["B", "section", [["D", "z", []]], []]],
    [["B", "section", [["D", "a", []]], ["a"]]],
    [["B", "quote", [["B", "quote", [["B", "quote", [["B", "list", [["D", "a", []]]]]]]]]], ["R", ["a"]]],
]


def case_stream(ctx, for_search=False):
    from gen.c11_docs import small_arrangements, random_arrangement
    settings = [(s, t) for s in (True, False) for t in (True, False)]
    for arr in FIXED:
        for s, t in settings:
            yield {"kind": "arr", "arr": arr, "sort": s, "trans": t}
    yield dict(KNOWN_MANY)
    thorough = ctx.tier == "thorough"      # a deepened quick run only widens the random stream
    n1 = ctx.budget(4, 5, 5 if ctx.tier == "thorough" else 4)
    for arr in small_arrangements(["a", "b", "1"], n1):
        # short arrangements under all four settings, the longest ones under (on,on) and (off,off)
        full = len(arr) <= (4 if thorough else 3)
        for s, t in (settings if full else settings[::3]):
            yield {"kind": "arr", "arr": arr, "sort": s, "trans": t}
    if thorough:
        for arr in small_arrangements(["a", "b", "c", "2"], 4):
            for s, t in (settings if len(arr) <= 3 else settings[1:3]):
                yield {"kind": "arr", "arr": arr, "sort": s, "trans": t}
        for arr in small_arrangements(["a", "1"], 6, with_box=False):
            for s, t in settings[:2]:
                yield {"kind": "arr", "arr": arr, "sort": s, "trans": t}
    for i in range(ctx.budget(3000, 30000, 45000 if ctx.tier == 'thorough' else 25000)):
        s, t = settings[i % 4]
        yield {"kind": "arr", "arr": random_arrangement(ctx.rng, big=(i % 5 == 0)), "sort": s, "trans": t}


def corr(ctx):
    if not ctx.have_runner:
        return
    from gen.c11_docs import render
    corr_docutils_only(ctx)
    cases = list(case_stream(ctx))
    obs = pmap(_observe_safe, cases)
    for c, o in zip(cases, obs):
        _CACHE[_key(c)] = o
    lines = [model_line(c) for c in cases]
    outs = model_run_parallel(PID, lines)
    for c, o, reply in zip(cases, obs, outs):
        ctx.corr_cases += 1
        if o.get("exc") and str(o["exc"]).startswith("harness:"):
            ctx.disagree("harness error", c, o["exc"], None)
            continue
        info = o.get("info") or render(c["arr"])[1]
        m = parse_model(reply, info)
        d = compare(o, m)
        ctx.count(f"corr:sort={int(c['sort'])}:trans={int(c['trans'])}")
        if info["defs"] and info["ref_labels"]:
            ctx.nontriv((repr(c["arr"]), c["sort"], c["trans"]))
        if "'B'" in repr(c["arr"]).replace('"', "'") and repr(c["arr"]).count("'B'") > 1:
            ctx.count("corr:nested-containers")
        if o.get("exc"):
            ctx.count("corr:impl-exception:" + str(o["exc"]))
        if d is not None:
            ctx.count("corr:disagree")
            if len(ctx.disagreements) < 40:
                c2 = dict(c)
                c2["text"] = (o.get("text") or "")[:3000]
                if len(repr(c2["arr"])) > 4000:
                    c2 = {k: v for k, v in c2.items() if k != "text"}
                ctx.disagree("footnote pipeline: " + d, c2, {k: o.get(k) for k in ("layout", "wlines", "exc")}, {k: m.get(k) for k in ("layout", "wlines", "exc")})
    ctx.sample({"arrangement": cases[40]["arr"], "text": obs[40].get("text"), "sort": cases[40]["sort"], "trans": cases[40]["trans"]})
    corr_sphinx(ctx)      # quick tier: one small fixed project per sort setting; thorough: four larger ones


# ---- docutils' Footnotes transform alone (oracle hypothesis O_footnotes_xform) ----

def registry_cases(ctx):
    """(extra names, autofootnotes in registry order, manual footnotes, reference labels)"""
    import itertools
    autos_opts = [[], ["a"], ["b"], ["a", "b"], ["b", "a"]]
    man_opts = [[], ["1"], ["2"], ["1", "2"], ["2", "1"]]
    ref_labels = ["a", "b", "1", "2", "zz"]
    maxr = ctx.budget(2, 3, 3)
    refseqs = [list(t) for n in range(maxr + 1) for t in itertools.product(ref_labels, repeat=n)]
    for autos in autos_opts:
        for man in man_opts:
            free = [x for x in ("1", "2", "3") if x not in man]
            for k in range(len(free) + 1):
                for extra in itertools.combinations(free, k):
                    for refs in refseqs:
                        yield {"kind": "registry", "extra": list(extra), "autos": autos, "manual": man, "refs": refs}
    # a few larger ones
    for _ in range(ctx.budget(300, 3000, 3000)):
        labs = ["a", "b", "c", "d"]
        ctx.rng.shuffle(labs)
        autos = labs[:ctx.rng.randint(0, 4)]
        nums = [str(x) for x in ctx.rng.sample(range(1, 9), ctx.rng.randint(0, 4))]
        man = nums[:ctx.rng.randint(0, len(nums))]
        extra = nums[len(man):]
        refs = [ctx.rng.choice(autos + man + ["zz", "9"]) for _ in range(ctx.rng.randint(0, 7))]
        yield {"kind": "registry", "extra": extra, "autos": autos, "manual": man, "refs": refs}


def observe_registry(case):
    """build a docutils document by hand, register everything through document.note_*, run only Footnotes"""
    import io
    from docutils import nodes
    from docutils.frontend import get_default_settings
    from docutils.parsers.rst import Parser as RstParser
    from docutils.transforms.references import Footnotes
    from docutils.utils import new_document
    st = get_default_settings(RstParser)
    ws = io.StringIO()
    st.warning_stream = ws
    st.report_level = 1
    st.halt_level = 5
    doc = new_document("<registry>", st)
    for nm in case["extra"]:
        t = nodes.target("", "", names=[nm])
        doc += t
        doc.note_explicit_target(t, t)
    p = nodes.paragraph()
    doc += p
    refnodes = []
    for lab in case["refs"]:
        r = nodes.footnote_reference(f"[{lab}]_")
        if lab.isdigit():
            r += nodes.Text(lab)
        else:
            r["auto"] = 1
            doc.note_autofootnote_ref(r)
        r["refname"] = lab
        doc.note_footnote_ref(r)
        p += r
        refnodes.append(r)
    foots = {}
    for lab in case["autos"]:
        f = nodes.footnote("", nodes.paragraph("", "t"), auto=1, names=[lab])
        doc.note_autofootnote(f)
        doc.note_explicit_target(f, f)
        doc += f
        foots[lab] = f
    for lab in case["manual"]:
        f = nodes.footnote("", nodes.label("", lab), nodes.paragraph("", "t"), names=[lab])
        doc.note_footnote(f)
        doc.note_explicit_target(f, f)
        doc += f
        foots[lab] = f
    try:
        Footnotes(doc).apply()
    except Exception as e:
        return {"exc": type(e).__name__}
    id2foot = {f["ids"][0]: l for l, f in foots.items()}
    id2idx = {r["ids"][0]: i for i, r in enumerate(refnodes)}
    refs = [{"label": l, "target": id2foot.get(r.get("refid")), "text": r.astext() or None}
            for l, r in zip(case["refs"], refnodes)]
    fo = {}
    for l, f in foots.items():
        lab = [c for c in f.children if isinstance(c, nodes.label)]
        fo[l] = [{"display": lab[0].astext() if lab else None, "backrefs": [id2idx.get(b, -1) for b in f.get("backrefs", [])],
                  "body": None}]
    return {"exc": None, "refs": refs, "foots": fo, "layout": [], "wlines": [],
            "errors": ws.getvalue().count("Too many autonumbered")}


def corr_docutils_only(ctx):
    cases = list(registry_cases(ctx))
    lines = []
    for c in cases:
        f = ["footnotes", enc_strs(c["extra"]), enc_strs(c["autos"]), enc_strs(c["manual"]), "R", str(len(c["refs"]))]
        for l in c["refs"]:
            f += [enc_str(l), "0" if l.isdigit() else "1"]
        lines.append("\t".join(f))
    outs = model_run_parallel(PID, lines)
    obs = pmap(observe_registry, cases, chunksize=64)
    for c, o, reply in zip(cases, obs, outs):
        ctx.corr_cases += 1
        ctx.count("corr:docutils-only")
        reply, reply_src = reply.split(" ## ")
        if reply != reply_src and len(ctx.disagreements) < 40:
            ctx.disagree("docutils Footnotes: transcription (Foot.v) vs the definition translated from the installed source", c, reply_src, reply)
        if reply.startswith("!"):
            m = {"exc": reply[1:]}
        else:
            refs_s, foots_s, warn_s = reply.split(" # ")
            refs, foots = decode_refs_foots(refs_s, foots_s)
            for v in foots.values():
                v["body"] = None
            m = {"exc": None, "refs": refs, "foots": foots, "layout": [], "wlines": [],
                 "too_many": 0 if warn_s == "." else warn_s.split(" ").count("X")}
        d = compare(o, m, layout=False)
        if d is not None and len(ctx.disagreements) < 40:
            ctx.disagree("docutils Footnotes transform vs docutils_footnotes: " + d, c,
                         {k: o.get(k) for k in ("refs", "foots", "errors", "exc")}, m)
    ctx.oracle_tests["O_footnotes_xform"] = len(cases)


def corr_sphinx(ctx):
    """The same relation through Sphinx builds: one project per setting, one document per arrangement."""
    from gen.c11_docs import render, random_arrangement, small_arrangements
    from lib.impl import SphinxProject
    big = ctx.tier == "thorough" or ctx.deep
    arrs = [a for a in small_arrangements(["a", "b", "1"], 3)][:: (8 if big else 40)]
    arrs += [a for a in FIXED if "²" not in repr(a)]
    arrs += [random_arrangement(ctx.rng, big=(i % 4 == 0)) for i in range(ctx.budget(12, 120, 120))]
    for s in (True, False):
        for t in ((True, False) if big else (s,)):
            files = {"index.md": "# Index\n\n```{toctree}\n" + "\n".join(f"d{i}" for i in range(len(arrs))) + "\n```\n"}
            infos = []
            for i, a in enumerate(arrs):
                text, info = render(a)
                files[f"d{i}.md"] = text
                infos.append(info)
            conf = f"myst_footnote_sort = {s}\nmyst_footnote_transition = {t}\nmyst_enable_extensions = ['deflist', 'fieldlist']\n"
            try:
                res = SphinxProject(files, conf).build()
            except Exception as e:
                ctx.disagree("Sphinx build raised", {"kind": "sphinx", "sort": s, "trans": t}, repr(e), None)
                continue
            warns = re.sub("\x1b\\[[0-9;]*m", "", res["warnings"])
            outs = model_run_parallel(PID, [model_line({"arr": a, "sort": s, "trans": t}) for a in arrs])
            for i, (a, reply) in enumerate(zip(arrs, outs)):
                ctx.corr_cases += 1
                ctx.count("corr:sphinx")
                case = {"kind": "arr", "arr": a, "sort": s, "trans": t, "front": "sphinx", "text": files[f"d{i}.md"]}
                doc = res["doctrees"].get(f"d{i}")
                if not hasattr(doc, "findall"):
                    ctx.disagree("Sphinx: no doctree", case, repr(doc), None)
                    continue
                m = parse_model(reply, infos[i])
                refs, foots, layout = abstract_tree(doc)
                # create_warning(line=..) under Sphinx prints the location as '<file>.md.rst:N' (path taken for a docname)
                wl = sorted(int(x) for x in re.findall(rf"d{i}\.md(?:\.rst)?:(\d+): WARNING: [^\n]*\[ref\.footnote\]", warns))
                # Sphinx removes system_message nodes from the tree (FilterSystemMessages)
                if not m["exc"]:
                    m["layout"] = lay_strip(m["layout"], drop=("M",))
                o = {"exc": None, "refs": refs, "foots": foots, "layout": layout, "wlines": wl, "errors": m.get("too_many", 0)}
                d = compare(o, m)
                if d is not None and len(ctx.disagreements) < 40:
                    ctx.disagree("footnote pipeline (Sphinx): " + d, case, {"layout": layout, "wlines": wl}, {k: m.get(k) for k in ("layout", "wlines", "exc")})


# ------------------------------------------------------------------ direct property oracle

def written_layout(arr):
    """the children as written: a duplicate definition leaves a message in its place"""
    from gen.c11_docs import to_model
    seen = set()

    def conv(items):
        out = []
        for it in items:
            if it[0] == "R":
                out.append("O")
            elif it[0] == "D":
                if it[1] in seen:
                    out.append("M")
                else:
                    seen.add(it[1])
                    out.append("F:" + it[1])
            else:
                out.append(["B", conv(it[1])])
        return out
    return conv(to_model(arr))


def check_arr(ctx, case, obs=None):
    """The clauses of the property evaluated on the real doctree; uses only the arrangement."""
    arr, sort, trans = case["arr"], case["sort"], case["trans"]
    o = obs if obs is not None else observe(case)
    text, info = o["text"], o["info"]
    wit = dict(case)
    if len(text) < 3000:
        wit["text"] = text
    if o["exc"]:
        ctx.fail(o["sig"], wit, f"publishing raised {o['exc']}", "a doctree", o["exc"])
        return False
    refs, foots, layout = o["refs"], o["foots"], o["layout"]
    ok = True

    def fail(sig, what, exp=None, obs=None):
        nonlocal ok
        ok = False
        ctx.fail(sig, wit, what[:1500], exp if len(repr(exp)) < 2000 else None, obs if len(repr(obs)) < 2000 else None)

    defs = info["defs"]
    first = {}
    dups = []
    for d in defs:
        if d["label"] in first:
            dups.append(d)
        else:
            first[d["label"]] = d
    rl = info["ref_labels"]
    if len(refs) != len(rl):
        fail("refs:count", f"{len(rl)} references written, {len(refs)} found in the doctree", len(rl), len(refs))
        return False
    # every definition kept exactly once, with its own text
    for l, d in first.items():
        got = foots.get(l, [])
        if len(got) != 1 or got[0]["body"] != d["body"]:
            fail("text-lost" if not got else "definition:wrong-body",
                 f"definition [^{l}] (body{d['body']}z): footnotes carrying that label: {got}", d["body"], got)
    for l in foots:
        if l not in first:
            fail("definition:spurious", f"a footnote labelled {l!r} exists without a definition", None, foots[l])
    if not ok:
        return False
    nbody = o["nbody"]
    if nbody != len(first):
        fail("text-lost:count", f"{len(first)} distinct definitions, {nbody} definition bodies in the output", len(first), nbody)
    # references <-> definitions
    by_label = {}
    for i, (l, r) in enumerate(zip(rl, refs)):
        by_label.setdefault(l, []).append(i)
        if l in first:
            f = foots[l][0]
            if r["target"] != l:
                fail("ref:target", f"reference {i} [^{l}] points at {r['target']!r}", l, r["target"])
            elif r["text"] != f["display"]:
                fail("ref:number", f"reference {i} [^{l}] shows {r['text']!r}, its footnote is labelled {f['display']!r}", f["display"], r["text"])
        elif r["target"] is not None:
            fail("ref:dangling-resolved", f"reference {i} [^{l}] has no definition but points at {r['target']!r}", None, r["target"])
    for l, f in ((l, foots[l][0]) for l in first):
        if f["backrefs"] != by_label.get(l, []):
            fail("backrefs", f"footnote [^{l}] lists back-references {f['backrefs'][:20]}, its references are {by_label.get(l, [])[:20]}")
    disp = [foots[l][0]["display"] for l in first]
    if len(set(disp)) != len(disp) or any(not d for d in disp):
        fail("labels:distinct", f"displayed labels are not pairwise distinct: {disp}", None, disp)
    # numbering
    for l in first:
        if l.isdigit() and foots[l][0]["display"] != l:
            fail("number:manual", f"numeric label [^{l}] is shown as {foots[l][0]['display']!r}", l, foots[l][0]["display"])
    autos = [l for l in first if not l.isdigit()]
    order = [l for l in dict.fromkeys(rl) if l in autos]
    try:
        nums = [int(foots[l][0]["display"]) for l in order]
    except (TypeError, ValueError):
        nums = None
        fail("number:auto-not-int", f"auto-numbered footnotes show {[foots[l][0]['display'] for l in order]}")
    if nums is not None and any(a >= b for a, b in zip(nums, nums[1:])):
        sig = "auto-order:sort-off-definition-order" if not sort else "auto-order:sort-on"
        fail(sig, f"auto-numbered footnotes in order of first reference {order} are numbered {nums} (footnote_sort={sort})",
             "increasing", nums)
    if sort and nums is not None:
        # in order of first reference means: the k-th label referenced gets the k-th number that no
        # numeric label occupies; definitions nobody references are numbered after them
        free, n = [], 1
        while len(free) < len(order):
            if str(n) not in first:
                free.append(n)
            n += 1
        if nums != free and not any(a >= b for a, b in zip(nums, nums[1:])):
            fail("auto-order:sort-on:not-first-free",
                 f"auto-numbered footnotes in order of first reference {order} are numbered {nums}, expected {free}", free, nums)
    # collection
    exp_layout = written_layout(arr)
    if sort:
        tail = [x for x in layout if isinstance(x, str) and x.startswith("F:")]
        k = len(layout) - len(tail)
        head = layout[:k]
        if layout[k:] != tail or lay_foots(head) or len(tail) != len(first):
            fail("collect:not-at-end", f"footnote_sort=True but the document's children are {lay_str(layout)}", None, lay_str(layout))
        else:
            keys = []
            for x in tail:
                d = foots[x[2:]][0]["display"]
                keys.append((0, int(d), "") if py_int(d) is not None else (1, 0, d))
            if any(a > b for a, b in zip(keys, keys[1:])):
                fail("collect:order", f"collected footnotes are labelled {[foots[x[2:]][0]['display'] for x in tail]}", "ascending", None)
            others = [x for x in head if x != "T"]
            want_others = lay_strip(exp_layout)
            if others != want_others:
                fail("collect:other-blocks", f"non-footnote blocks became {lay_str(others)}, written {lay_str(want_others)}",
                     lay_str(want_others), lay_str(others))
            nT = head.count("T")
            wantT = 1 if (trans and tail and others) else 0
            if nT != wantT or (nT and head[-1] != "T"):
                fail("collect:transition", f"transition count {nT} (children {lay_str(layout)}), expected {wantT} directly before the "
                     f"footnotes (footnote_transition={trans})", wantT, nT)
    else:
        if layout != exp_layout:
            fail("stay-put", f"footnote_sort=False but the children are {lay_str(layout)}, written {lay_str(exp_layout)}",
                 lay_str(exp_layout), lay_str(layout))
    # warnings
    refd = set(rl)
    want = sorted([d["line"] for d in dups] + [d["line"] for l, d in first.items() if l not in refd])
    got = o["wlines"]
    if got != want:
        fail("warnings:dup-unreferenced", f"ref.footnote warnings at lines {got}, expected one per duplicate/unreferenced definition: {want}",
             want, got)
    return ok


def check_case(ctx, case, obs=None):
    if case.get("kind") != "arr":
        return True
    return check_arr(ctx, case, obs)


def _check_worker(case):
    from lib.common import Ctx
    c = Ctx(PID, "quick", 0)
    try:
        check_case(c, case, case.pop("_obs", None))
    except Exception as e:  # pragma: no cover
        c.fail("harness:" + type(e).__name__, {k: v for k, v in case.items() if k != "_obs"}, repr(e))
    return c.failures


def search(ctx):
    for c in [KNOWN_SORT_OFF] + [s for s in ctx.suspects[:100] if s]:
        ctx.search_cases += 1
        check_case(ctx, c)
    cases = list(case_stream(ctx, for_search=True))
    per_sig = {}
    # observations made for the correspondence are reused (same input, same implementation run)
    jobs = [dict(c, _obs=_CACHE[_key(c)]) if _key(c) in _CACHE and not str(_CACHE[_key(c)].get("exc") or "").startswith("harness")
            else c for c in cases]
    for c, fails in zip(cases, pmap(_check_worker, jobs)):
        ctx.search_cases += 1
        ctx.count(f"search:sort={int(c['sort'])}")
        for f in fails:
            per_sig[f["signature"]] = per_sig.get(f["signature"], 0) + 1
            if per_sig[f["signature"]] <= 2:
                ctx.failures.append(f)
    for k, v in per_sig.items():
        ctx.count("search:fail:" + k, v)


def replay(ctx, data):
    w = data.get("witness")
    if not w:
        print("replay file names no concrete input:", data.get("no_longer_checks"))
        return 1
    ok = check_case(ctx, w)
    print("replay:", "property holds on this input" if ok else ctx.failures[-1])
    return 0 if ok else 1
