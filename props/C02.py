"""C02 - the doctree is a faithful image of the Markdown token tree."""
import hashlib

PID = "C02"
RULE = ("correspondence: real markdown-it token trees (CommonMark spec inputs of tests/test_commonmark, hand-written seed "
        "documents, grammar-generated CommonMark+GFM+MyST documents) in the three parser modes, random extension subsets, both "
        "renderers; the extracted Coq renderer (oracle queries answered by the real docutils/markdown-it functions) vs the real "
        "doctree canonicalised to (tag, modelled attributes, text) + the multiset of MyST warnings; search: a token-side and a "
        "node-side skeleton computed independently in Python on the implementation; non-trivial = distinct document that parses "
        "to at least one container with children")
TRUSTED = [
    "coq/Doc/Render.v is a hand transcription of DocutilsRenderer/SphinxRenderer for the static syntax subset (checked by "
    "correspondence, not proved); documents the model rejects as not-modelled are counted, not compared",
    "the specification erasures skel_tok / skel_node in coq/Doc/Skel.v say what 'faithful image' means",
    "markdown-it-py and its plug-ins produce the token tree (oracle: the theorems are about every token forest)",
    "gen/c02_pysrc.py (source-translation tie): the mapping of Python statements of the straight-line render methods to "
    "instructions of coq/Doc/Prog.v - nodes.CLS(..) = allocation (new_text_elem for a TextElement with text), node[key]=v / "
    "constructor keywords = the initial attribute dict in source order, copy_attributes / create_warning / set_refuri = the "
    "registry operations, `with current_node_context(node, append=True)` = Ctx, current_node.append = Append; "
    "add_line_and_source_path is dropped (line / source are not modelled); tests on state outside the model "
    "(relative-images, links_external_new_tab, url conversion) are constant false under the static configuration; a branch "
    "outside the model guarded by a token-only test and attribute keys with a converter are hoisted to an ENotModelled guard; "
    "heading, table, clean_astext, current_node_context and the two dispatch loops are pinned by the hash of their normalised "
    "source (gen/c02_pysrc_pins.json): an edit there is reported as a broken tie",
]
ORACLES = {
    "O_tree": "SyntaxTreeNode nesting = token nesting; the renderer receives the token stream of the parser built by "
              "create_md_parser for RendererHTML (compared on every correspondence case)",
    "O_lexer_concat": "docutils Lexer token values concatenate to the code text up to one trailing newline (checked on every "
                      "lexer answer; violated by pygments stripnl = open finding code-verbatim:pygments-stripnl)",
    "O_split/O_strip/O_norm_name/O_make_id/O_isdigit/O_nlt/O_gfm_filter/O_path2doc": "str.split, str.strip, "
        "docutils fully_normalize_name and make_id, str.isdigit, markdown-it normalizeLinkText, html_to_nodes.RE_FLOW, sphinx "
        "relfn2path/path2doc: answered by the real functions for exactly the arguments the model asks for",
    "O_canon": "the link-destination canonicaliser of the search oracle is invariant under normalizeLinkText (checked per href)",
    "O_dyn": "the nodes (canonical tree, identity ignored) and MyST warnings a directive / role / substitution / front-matter run "
             "produces: recorded from the real run of the same parse (gen.c02_lib.record_dynamic); a run that changes a document "
             "registry the model tracks is answered 'outside the model'; for directives and roles the harness also checks that the "
             "current node received exactly the list run_directive / the role function returned, once, at its end",
    "O_registry": "the operations of docutils' registry interface (Total.reg_api) do not fail on the states the renderer produces: "
                  "not proved (C02_total is stated up to it); exercised by every correspondence case (a failing operation would "
                  "be a model error) and by the extracted totality premise (measured:totality)",
}
ASSUMPTIONS = ["linkify-it-py is not installed: gfm mode / the linkify extension run with the linkify rule disabled (the parser is "
               "otherwise the one built by create_md_parser)",
               "static configuration: default url_schemes without templates, heading_anchors=0, no suppress_warnings, "
               "no fence_as_directive / number_code_blocks, html_image/html_admonition off"]


def gen(ctx):
    from gen import c02_render
    from gen import c02_pysrc
    c02_render.run(ctx)
    c02_pysrc.run(ctx)      # Gen/RenderSrc.v: the straight-line render methods, statement by statement (round 3)


def _h(s):
    return hashlib.sha256(s.encode("utf8", "surrogatepass")).hexdigest()[:12]


def corr_cases(ctx):
    """(label, case) stream for the correspondence."""
    from gen import c02_docgen as G
    from gen import c02_lib as L
    rng = ctx.rng
    spec = G.commonmark_spec_inputs()
    quick = ctx.tier == "quick" and not ctx.deep
    for i, text in enumerate(spec):
        if quick and i % 2:            # quick tier: every second CommonMark spec input (the thorough tier takes all)
            continue
        for mode in L.MODES:
            yield "spec", {"text": text, "mode": mode, "exts": [], "backend": "docutils"}
        if i % 2 == 0:
            yield "spec", {"text": text, "mode": L.MODES[i % 3], "exts": [], "backend": "sphinx"}
    for text in G.SEED_DOCS:
        for backend in ("docutils", "sphinx"):
            yield "seed", {"text": text, "mode": "myst", "exts": list(L.STATIC_EXTS), "backend": backend}
        yield "seed", {"text": text, "mode": "gfm", "exts": [], "backend": "docutils"}
        yield "seed", {"text": text, "mode": "commonmark", "exts": [], "backend": "sphinx"}
    # dynamic syntax (directives, roles, substitutions, front matter): the O_dyn oracle is answered with what the real
    # run_directive / role / substitution / front-matter run returned (gen.c02_lib.record_dynamic)
    dyn_exts = list(L.STATIC_EXTS) + list(G.DYN_EXTS)
    for text in ("[a](index#x) <path:nofile.txt> <path:index.md> [b](index.md#q) [c](index)\n",
                 "<project:index.md#t> <project:nofile.md> [](index#x) [d](./index#y){#k}\n"):
        for backend in ("docutils", "sphinx"):
            yield "seed", {"text": text, "mode": "myst", "exts": list(L.STATIC_EXTS), "backend": backend}
    for text in G.SEED_DYNAMIC:
        for backend in ("docutils", "sphinx"):
            yield "dyn-seed", {"text": text, "mode": "myst", "exts": dyn_exts, "backend": backend}
    for blocks in (G.DIRECTIVE_BLOCKS, G.COLON_BLOCKS, G.FRONT_MATTERS):
        for b in blocks:
            for backend in ("docutils", "sphinx"):
                yield "dyn-seed", {"text": "para\n\n" + b + "\n\nafter\n" if blocks is not G.FRONT_MATTERS else b + "\n\nafter\n",
                                   "mode": "myst", "exts": dyn_exts, "backend": backend}
    for i, r in enumerate(G.ROLES + G.SUBSTS):
        yield "dyn-seed", {"text": "a " + r + " b\n", "mode": "myst", "exts": dyn_exts,
                           "backend": ("docutils", "sphinx")[i % 2]}
        yield "dyn-seed", {"text": "---\nmyst:\n  substitutions:\n    key: v\n---\n\n- *" + r + "*\n", "mode": "myst", "exts": dyn_exts,
                           "backend": ("sphinx", "docutils")[i % 2]}
    for i in range(ctx.budget(300, 4000, 4000)):
        exts = [e for e in L.STATIC_EXTS if rng.random() < 0.6] + [e for e in G.DYN_EXTS if rng.random() < 0.8]
        backend = "sphinx" if rng.random() < 0.4 else "docutils"
        yield "dyn", {"text": G.gen_dynamic_doc(rng, "myst", exts), "mode": "myst", "exts": exts, "backend": backend, "kw": {}}
    n = ctx.budget(1100, 14000, 14000)
    depth = 6 if ctx.tier == "quick" and not ctx.deep else 10
    for i in range(n):
        mode = rng.choice(["myst", "myst", "myst", "gfm", "commonmark"])
        exts = [e for e in L.STATIC_EXTS if rng.random() < 0.6] if mode == "myst" else []
        backend = "sphinx" if rng.random() < 0.4 else "docutils"
        text = G.gen_doc(rng, max_depth=rng.randint(2, depth), size=rng.randint(1, 14), mode=mode, exts=exts)
        kw = {}
        r = rng.random()
        if r < 0.05:
            kw["all_links_external"] = True
        elif r < 0.10:
            kw["highlight_code_blocks"] = False
        yield "gen", {"text": text, "mode": mode, "exts": exts, "backend": backend, "kw": kw}


def corr(ctx):
    from gen import c02_model as M
    if not ctx.have_runner:
        return
    batch, labels = [], []
    seen = set()
    for label, case in corr_cases(ctx):
        key = (case["text"], case["mode"], tuple(case["exts"]), case["backend"], tuple(sorted((case.get("kw") or {}).items())))
        if key in seen:
            continue
        seen.add(key)
        batch.append(case)
        labels.append(label)
    res = M.correspond(PID, batch, "parse", check_tokens=True)
    n_notmodelled = 0
    for label, case, r in zip(labels, batch, res):
        ctx.corr_cases += 1
        st = r["status"]
        ctx.count("corr:%s:%s" % (label, st))
        ctx.count("corr:mode:%s/%s" % (case["mode"], case["backend"]))
        if st == "agree":
            if r.get("nodes", 0) > 3:
                ctx.nontriv(_h(case["text"]))
        elif st == "notmodelled":
            n_notmodelled += 1
        elif st == "impl-exception":
            ctx.suspects.append(case)           # the search decides whether it is a failure
        else:
            if len(ctx.disagreements) < 40:
                ctx.disagree(r.get("what", st) + " at " + str(r.get("at", "")), case, r.get("impl"), r.get("model"))
            else:
                ctx.disagreements.append({"what": "more", "case": None, "impl": None, "model": None})
        for k, v in (r.get("oracle_tests") or {}).items():
            ctx.count("oracle:" + k, v)
    # the statement of C02_faithful, evaluated by the extracted skeleton functions on the same real token trees
    for case, r in zip(batch, M.statement_check(PID, batch)):
        if r is None:
            continue
        ctx.corr_cases += 1
        premises = r["static"] and not r["dropped"] and r["lexer_ok"]
        ctx.count("statement:%s" % ("premises-hold" if premises else
                                    "not-static" if not r["static"] else "dropped" if r["dropped"] else "lexer-violates-O_lexer_concat"))
        if premises and not r["equal"]:
            ctx.disagree("C02_faithful statement: skeletons differ although all premises hold", case, "skel_node(doc)", "skel_tok(tokens)")
    # round 2, measured statements (extracted checks of coq/Doc/Backends.v on the same real token trees)
    # (a) totality conjecture: a forest satisfying static_total is rendered by the model
    mb = batch[::2] if ctx.tier == "quick" and not ctx.deep else batch      # quick tier: every second case
    for case, r in zip(mb, M.model_measure(PID, "total", mb)):
        if r is None:
            continue
        ctx.corr_cases += 1
        ctx.count("measured:totality:" + {"T 11": "premise-holds,renders", "T 10": "premise-holds,FAILS",
                                          "T 01": "outside-premise,renders", "T 00": "outside-premise,not-rendered"}
                  .get(r["reply"], r["reply"][:12]))
        if r["reply"] == "T 10":
            ctx.disagree("totality statement: static_total forest that the model does not render", case, "", r["reply"])
    # (b) both back ends, full node equality after the erasure erase_be (documents without dynamic syntax: the runs of
    #     a directive / role are different programs in the two back ends)
    nd = [c for l, c in zip(labels, batch) if not l.startswith("dyn")]
    if ctx.tier == "quick" and not ctx.deep:
        nd = nd[::2]
    for case, r in zip(nd, M.model_measure(PID, "agree", nd)):
        if r is None:
            continue
        ctx.corr_cases += 1
        rep = r["reply"]          # "A <agree><static in both back ends>"
        key = ("not-rendered-by-both" if not rep.startswith("A ") else
               "agree" if rep[2] == "1" else
               "differ:outside-static-grammar(inv/path/project link ...)" if rep[3] != "1" else
               "differ:lexer-violates-O_lexer_concat" if not r["lexer_ok"] else
               "differ:project-file-exists(O_no_files violated)" if not r["no_files"] else "DIFFER")
        ctx.count("measured:backends-tree:" + key)
        if key == "DIFFER":
            ctx.disagree("backends_agree (tree level): the two renderers differ after erase_be", case, "docutils", "sphinx")
    ctx.notes.append("correspondence: %d cases outside the modelled subset (not compared)" % n_notmodelled)
    if batch:
        ctx.sample({"correspondence_case": batch[len(batch) // 2]})


def search(ctx):
    from gen import c02_search
    c02_search.search(ctx)


def replay(ctx, data):
    from gen import c02_search
    w = data.get("witness")
    if not w:
        print("replay file names no concrete input:", data.get("no_longer_checks"))
        return 1
    return c02_search.replay(ctx, data)


LEVEL_TEXT = ("Proof (Coq, all theorems closed under the global context): the renderer is modelled as programs over an instruction "
              "set with two semantics (the Python one: tree + current-node path + section level map; a functional one: nodes appended to "
              "the current node); their refinement is proved for every program (C02_refinement); every token that cannot open a section "
              "restores current node and level map (C02_render_restores_cur); for both back ends, every configuration and every token "
              "forest of the static grammar (any depth; round 2: directive fences, colon-fence directives, roles, substitutions and front "
              "matter included as an oracle O_dyn answered with the nodes of the real run) the skeleton of the doctree equals the "
              "skeleton of the token tree unless content was dropped with a warning (C02_faithful, under O_lexer_concat, O_canon, "
              "O_no_files); a dynamic token is spliced exactly once at its position (C02_dynamic_spliced_once); on the narrowed static "
              "grammar total_forest the forest IS rendered unless an operation of docutils' registry interface returns an error "
              "(C02_total, C02_faithful_total); back ends agree on the skeleton (C02_backends_agree_partial) and are the same program, "
              "hence produce the same document without any erasure, on the back-end independent fragment (C02_backends_same_fragment); "
              "code verbatim under O_lexer_concat and refuted for a newline-stripping lexer. The model is tied to base.py/sphinx_.py by "
              "the source translation Gen/RenderSrc.v regenerated on every run and proved equal to the hand-written model "
              "(copy_attributes, renderInlineAsText, clean_astext, the registry part of generate_heading_target and 17 render "
              "methods statement by statement; render_heading, update_section_level_state, render_table, render_table_row from "
              "statement templates whose parameters are read from the source; every other transcribed method, the Sphinx "
              "overrides, the dispatch loops and the transforms pinned by source hash: C02_faithful_src, C02_image_alt_src), by "
              "Gen/Render.v (dispatch table, list style map, alignment classes, link dispatch order, raw literals - proved equal to the "
              "specification's fixed tables) and by differential correspondence on real token trees in all modes and both renderers; the "
              "statements of C02_faithful, of the totality premise and of tree-level back-end agreement after the documented erasure "
              "(Backends.erase_be) are themselves evaluated (extracted) on every correspondence case.")
LEVEL_NOTE = ("Trusted: Coq kernel; the transcription in Doc/Render.v (correspondence-checked, not proved); markdown-it/docutils/Sphinx "
              "library functions enter as oracles answered by the real functions; 12 theorems: 9 full on their stated premises, 2 partial "
              "(C02_backends_agree_partial = skeleton level, C02_code_verbatim_partial = under O_lexer_concat), 1 refuted; the "
              "result of a directive / role / substitution / "
              "front-matter run is an oracle (recorded from the real run; runs that touch the document registries or return sections, "
              "transitions or tables are outside the model). Not proved: that docutils' registry operations never fail on reachable "
              "states (C02_total is 'up to the registry'); full-tree back-end agreement outside the back-end independent fragment "
              "(measured on every case after Backends.erase_be). Outside the model: {eval-rst}, inv: links, html_image/html_admonition, "
              "colon-fence divs; gfm/linkify run without the linkify rule (linkify-it-py not installed). Open findings: "
              "code-verbatim:pygments-stripnl, backends:literal_block:pygments-stripnl.")
