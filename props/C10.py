"""C10 - heading anchors follow the GitHub slug rule, are unique, match myst-anchors."""
import html
import itertools
import os
import re
from pathlib import Path

from lib.common import COQ, REPO, enc_str, dec_str, dec_strs, model_run_parallel, src_hashes, write_if_changed

PID = "C10"
RULE = ("gen: Unicode tables (\\w, isspace, lower) of the running interpreter, regex class and step sequence of both slugify functions, "
        "and the CODE of default_slugify / compute_unique_slug (base.py), slugify / unique_slug / _anchor_func / selected_levels "
        "(anchors plug-in) and print_anchors' arguments and filter (cli.py) are re-translated into Gallina on every run (fail-closed) and "
        "proved equal to the model; correspondence (three-way): extracted Coq model <-> section['slug'] + heading_slug warnings in the "
        "doctree <-> output of myst_parser.cli.print_anchors on a scratch file, on exhaustive title sequences over {a, a-1, a-1-2, b, "
        "'A b', `a`} (length <= 4 quick / 5 thorough), random Unicode/punctuation/inline-markup titles, depths 0-7, default and custom "
        "slug functions (one raising), configured through every entry point (settings object, docutils option strings, "
        "MdParserConfig constructor, the document's front matter; Sphinx conf.py in the thorough tier); both slugify functions vs "
        "the model on every code point and random strings; docutils set_id vs the model on the section ids of every document; "
        "search: uniqueness, GitHub rule + least-suffix rule (independent Python), equality with the CLI, '#slug' links resolve to "
        "the own heading, invalid import strings, renderer reuse; non-trivial = a document with a slug collision, a non-ASCII or "
        "markup title, a custom function or a non-default entry point")
TRUSTED = ["Coq 8.16.1 kernel; the statements of coq/Props/C10.v and the specifications SuffixRule / SeqRule (Sect/SlugProofs.v)",
           "gen/c10_unicode.py: Unicode tables generated from the running interpreter (capital sigma, the only context-sensitive lower(), is "
           "outside the model: the runner answers !unsupported), regex class parser, step-sequence reader",
           "gen/c10_walk.py + gen/c10_src.py + gen/c10_cli.py (own fail-closed walkers) regenerate default_slugify, compute_unique_slug "
           "(base.py), slugify, unique_slug, selected_levels and the _anchor_func loop (plug-in), print_anchors' plug-in arguments and level "
           "filter (cli.py); domain mapping: str = code point list, `x in slugs` = list membership, slugs.add(u) = u :: slugs, set() = [], "
           "f'{a}-{i}' = a ++ '-' ++ show i, token_tree.to_tokens()[1].children / state.tokens[idx+1].children = the (type, content) list, "
           "the token stream = the list of its heading_open tokens, join-comprehension = flat_map, `level in list(range(a, b))` = a <= "
           "level < b, token.attrSet('id', s) = output Some s, args.level = level, the slug function call may raise, while-fuel = |slugs|+1, "
           "the `if permalink:` block is dropped (default False, not passed by the CLI); refinement proved in Sect/SlugSrcProofs.v and "
           "Sect/AnchorsCliProofs.v",
           "hand transcription (checked by correspondence, not regenerated): generate_heading_target's slug part (depth test, try/except, "
           "_heading_slugs store) in coq/Sect/Slug.v; docutils set_id in coq/Sect/SlugIds.v (make_id external)",
           "coq/Refs/Anchors.v + AnchorsProofs.v (C09 builder): model of ResolveAnchorIds.apply used by C10_resolvable",
           "markdown-it-py: the inline children (type, content) of a heading are taken from the real parser on both sides"]
ORACLES = {"O_mdit_inline": "markdown-it's inline token children of a heading (text / code_inline / other) are the same objects for the "
                            "renderer (SyntaxTreeNode.to_tokens) and the plug-in: exercised by the three-way correspondence on markup titles",
           "O_re_class": "re: [^\\w\\u4e00-\\u9fff\\- ] removes exactly the characters outside the class; \\w = isalnum or '_': "
                         "slugify vs model on every code point",
           "O_str_lower": "str.lower is character-wise except for capital sigma: checked by the generator on 20000 strings, and by the correspondence",
           "O_make_id": "docutils.nodes.make_id / fully_normalize_name are external: the set_id model takes make_id(name) and make_id(tagname) "
                        "as inputs; the ids docutils assigns to the sections/rubrics are compared with the model's assign_ids on every document",
           "O_resolve_transform": "coq/Refs/Anchors.v (C09 builder) models ResolveAnchorIds.apply; here it is exercised end to end by the "
                                  "resolvability search (docutils) and the Sphinx correspondence ('#slug' links get the heading's id)"}
ASSUMPTIONS = ["dict iteration order = insertion order", "myst-anchors is run on the same file with the default configuration; "
               "headings inside directive bodies / included files are invisible to it (not part of the comparison)"]

PLUGIN_FILE = None


def plugin_file():
    import mdit_py_plugins.anchors.index as m
    return Path(m.__file__)


def gen(ctx):
    from gen import c10_unicode
    text, info = c10_unicode.generate(REPO, plugin_file())
    write_if_changed(COQ / "Gen" / "PyUnicodeSlug.v", text)
    ctx.gen_info["PyUnicodeSlug"] = info
    # round 3: the code of default_slugify / compute_unique_slug / slugify / unique_slug, statement by statement
    from gen import c10_src
    import hashlib
    src = c10_src.generate(REPO, plugin_file())
    write_if_changed(COQ / "Gen" / "SlugSrc.v", src)
    ctx.gen_info["SlugSrc"] = hashlib.sha256(src.encode()).hexdigest()[:16]
    # round 5: the CLI half (plug-in _anchor_func + cli.py print_anchors)
    from gen import c10_cli
    cli = c10_cli.generate(REPO, plugin_file())
    write_if_changed(COQ / "Gen" / "AnchorsCliSrc.v", cli)
    ctx.gen_info["AnchorsCliSrc"] = hashlib.sha256(cli.encode()).hexdigest()[:16]
    ctx.gen_info["sources"] = src_hashes(["myst_parser/mdit_to_docutils/base.py", "myst_parser/cli.py",
                                          "myst_parser/mdit_to_docutils/transforms.py"])


# ------------------------------------------------------------------ custom slug functions (mirrored in ocaml/C10_driver.ml)

def f_rev(t):
    return t[::-1]


def f_const(t):
    return "x"


def f_raiseb(t):
    if "b" in t:
        raise ValueError("no b please")
    return t


FUNCS = {"default": None, "rev": f_rev, "const": f_const, "raiseb": f_raiseb}


# ------------------------------------------------------------------ driving the implementation

_MD = None


def headings_of(text):
    """(level, [(type, content)], line) of every heading_open token, by the real markdown-it parser."""
    global _MD
    if _MD is None:
        from markdown_it.renderer import RendererHTML
        from myst_parser.config.main import MdParserConfig
        from myst_parser.parsers.mdit import create_md_parser
        _MD = create_md_parser(MdParserConfig(), RendererHTML)
    toks = _MD.parse(text)
    out = []
    for i, t in enumerate(toks):
        if t.type == "heading_open":
            ch = [(("T" if c.type == "text" else "C" if c.type == "code_inline" else "O"), c.content)
                  for c in (toks[i + 1].children or [])]
            out.append((int(t.tag[1]), ch, (t.map[0] + 1) if t.map else None))
    return out


def enc_headings(hs):
    if not hs:
        return "."
    return ";".join("%d/%s" % (lv, "+".join("%s=%s" % (ty, enc_str(c)) for ty, c in ch)) for lv, ch, _ in hs)


_SETTINGS = None


def fast_parse(text, settings):
    """lib.impl.parse_only with the default settings object computed once"""
    import copy
    import io
    global _SETTINGS
    from docutils.utils import new_document
    from myst_parser.parsers.docutils_ import Parser
    if _SETTINGS is None:
        from docutils.frontend import get_default_settings
        _SETTINGS = get_default_settings(Parser)
    st = copy.copy(_SETTINGS)
    ws = io.StringIO()
    st.warning_stream = ws
    st.report_level = 1
    st.halt_level = 5
    for k, v in settings.items():
        setattr(st, k, v)
    doc = new_document("<string>", st)
    Parser().parse(text, doc)
    return doc, ws.getvalue()


VIAS = ["object", "string", "constructor", "frontmatter"]


def front_matter(depth, func, invalid=None):
    """the document-level entry point: myst: {heading_slug_func: <import path>, heading_anchors: n}"""
    lines = ["---", "myst:", "  heading_anchors: %d" % depth]
    if invalid is not None:
        lines.append("  heading_slug_func: %s" % invalid)
    elif func != "default":
        lines.append("  heading_slug_func: props.C10.f_%s" % func)
    return "\n".join(lines + ["---", ""])


def impl_render(text, depth, func, transforms=False, via="object"):
    """per heading (document order): 'N' no slug, 'W' heading_slug warning, '=<slug>'; plus the doctree/warnings.
    [via] = the entry point through which heading_anchors / heading_slug_func are configured:
      object       settings object carrying the int and the callable (what Sphinx's conf.py values amount to)
      string       the docutils option strings --myst-heading-anchors=N --myst-heading-slug-func=pkg.mod.func, parsed by the
                   docutils OptionParser with the parser's settings_spec
      constructor  MdParserConfig(heading_anchors=N, heading_slug_func='pkg.mod.func') + create_md_parser + render
      frontmatter  nothing global: the text itself starts with the myst: front matter (see front_matter())"""
    import io
    import warnings as _w
    from docutils import nodes
    from lib.impl import publish, parse_warnings
    path = "props.C10.f_%s" % func
    if via == "object" or transforms:
        st = {"myst_heading_anchors": depth, "doctitle_xform": False}
        if via == "frontmatter":
            st = {"doctitle_xform": False}
        elif FUNCS[func] is not None:
            st["myst_heading_slug_func"] = FUNCS[func] if via == "object" else path
        if transforms:
            doc, ws = publish(text, st)
        else:
            doc, ws = fast_parse(text, st)
    elif via == "frontmatter":
        doc, ws = fast_parse(text, {"doctitle_xform": False})
    elif via == "string":
        from docutils.frontend import OptionParser
        from docutils.utils import new_document
        from myst_parser.parsers.docutils_ import Parser
        argv = ["--myst-heading-anchors=%d" % depth] + ([] if func == "default" else ["--myst-heading-slug-func=" + path])
        with _w.catch_warnings():
            _w.simplefilter("ignore")
            st = OptionParser(components=(Parser,)).parse_args(argv)
        wsio = io.StringIO()
        st.warning_stream, st.report_level, st.halt_level = wsio, 1, 5
        doc = new_document("<string>", st)
        Parser().parse(text, doc)
        ws = wsio.getvalue()
    elif via == "constructor":
        import copy
        from docutils.utils import new_document
        from myst_parser.config.main import MdParserConfig
        from myst_parser.mdit_to_docutils.base import DocutilsRenderer
        from myst_parser.parsers.mdit import create_md_parser
        fast_parse("", {})      # make sure the cached default settings exist
        st = copy.copy(_SETTINGS)
        wsio = io.StringIO()
        st.warning_stream, st.report_level, st.halt_level = wsio, 1, 5
        doc = new_document("<string>", st)
        cfg = MdParserConfig(heading_anchors=depth, **({} if func == "default" else {"heading_slug_func": path}))
        md = create_md_parser(cfg, DocutilsRenderer)
        md.options["document"] = doc
        md.render(text)
        ws = wsio.getvalue()
    else:
        raise ValueError(via)
    warns = parse_warnings(ws)
    wl = [w["line"] for w in warns if w["tag"] == "myst.heading_slug"]
    hn = list(doc.findall(lambda n: isinstance(n, (nodes.section, nodes.rubric))))
    return hn, wl, warns, doc


def id_info(hn):
    """per section/rubric: (make_id(name), make_id(tagname), first id) - the inputs and the result of docutils set_id"""
    from docutils import nodes
    out = []
    for n in hn:
        names = list(n["names"]) + list(n.get("dupnames", []))
        out.append((nodes.make_id(names[0]) if names else "", nodes.make_id(n.tagname), n["ids"][0] if n["ids"] else None))
    return out


LAST_IDS = [None]


def impl_outs(text, depth, func, hs, via="object"):
    hn, wl, warns, doc = impl_render(text, depth, func, via=via)
    LAST_IDS[0] = id_info(hn)
    if len(hn) != len(hs):
        return "!heading-count %d vs %d" % (len(hn), len(hs))
    outs = []
    for node, (lv, ch, line) in zip(hn, hs):
        nw = wl.count(line)
        if "slug" in node:
            outs.append("=" + node["slug"] if nw == 0 else "!slug-and-warning")
        else:
            outs.append("N" if nw == 0 else "W" if nw == 1 else "!%d-warnings" % nw)
    return outs


H_RE = re.compile(r'<h(\d)(?: id="([^"]*)")?[^>]*>')


def impl_cli(text, level, d, hs_hint=True):
    """myst-anchors on a scratch file: [(level, id or None)]"""
    from myst_parser.cli import print_anchors
    src = os.path.join(d, "in.md")
    out = os.path.join(d, "out.html")
    with open(src, "w", encoding="utf8") as f:
        f.write(text)
    if os.path.exists(out):
        os.unlink(out)
    print_anchors([src, "-o", out, "-l", str(level)])
    # print_anchors leaves closing its files to the garbage collector
    with open(out, encoding="utf8") as f:
        res = f.read()
    if not res and hs_hint:
        import gc
        gc.collect()
        with open(out, encoding="utf8") as f:
            res = f.read()
    return [(int(m.group(1)), html.unescape(m.group(2)) if m.group(2) is not None else None) for m in H_RE.finditer(res)]


def dec_outs(f):
    o = f.split("\t")[0]
    if o == ".":
        return []
    return [x if x in ("N", "W") else "=" + dec_str(x[1:]) for x in o.split(";")]


def dec_cli(f):
    if f == ".":
        return []
    out = []
    for x in f.split(";"):
        lv, s = x.split(":", 1)
        out.append((int(lv), None if s == "~" else dec_str(s)))
    return out


# ------------------------------------------------------------------ generators

SMALL_TITLES = ["a", "a-1", "a-1-2", "b", "A b", "`a`"]

WORDS = ["a", "b", "A", "a-1", "a-1-2", "a-2", "1", "x y", "Ab", "é", "É", "ß", "İ", "ǅ", "中文", "一", "鿿", "α", "Ω", "я", "_", "-", "--", "a_b",
         "ﬁ", "ⅷ", "²", "٣", "ａ", "𝐀", "😀", "é", " ", " ", "​", "　", "\t"]
PUNCT = list("!\"$%&'()*+,./:;<=>?@[]^{|}~#") + ["\\*", "\\#", "\\\\", "&amp;", "&#32;", "&nbsp;", "&copy;"]
MARKUP = ["*{}*", "**{}**", "`{}`", "` {} `", "`  {}  `", "`{} `", "[{}](u)", "![{}](u)", "<b>{}</b>", "_{}_", "[{}](#a)", "<u>", "{{role}}`{}`"]


def rand_title(rng):
    r = rng.random()
    if r < 0.25:
        return rng.choice(SMALL_TITLES + ["a", "a", "b-1", "a-1-1", "a 1", "A", " a", "a "])
    parts = []
    for _ in range(rng.randint(1, 4)):
        k = rng.random()
        if k < 0.45:
            w = rng.choice(WORDS)
        elif k < 0.6:
            w = rng.choice(PUNCT)
        elif k < 0.85:
            w = rng.choice(MARKUP).format(rng.choice(WORDS + ["a", "a b", " a", "a "]))
        elif k < 0.93:
            w = chr(rng.choice([rng.randint(0x20, 0x7e), rng.randint(0xa0, 0x24f), rng.randint(0x370, 0x3ff), rng.randint(0x400, 0x4ff),
                                rng.randint(0x4e00, 0x4e20), rng.randint(0x9ff0, 0xa010), rng.randint(0x1f600, 0x1f610),
                                rng.randint(0x2000, 0x206f), rng.randint(0xff00, 0xff5e), rng.randint(0x300, 0x36f)]))
        else:
            w = "Σ" + rng.choice(["", "a", "Α"])
        parts.append(w)
    return rng.choice(["", " ", " ", "-"]).join(parts)


def rand_doc(rng, cli_ok=True):
    """a document of headings (ATX / setext, some nested in quotes and lists), other blocks in between"""
    n = rng.randint(1, 7)
    pool = [rand_title(rng) for _ in range(rng.randint(1, 3))]
    blocks = []
    for _ in range(n):
        t = rng.choice(pool) if rng.random() < 0.6 else rand_title(rng)
        t = t.replace("\n", " ")
        lv = rng.choice([1, 1, 1, 2, 2, 3, 4, 5, 6])
        k = rng.random()
        if k < 0.08 and lv <= 2 and t.strip() and not t.lstrip().startswith(("#", "-", ">", "*", "+", "=", "`", "<", "|", "[", "!", "&", "\\", "_", "~", "1", "٣", ":")):
            blocks.append(t.strip() + "\n" + ("=" if lv == 1 else "-") * 3)
        elif k < 0.2:
            blocks.append("> " + "#" * lv + " " + t)
        elif k < 0.3:
            blocks.append("- " + "#" * lv + " " + t)
        else:
            blocks.append("#" * lv + " " + t)
        if rng.random() < 0.25:
            blocks.append(rng.choice(["para", "> quote", "- item", "```\ncode\n```", "---"]))
    return "\n\n".join(blocks) + "\n"


def case_stream(ctx, salt):
    """yield cases {text, depth, func}"""
    maxlen = ctx.budget(4, 5, 5)
    for k in range(1, maxlen + 1):
        for seq in itertools.product(SMALL_TITLES, repeat=k):
            yield {"text": "".join("# %s\n\n" % t for t in seq), "depth": 1, "func": "default"}
    # fixed regression inputs
    for text in ["# a\n\n# a\n\n# a\n", "# `  a  `\n\n# a\n", "# a ![](x)\n\n# a\n", "#\n\n#\n\n# -1\n", "# a\n\n## a\n\n### a\n\n# a-1\n",
                 "# a *b* `c` [d](e) ![f](g) <b>h</b> &amp; \\* i\n", "> # q\n\n- # q\n\n# q\n", "# İ\n\n# i̇\n\n# ǅ ß\n"]:
        for d in range(0, 8):
            yield {"text": text, "depth": d, "func": "default"}
    import random
    rng = random.Random("%s-%s-%s" % (ctx.seed, salt, ctx.tier))
    # every entry point of the configuration x every function x depths, on fixed documents
    bodies = ["# ab\n\n## cd\n\n# ab\n\n> ### x y\n", "# Hello World\n\n# b\n\n## b\n", "# a\n\n# a\n\n# a-1\n"]
    for via in VIAS:
        for func in FUNCS:
            for depth in (0, 1, 2, 7):
                for body in bodies:
                    text = (front_matter(depth, func) + body) if via == "frontmatter" else body
                    yield {"text": text, "depth": depth, "func": func, "via": via}
    # an import string that cannot be loaded, in the front matter: one warning, the default stays
    for bad in ("props.C10.no_such_function", "no_such_module_xyz.f", "123"):
        for body in bodies:
            yield {"text": front_matter(2, "default", invalid=bad) + body, "depth": 2, "func": "default", "via": "frontmatter",
                   "invalid": bad}
    for _ in range(ctx.budget(1500, 12000, 20000)):
        func = rng.choice(["default"] * 5 + ["rev", "const", "raiseb"])
        depth = rng.choice([0, 1, 2, 2, 3, 4, 5, 6, 6, 7])
        via = rng.choice(["object"] * 3 + VIAS)
        text = rand_doc(rng)
        if via == "frontmatter":
            text = front_matter(depth, func) + text
        yield {"text": text, "depth": depth, "func": func, "via": via}


def nontriv_key(ctx, case, outs):
    t = case["text"]
    slugs = [o for o in outs if isinstance(o, str) and o.startswith("=")]
    if case["func"] != "default" or not t.isascii() or any(c in t for c in "*`[<&\\") or \
            any(re.search(r"-\d+$", s) for s in slugs):
        ctx.nontriv(("d", t, case["depth"], case["func"]))


# ------------------------------------------------------------------ parallel map over documents (fork pool)

def _impl_pair(args):
    from lib.impl import scratch_dir
    out = []
    with scratch_dir() as d:
        for c, hs in args:
            try:
                i_outs = impl_outs(c["text"], c["depth"], c["func"], hs, c.get("via", "object"))
            except Exception as e:
                i_outs = "!" + type(e).__name__
            i_cli = None
            if c["func"] == "default":
                try:
                    i_cli = impl_cli(c["text"], c["depth"], d)
                except Exception as e:
                    i_cli = "!" + type(e).__name__
            out.append((i_outs, i_cli, LAST_IDS[0]))
    return out


class _MiniCtx:
    def __init__(self):
        self.failures = []

    def fail(self, signature, witness, what, expected=None, observed=None):
        self.failures.append({"signature": signature, "witness": witness, "what": what,
                              "expected": expected, "observed": observed})


def _check_chunk(cases):
    from lib.impl import scratch_dir
    mc = _MiniCtx()
    with scratch_dir() as d:
        for c in cases:
            check_doc(mc, c, d)
    return mc.failures


def pmap_chunks(fn, items, jobs=12, chunk=40):
    chunks = [items[i:i + chunk] for i in range(0, len(items), chunk)]
    if len(chunks) <= 1:
        return [fn(c) for c in chunks]
    import multiprocessing as mp
    try:
        with mp.get_context("fork").Pool(min(jobs, len(chunks))) as pool:
            return pool.map(fn, chunks)
    except (OSError, PermissionError):
        return [fn(c) for c in chunks]


# ------------------------------------------------------------------ correspondence

def corr(ctx):
    from lib.impl import scratch_dir
    if not ctx.have_runner:
        return
    # (1) the two slugify functions against the model
    from myst_parser.mdit_to_docutils.base import default_slugify
    from mdit_py_plugins.anchors.index import slugify as plugin_slugify
    import random
    rng = random.Random("%s-slugify-%s" % (ctx.seed, ctx.tier))
    titles = []
    top = ctx.budget(0x3000, 0x110000, 0x110000)
    for cp in range(top):
        if cp == 0x3A3 or 0xD800 <= cp <= 0xDFFF:
            continue
        titles.append(chr(cp))
    for cp in (list(range(0x3000, 0x110000, 97)) if top < 0x110000 else []):
        if not (0xD800 <= cp <= 0xDFFF):
            titles.append("a" + chr(cp))
    for _ in range(ctx.budget(20000, 200000, 200000)):
        t = rand_title(rng)
        if rng.random() < 0.3:
            t = rng.choice([" ", "\t", " ", "  ", ""]) + t + rng.choice([" ", "　", " \t", ""])
        if "Σ" not in t:
            titles.append(t)
    titles = list(dict.fromkeys(titles))
    lines = []
    for t in titles:
        lines.append("slugify\trender\t" + enc_str(t))
        lines.append("slugify\tplugin\t" + enc_str(t))
    outs = model_run_parallel(PID, lines)
    nd = 0
    for i, t in enumerate(titles):
        for which, fn, o in (("render", default_slugify, outs[2 * i]), ("plugin", plugin_slugify, outs[2 * i + 1])):
            try:
                r = enc_str(fn(t))
            except Exception as e:
                r = "!" + type(e).__name__
            ctx.corr_cases += 1
            if r != o:
                nd += 1
                if nd <= 20:
                    ctx.disagree("slugify:" + which, {"kind": "title", "title": t}, r, o)
        if not t.isascii():
            ctx.nontriv(("t", t))
    ctx.count("slugify-titles", len(titles))
    # (2) whole documents, three-way
    cases = list(case_stream(ctx, "corr"))
    parsed, lines, idx = [], [], []
    for c in cases:
        hs = headings_of(c["text"])
        parsed.append(hs)
        a = len(lines)
        lines.append("render\t%d\t%s\t%s" % (c["depth"], c["func"], enc_headings(hs)))
        if c["func"] == "default":
            lines.append("cli\t%d\t%s" % (c["depth"], enc_headings(hs)))
        idx.append(a)
    mouts = model_run_parallel(PID, lines)
    nd = 0
    idcases = []
    todo = [(c, hs) for c, hs, a in zip(cases, parsed, idx) if mouts[a] != "!unsupported"]
    impl_res = [r for part in pmap_chunks(_impl_pair, todo) for r in part]
    it = iter(impl_res)
    for c, hs, a in zip(cases, parsed, idx):
        m_r = mouts[a]
        if m_r == "!unsupported":
            ctx.count("doc:unsupported-by-model")
            continue
        i_outs, i_cli, ids = next(it)
        if ids is not None:
            idcases.append((c, ids))
        m_outs = dec_outs(m_r) if not m_r.startswith("!") else m_r
        ctx.corr_cases += 1
        ctx.count("doc:" + c["func"])
        ctx.count("depth:%d" % c["depth"])
        nontriv_key(ctx, c, i_outs if isinstance(i_outs, list) else [])
        if i_outs != m_outs:
            nd += 1
            if nd <= 20:
                ctx.disagree("render slugs", dict(c, kind="doc"), i_outs, m_outs)
        if c["func"] == "default":
            m_c = mouts[a + 1]
            m_cli = dec_cli(m_c) if not m_c.startswith("!") else m_c
            ctx.corr_cases += 1
            if i_cli != m_cli:
                nd += 1
                if nd <= 20:
                    ctx.disagree("myst-anchors", dict(c, kind="doc"), i_cli, m_cli)
    # (3) docutils set_id: the ids of the sections / rubrics against the model (make_id taken from docutils)
    lines = ["setid\t" + (";".join("%s|%s" % (enc_str(b), enc_str(t)) for b, t, _ in ids) if ids else ".") for _, ids in idcases]
    for (c, ids), o in zip(idcases, model_run_parallel(PID, lines)):
        ctx.corr_cases += 1
        want = [i for _, _, i in ids]
        got = dec_strs(o) if not o.startswith("!") else o
        if got != want:
            nd += 1
            if nd <= 20:
                ctx.disagree("docutils set_id", dict(c, kind="doc"), want, got)
    ctx.count("set_id-docs", len(idcases))
    if ctx.tier == "thorough" or ctx.deep:
        corr_sphinx(ctx)
    if cases:
        ctx.sample(cases[len(cases) // 3])
        ctx.sample(cases[-1])


# ------------------------------------------------------------------ Sphinx front end (thorough tier)

def corr_sphinx(ctx):
    """model <-> section['slug'] / heading_slug warnings / env.metadata[doc]['myst_slugs'] / resolution of '#slug' links,
    through in-process Sphinx builds (one project per depth x slug function)"""
    import random
    import shutil
    from docutils import nodes
    from lib.impl import SphinxProject
    rng = random.Random("%s-sphinx-%s" % (ctx.seed, ctx.tier))
    groups = [(d, f) for d in (0, 1, 2, 3, 6, 7) for f in ("default", "default", "rev", "raiseb")]
    per = ctx.budget(0, 50, 50)
    nd = 0
    for depth, func in groups:
        docs = []
        while len(docs) < per:
            text = rand_doc(rng) if rng.random() < 0.8 else "".join("# %s\n\n" % rng.choice(SMALL_TITLES) for _ in range(rng.randint(1, 5)))
            docs.append(text)
        parsed = [headings_of(t) for t in docs]
        mouts = model_run_parallel(PID, ["render\t%d\t%s\t%s" % (depth, func, enc_headings(hs)) for hs in parsed])
        keep = [(t, hs, mo) for t, hs, mo in zip(docs, parsed, mouts) if not mo.startswith("!")]
        files = {"index.md": "# index\n"}
        for k, (t, hs, mo) in enumerate(keep):
            slugs = [o[1:] for o in dec_outs(mo) if o.startswith("=")]
            links = ("\n\n" + "\n\n".join("[](#%s)" % s for s in slugs) + "\n") if func == "default" else ""
            files["d%d.md" % k] = t + links
        conf = "myst_heading_anchors = %d\n" % depth
        if func != "default":
            conf += "myst_heading_slug_func = 'props.C10.f_%s'\n" % func
        try:
            res = SphinxProject(files, conf=conf, builder="dummy").build(keep=True)
        except Exception as e:
            ctx.disagree("sphinx build", {"kind": "sphinx", "depth": depth, "func": func}, "!" + type(e).__name__ + ": " + str(e)[:300], "")
            continue
        try:
            env = res["app"].env
            wl = [re.sub(r"\x1b\[[0-9;]*m", "", l) for l in res["warnings"].splitlines()]
            for k, (t, hs, mo) in enumerate(keep):
                ctx.corr_cases += 1
                ctx.count("sphinx:doc")
                m_outs = dec_outs(mo)
                m_dict = [dec_str(x.rsplit(":", 1)[0]) for x in mo.split("\t")[1].split(";")] if mo.split("\t")[1] != "." else []
                doc = env.get_doctree("d%d" % k)
                hn = list(doc.findall(lambda n: isinstance(n, (nodes.section, nodes.rubric))))
                mine = [l for l in wl if re.search(r"(?<![A-Za-z0-9_])d%d\.md[^: ]*:" % k, l)]
                bad = None
                if len(hn) != len(hs):
                    bad = ("heading count", len(hn), len(hs))
                else:
                    i_outs = []
                    for node, (lv, ch, line) in zip(hn, hs):
                        nw = len([l for l in mine if "[myst.heading_slug]" in l and re.search(r":%d: " % line, l)])
                        if "slug" in node:
                            i_outs.append("=" + node["slug"] if nw == 0 else "!slug-and-warning")
                        else:
                            i_outs.append("N" if nw == 0 else "W" if nw == 1 else "!%d-warnings" % nw)
                    table = env.metadata.get("d%d" % k, {}).get("myst_slugs", {})
                    if i_outs != m_outs:
                        bad = ("slugs", i_outs, m_outs)
                    elif list(table) != m_dict:
                        bad = ("env.metadata myst_slugs keys", list(table), m_dict)
                    else:
                        own = {n["slug"]: n["ids"][0] for n in hn if "slug" in n}
                        if {s: v[1] for s, v in table.items()} != own:
                            bad = ("myst_slugs section ids", {s: v[1] for s, v in table.items()}, own)
                        elif func == "default" and own:
                            rdoc = env.get_and_resolve_doctree("d%d" % k, res["app"].builder)
                            want = [own[o[1:]] for o in m_outs if o.startswith("=")]
                            refs = [r.get("refid") for r in rdoc.findall(nodes.reference)][-len(want):]
                            nlines = t.count("\n") + 1
                            miss = [l for l in mine if "xref_missing" in l and int(re.search(r":(\d+): ", l).group(1)) > nlines]
                            ctx.count("sphinx:links-resolved", len(want))
                            if refs != want or miss:
                                bad = ("'#slug' links", {"refids": refs, "missing": miss[:3]}, want)
                if bad:
                    nd += 1
                    if nd <= 10:
                        ctx.disagree("sphinx " + bad[0], {"kind": "doc", "text": t, "depth": depth, "func": func, "front_end": "sphinx"},
                                     bad[1], bad[2])
        finally:
            shutil.rmtree(os.path.dirname(res["src"]), ignore_errors=True)


# ------------------------------------------------------------------ direct property oracle

def github_slug(title):
    """the documented rule, written without re: lower-case, spaces to hyphens, drop punctuation
    (keep word characters = alphanumerics and '_', CJK U+4E00-U+9FFF, hyphens)"""
    out = []
    for c in title.lower():
        if c == " ":
            c = "-"
        if c.isalnum() or c == "_" or c == "-" or "一" <= c <= "鿿":
            out.append(c)
    return "".join(out)


def least_suffix(base, seen):
    if base not in seen:
        return base
    k = 1
    while "%s-%d" % (base, k) in seen:
        k += 1
    return "%s-%d" % (base, k)


def check_doc(ctx, case, d):
    from docutils import nodes
    from lib.impl import parse_warnings
    text, depth, func = case["text"], case["depth"], case["func"]
    hs = headings_of(text)
    ok = True

    def fail(sig, what, expected=None, observed=None):
        nonlocal ok
        ok = False
        ctx.fail(sig, case, what, expected, observed)
    via = case.get("via", "object")
    try:
        hn, wl, warns, doc = impl_render(text, depth, func, via=via)
    except Exception as e:
        fail("slug:exception:" + type(e).__name__, "rendering raised %r" % (e,))
        return False
    if case.get("invalid") is not None:
        tm = [w for w in warns if w["tag"] == "myst.topmatter"]
        if len(tm) != 1:
            fail("slug:config:invalid-import-string", "front matter heading_slug_func: %s must give exactly one myst.topmatter warning "
                 "(and leave the default in place)" % case["invalid"], 1, [w["msg"] for w in tm])
    if len(hn) != len(hs):
        return True  # not a document this oracle understands (heading count differs)
    seen = []
    fn = FUNCS[func]
    for node, (lv, ch, line) in zip(hn, hs):
        title = "".join(c for ty, c in ch if ty in "TC")
        nw = wl.count(line)
        slug = node.get("slug")
        if lv > depth:
            if slug is not None or nw:
                fail("slug:depth", "heading of level %d got a slug/warning although heading_anchors=%d" % (lv, depth), None, slug)
            continue
        try:
            base = github_slug(title) if fn is None else fn(title)
        except Exception:
            if slug is not None or nw != 1:
                fail("slug:custom-failure", "raising slug function: expected one heading_slug warning and no slug",
                     {"warnings": 1, "slug": None}, {"warnings": nw, "slug": slug})
            continue
        if slug is None or nw:
            fail("slug:missing" if via == "object" else "slug:missing:config-via-" + via,
                 "heading within the anchor depth has no slug (or a warning)%s"
                 % ("" if via == "object" else "; heading_anchors / heading_slug_func configured through: " + via),
                 base, {"slug": slug, "warnings": nw})
            continue
        if slug in seen:
            fail("slug:duplicate", "slug %r assigned twice" % slug, None, slug)
        want = least_suffix(base, seen)
        if slug != want:
            b2 = slug == base or (slug.startswith(base + "-"))
            fail("slug:not-least-suffix" if b2 else "slug:rule",
                 "slug %r of title %r: GitHub rule / least-suffix rule gives %r" % (slug, title, want), want, slug)
        seen.append(slug)
    got = [(lv, node.get("slug")) for node, (lv, ch, line) in zip(hn, hs) if node.get("slug") is not None]
    if func == "default" and case.get("cli", True):
        try:
            cli = impl_cli(text, depth, d)
        except Exception as e:
            cli = "!" + type(e).__name__
        if cli != got:
            # sub-predicate: does the difference go away when the titles are trimmed first (the plug-in's strip())?
            seen2, got2 = [], []
            for lv, ch, line in hs:
                if lv <= depth:
                    s2 = least_suffix(github_slug("".join(c for ty, c in ch if ty in "TC").strip()), seen2)
                    seen2.append(s2)
                    got2.append((lv, s2))
            untrimmed = isinstance(cli, list) and got2 == cli
            fail("slug:differs-from-cli:untrimmed-title" if untrimmed else "slug:differs-from-cli",
                 "anchors assigned by the renderer differ from myst-anchors -l %d" % depth
                 + (" (title with leading/trailing space: default_slugify lacks the plug-in's strip())" if untrimmed else ""),
                 cli, got)
    # resolvability (custom functions: when the slugs can be written as plain link destinations)
    if got and (func == "default" or all(re.fullmatch(r"[A-Za-z0-9_-]*", s2) for _, s2 in got)):
        links = "\n\n" + "\n\n".join("[](#%s)" % s for _, s in got) + "\n"
        try:
            hn2, wl2, warns2, doc2 = impl_render(text + links, depth, func, transforms=True, via=via)
        except Exception as e:
            fail("slug:exception:" + type(e).__name__, "rendering with links raised %r" % (e,))
            return ok
        nlines = text.count("\n") + 1
        missing = [w for w in warns2 if w["tag"] == "myst.xref_missing" and (w["line"] or 0) > nlines]
        refs = [r for r in doc2.findall(nodes.reference)][-len(got):]
        ids = {}
        for n in hn2:
            if n.get("slug") is not None:
                ids.setdefault(n["slug"], n["ids"][0] if n["ids"] else None)
        exp = [ids.get(s) for _, s in got]
        obs = [r.get("refid") for r in refs]
        if missing or exp != obs or len(refs) != len(got):
            fail("slug:unresolved", "a '#slug' link does not resolve to its own heading",
                 exp, {"refids": obs, "missing": [w["msg"] for w in missing]})
    return ok


def check_reuse(ctx):
    """one renderer object renders two documents: the slugs of the second are those of a fresh render"""
    import copy
    from docutils import nodes
    from docutils.utils import new_document
    from myst_parser.config.main import MdParserConfig
    from myst_parser.mdit_to_docutils.base import DocutilsRenderer
    from myst_parser.parsers.mdit import create_md_parser
    fast_parse("", {})
    for first, second in (("# a\n\n# b\n", "# a\n\n# a\n"), ("# x\n", "# x\n\n## x\n"), ("# a-1\n\n# a\n", "# a\n\n# a\n")):
        ctx.search_cases += 1
        md = create_md_parser(MdParserConfig(heading_anchors=2), DocutilsRenderer)
        res = []
        for text in (first, second):
            doc = new_document("<string>", copy.copy(_SETTINGS))
            md.options["document"] = doc
            md.render(text)
            res.append([n.get("slug") for n in doc.findall(lambda n: isinstance(n, (nodes.section, nodes.rubric)))])
        seen, want = [], []
        for lv, ch, _ in headings_of(second):
            want.append(least_suffix(github_slug("".join(c for ty, c in ch if ty in "TC")), seen))
            seen.append(want[-1])
        if res[1] != want:
            ctx.fail("slug:state-leak:renderer-reuse", {"kind": "reuse", "first": first, "second": second},
                     "the same renderer object rendered two documents: slugs of the second depend on the first", want, res[1])


def search(ctx):
    from lib.impl import scratch_dir
    seen_sig = {}
    check_reuse(ctx)
    with scratch_dir() as d:
        for c in ctx.suspects[:300]:
            if c and c.get("kind") == "doc":
                ctx.search_cases += 1
                check_doc(ctx, c, d)
            elif c and c.get("kind") == "title":
                ctx.search_cases += 1
                check_doc(ctx, {"text": "# `%s`\n" % c["title"], "depth": 1, "func": "default"}, d)
    cases = list(case_stream(ctx, "search"))
    ctx.search_cases += len(cases)
    for part in pmap_chunks(_check_chunk, cases):
        for f in part:
            # keep the evidence small: at most 5 witnesses per signature
            seen_sig[f["signature"]] = seen_sig.get(f["signature"], 0) + 1
            if seen_sig[f["signature"]] <= 5:
                ctx.failures.append(f)


def replay(ctx, data):
    from lib.impl import scratch_dir
    w = data.get("witness")
    if not w:
        print("replay file names no concrete input:", data.get("no_longer_checks"))
        return 1
    with scratch_dir() as d:
        if w.get("kind") == "reuse":
            n = len(ctx.failures)
            check_reuse(ctx)
            ok = len(ctx.failures) == n
            print("replay:", "property holds on this input" if ok else ctx.failures[-1])
            return 0 if ok else 1
        if w.get("kind") == "title":
            w = {"text": "# `%s`\n" % w["title"], "depth": 1, "func": "default"}
        ok = check_doc(ctx, w, d)
    print("replay:", "property holds on this input" if ok else ctx.failures[-1])
    return 0 if ok else 1


LEVEL_TEXT = ("Proof (Coq 8.16, 25 theorems, all closed under the global context). FULL, for every input without bound: "
              "C10_slug_rule (default slug = filter(class) o (space -> hyphen) o lower; only word characters, CJK and '-' survive); "
              "C10_unique_terminates (renderer's and plug-in's loops return within |slugs|+1 iterations - pigeonhole on injectivity of "
              "decimal printing); C10_suffix_rule (base slug if free, else base-k for the least free k >= 1); C10_document_rule, "
              "C10_slugs_nodup, C10_depth, C10_custom_func (any heading sequence, depth, slug function incl. raising ones); "
              "C10_resolvable_model + C10_resolvable (composition with the C09 model of ResolveAnchorIds: '#s' gets the id of the heading "
              "that owns s, no warning / pending xref, absent an explicit target of the same name); C10_set_id_fresh, "
              "C10_section_ids_distinct (docutils set_id model); C10_edge_decomposition, C10_slug_agree_iff (exact disagreement set of "
              "the two slugify functions). TIED TO REGENERATED CODE: C10_source_shape, C10_slugify_src, C10_compute_unique_slug_src, "
              "C10_suffix_rule_src, C10_slugs_nodup_src, C10_document_rule_src, C10_plugin_unique_slug_src, C10_print_anchors_src, "
              "C10_matches_cli_src_partial. PARTIAL + REFUTED: C10_matches_cli_partial (renderer anchors = myst-anchors output for "
              "documents whose titles have no ASCII space in their stripped edges - by C10_slug_agree_iff exactly the titles on which "
              "the slugify functions agree) with C10_matches_cli_refuted; C10_suffix_rule_refuted_before_repair documents the repaired "
              "cumulative-suffix defect.")
LEVEL_NOTE = ("Open finding (KNOWN-FINDING on every run): slug:differs-from-cli:untrimmed-title - the renderer's default_slugify lacks the "
              "plug-in's strip(); a title whose text+code content has an ASCII space at an edge gets one extra '-' per such space "
              "(C10_edge_decomposition); the one-token repair breaks the pinned test test_references and was reverted. Fixed during the "
              "work: 0c90a62 (compute_unique_slug suffixes the base slug). Oracle / trusted parts: generate_heading_target's slug part and "
              "docutils set_id are hand-written models tied by correspondence; make_id, markdown-it inline tokenisation and the docutils "
              "transform pipeline are oracles; ResolveAnchorIds is the C09 builder's model (exercised end to end by the resolvability "
              "search and the Sphinx correspondence). Limits: capital sigma titles are outside the model (still searched on the "
              "implementation); myst-anchors has no option for a slug function or front matter and does not see headings inside directive "
              "bodies or included files, so the CLI comparison covers the default function on plain files only; custom slug functions "
              "returning non-strings are not modelled; cross-document anchors under Sphinx are C12.")
