"""C01 - Parsing is total: any text, any valid config, never an uncaught exception."""
from __future__ import annotations

import importlib
import json
import os
import re
import sys
from pathlib import Path

from lib import common
from lib.common import COQ, REPO, VERIF, sh, src_hashes, write_if_changed

PID = "C01"
RULE = ("gen (every run): ast translators over every module of the package -> coq/Gen/ExcFlow.v (every call of a raising callee - "
        "closed world for builtins and imported stdlib / third-party functions - plus, in the transform phase, every subscript / "
        "list.remove / Element.replace; the enclosing handlers; every raise statement; every except clause with what its body does; "
        "the interpreter's MRO) and coq/Gen/GuardSrc.v (the sub_references and include_log guard code translated statement by "
        "statement); correspondence: the prediction table is evaluated by coqc; for every (site, class of raises(callee)) pair of a "
        "checked/open site the callee is made to raise that class exactly at that call (frame-checked patch) while driver documents "
        "are parsed through both front ends, and 'document returned' must equal predict(site, class); 40 crafted bad inputs run with a "
        "recorder: the class the library really raises must be below raises(callee) and the outcome must equal the prediction; the "
        "whitelisted transform-phase subscripts are observed to execute without raising; search: 238 fixed file-system-fault cases "
        "(every way a document names a file x fault x front end; inventories x fault), fixed witnesses of every finding, then "
        "grammar-generated MyST documents + token soup x sampled configurations (subsets of the extensions, commonmark mode, "
        "front-matter overrides, 20 other options) x docutils / Sphinx (read phase + post-transforms), 16 workers, per-case timeout; "
        "oracle = no exception escapes and a document is returned; signature = exception class + innermost myst_parser frame "
        "(+ qualified library frame); a new signature is confirmed in a fresh interpreter and shrunk; non-trivial = an injected pair "
        "whose site was reached, or a generated document that produced at least one warning")
TRUSTED = [
    "coq/Exc/ExcFlow.v table 'raises' (callee key -> exception classes, from the libraries' documentation and source; a class stands "
    "for its subclasses): yaml.safe_load, int, float, chr, ord, open, Path.read_text, Path.is_file, os.path.relpath, os.access, "
    "urlopen, import_module, getattr, urlparse, parselinenos, json.dumps/loads, zlib, bytes.decode, stream.read, docutils Lexer, "
    "option / attribute converters, tokenize_html, HTMLParser.feed, options_to_items, parse_directive_text, fetch_inventory, "
    "read_topmatter, validate_field, MdParserConfig(), slug functions, token_line, directive.run (DirectiveError, MockingError), role "
    "functions (none), jinja render / parse, Sphinx make_refnode / domain.resolve_* / events.emit / env.relfn2path, list.index, sorted, "
    "max/min, next, re.compile; transform phase: subscripts (KeyError/IndexError/TypeError), list.remove / Element.replace (ValueError)",
    "coq/Exc/ExcFlow.v tables 'declared' (functions that let classes escape to their recorded call sites), 'whitelist' (72 sites that "
    "cannot raise, each with its invariant), 'out_scope' (CLI / docs tooling / docutils option validators), 'raise_whitelist', "
    "'silent_ok' (18 except clauses that neither report nor re-raise, each justified)",
    "gen/c01_excflow.py: the curated callee recognition (RAISING_* / TOTAL_* tables; a builtin or imported stdlib / third-party "
    "function in neither table stops the translation; method calls on objects are sites only for the listed method names; outside the "
    "transform phase subscripts, attribute access and arithmetic are not sites)",
    "gen/c01_guards.py: the mapping of the Python set/list operations on the guard state (intersection, update, difference_update, "
    "append, pop, in, truthiness) to the py_* primitives of coq/Exc/CoreModel.v, and the abstraction of the nested render to a "
    "function parameter",
    "exceptions and non-termination inside markdown-it-py, mdit-py-plugins, docutils transforms and directives, Sphinx, pygments and "
    "Jinja are outside every model: for those the claim rests on the search only",
]
ORACLES = {
    "O_raises": "raises(callee) is complete for the listed callees: the crafted-input recorder of the correspondence (the class observed "
                "at the callee must be below a listed class; it corrected the table twice: option converters raise AttributeError, "
                "env.relfn2path raises ValueError) and the search",
    "O_directive_contract": "third-party directive / role code raises only DirectiveError (or returns system messages); the mocked state "
                            "raises MockingError: search over every registered docutils / Sphinx directive and role with their own option "
                            "names (violations found are findings: figure, productionlist, target-notes, raw, csv-table)",
    "O_token_map": "markdown-it sets token.map on every block token and _render_tokens propagates it to inline children (token_line "
                   "without default): search",
    "O_heading_tag": "heading tokens have tag h1..h6: search",
    "O_propagate_targets": "docutils gives a target a refid only together with moving its names to the referenced node (ResolveAnchorIds, "
                           "same statement as Sphinx' StandardDomain.process_doc): search over (x)= targets and eval-rst indirect targets",
    "O_libraries_total": "markdown-it, docutils transforms and the Sphinx read phase do not raise on the doctrees MyST produces: search only "
                         "(open findings show where they do)",
}
ASSUMPTIONS = ["recursion limit, OS path limits and memory are runtime behaviour outside the models (an include of /dev/zero or a FIFO reads "
               "without end exactly as docutils' own include does: observation, guarded by file_insertion_enabled)",
               "the writers (HTML/LaTeX translators) are outside the statement: the Sphinx cases run the read phase and the post-transforms",
               "linkify-it-py is not importable here: the linkify extension and gfm_only are never sampled",
               "the sandbox user is root: permission-denied faults cannot be produced"]
LEVEL_TEXT = ("Proof (Coq, 11 theorems, all closed) over tables and code REGENERATED from the source on every run. In full: "
              "C01_sites_covered - each of the n_sites (177 today) calls of a raising callee / transform-phase subscripts is out of scope, "
              "whitelisted with its invariant, or checked: every class of raises(callee) is caught by an enclosing handler or declared to "
              "escape to call sites that are checked in turn (C01_site_check_sound says what 'checked' means, without computation); "
              "C01_raise_statements_declared (n_raise_stmts = 73 raise statements); C01_handlers_report (every except clause warns, re-raises only "
              "declared classes, or is a justified silent fallback); C01_tables_consistent; C01_open_sites_are_uncovered (the open-site list, "
              "empty today, can only name sites that lack a handler). Component totality: C01_core_total (max() in "
              "update_section_level_state never over an empty set, for every heading sequence; guarded re-entrant expansion returns within "
              "fuel |U|+1) and, on the guard code translated from render_substitution / MockIncludeDirective.run, C01_guards_refine_model and "
              "C01_core_total_src (nesting of substitutions / includes bounded by the number of distinct names / include keys); "
              "compute_unique_slug's loop is C10_unique_terminates. Refutations kept: C01_include_without_log_refuted (the code before "
              "78a6e0c), C01_guard_without_key_refuted (a substitution that references no name is not stopped by the guard). Tie: the "
              "regenerated tables and code, fault injection at every checked site, crafted-input recorder, and the search.")
LEVEL_NOTE = ("Partial by nature: termination and exception-freedom INSIDE markdown-it-py, mdit-py-plugins, docutils, Sphinx, pygments and "
              "Jinja are not modelled - for them the claim rests on the search (quick 8.9k, thorough 98k documents over both front ends). "
              "Trusted: the 'raises' table, the whitelist / declared / silent_ok justifications, the translators' recognition rules. "
              "15 open findings are reproduced on every run (KNOWN-FINDING): disable_syntax=[paragraph] hang (2) and [inline]+tasklist "
              "IndexError (2) - core rules accepted by the validator; colon_fence plugin IndexError on '> :::' + '>' (2); '> ---' "
              "AssertionError in docutils Transitions (C03); {figure} whose body renders to nothing; empty field name at document start "
              "(DocInfo); empty block quote with attributes (Sphinx HandleCodeBlocks); third-party directives identical under rST: "
              "productionlist, target-notes :name:, raw :url:, csv-table :file: undecodable (2). Repaired in /repo by this check's "
              "builder: 22b9d98 2c319c1 a0c5ade 78a6e0c 155ac3f 0656ef0 3eadb40 f6b6c01; by others after being reported here: 782b8eb "
              "(words_per_minute=0), 9a2ab65 (NUL in a link destination).")
HAVE_LINKIFY = importlib.util.find_spec("linkify_it") is not None


# ------------------------------------------------------------------------------------------------ gen

def gen(ctx):
    from gen import c01_excflow
    text, sites, raises, hashes = c01_excflow.generate(REPO, COQ)
    changed = write_if_changed(COQ / "Gen" / "ExcFlow.v", text)
    ctx.gen_info["sources"] = hashes
    ctx.gen_info["Gen/ExcFlow.v"] = {"sha": common.hashlib.sha256(text.encode()).hexdigest()[:16], "sites": len(sites),
                                     "raise_stmts": len(raises), "rewritten": changed}
    ctx.c01_sites = sites
    # source translation of the two re-entrancy guards (round 3)
    from gen import c01_guards
    gtext = c01_guards.generate(REPO)
    write_if_changed(COQ / "Gen" / "GuardSrc.v", gtext)
    ctx.gen_info["Gen/GuardSrc.v"] = {"sha": common.hashlib.sha256(gtext.encode()).hexdigest()[:16]}
    ctx.gen_info["handler_rows"] = len(c01_excflow.LAST_HANDLER_ROWS)


# ------------------------------------------------------------------------------------------------ correspondence

def coq_prediction_table():
    """Evaluate Exc.ExcFlow.prediction_table with coqc and parse it."""
    d = common.BUILD / "c01"
    d.mkdir(parents=True, exist_ok=True)
    (d / "predict.v").write_text("From Coq Require Import String List.\nFrom MV Require Import Gen.ExcFlow.\nFrom MV Require Import Exc.ExcFlow.\nOpen Scope string_scope.\n"
                                 "Set Printing Width 1000000.\nSet Printing Depth 1000000.\nEval vm_compute in (map site_lines sites).\n")
    with common.BuildLock():
        rc, out = sh(f"ulimit -s unlimited 2>/dev/null; coqc -Q {COQ} MV -o {d}/predict.vo {d}/predict.v", cwd=d, timeout=300)
    if rc != 0:
        raise RuntimeError("coqc predict.v failed: " + out[-1500:])
    strings = re.findall(r'"((?:[^"]|"")*)"', out)
    if not strings:
        raise RuntimeError("prediction table not found in coqc output: " + out[-500:])
    rows = []
    for ln in "".join(strings).replace("\n", "").replace('""', '"').split(";"):
        if not ln.strip():
            continue
        f = ln.split("|")
        rows.append({"file": f[0], "func": f[1], "callee": f[2], "idx": int(f[3]), "cls": f[4], "predict": f[5] == "1", "status": f[6]})
    return rows


def resolve_class(q):
    from gen.c01_excflow import resolve_qualname
    return resolve_qualname(q)


def make_exc(q):
    cls = resolve_class(q)
    if cls is None:
        return None
    try:
        if issubclass(cls, UnicodeDecodeError):
            return cls("utf-8", b"\xff", 0, 1, "injected")
        name = cls.__name__
        if name == "DirectiveError":
            return cls(3, "injected")
        if name == "TemplateSyntaxError":
            return cls("injected", 1)
        if name == "TokenizeError":
            from myst_parser.parsers.options import Position
            return cls("injected", Position(0, 0, 0))
        if name == "LexerError":
            return cls("injected")
        return cls("injected")
    except Exception:
        return None


KITCHEN_FILES = {
    "inc.md": {"t": "included [l](x.md) ![i](a.png)\n\n## Inc\n"},
    "k.inv": {"inv": [["py", "function", "f", "api.html#$", "-"], ["std", "label", "lab", "i.html#lab", "Lab"]]},
}
KITCHEN = """---
title: T
author: A
date: 2020-01-01
a: [1, {b: c}]
myst:
  html_meta: {k: v}
  substitutions: {s: "*S*"}
  heading_anchors: 3
---

# Heading {#hid}

(tgt)=
## Second

Para *em* **strong** `code`{l=python} [url](http://x.org/p?q#f) [wiki](wiki:Page#frag) <wiki:Auto> [inv](inv:k:py:func#f) <inv:#f>
[anchor](#second) [unknown](other.md) <path:a.png> [proj](project:other.md) [projx](project:x.md#x) ![img](a.png){w=10px h=2em a=left #iid .c} {abbr}`x (y)` {{ s }} {{ s|upper }} [^n] [^1] H~2~O
www.x.org a@b.co

{{ s }}

{lineno-start=2 emphasize-lines=1}
```python
x = 1
```

```{code-block} python
:lineno-start: 3
:emphasize-lines: 1

y = 2
```

```{note}
:class: cls
Body
```

```{include} inc.md
:heading-offset: 1
:relative-images:
:relative-docs: x
```

```{include} inc.md
:literal:
:number-lines: 2
```

```{include} inc.md
:code: python
```

```{eval-rst}
*rst* :code:`x`
```

:::{admonition} T
:class: c
colon
:::

<img src="a.png" alt="alt" width="10px">

<div class="admonition note" name="n">
<p class="title">Title</p>
<p>body</p>
</div>

| a | b |
|:--|--:|
| 1 | 2 |

Term
: Definition

:field: value

- [ ] task
- [x] done

1. one

> quote

$$ a = b $$ (eq)

\\begin{equation}
a
\\end{equation}

$x$

[^n]: note
[^1]: one

---

% comment

+++ {"meta": 1}
"""
KITCHEN_SETTINGS = {
    "myst_enable_extensions": [e for e in ["amsmath", "attrs_inline", "attrs_block", "colon_fence", "deflist", "dollarmath", "fieldlist",
                                           "html_admonition", "html_image", "replacements", "smartquotes", "strikethrough", "substitution",
                                           "tasklist"]],
    "myst_url_schemes": {"http": None, "wiki": {"url": "https://w/{{path}}#{{fragment}}", "title": "{{path}}", "classes": ["c"]}},
    "myst_heading_slug_func": "myst_parser.config.main._test_slug_func",
    "myst_number_code_blocks": ["python"],
    "myst_substitutions": {"g": "G"},
    "myst_title_to_header": True,
}


def kitchen_case(fe):
    s = dict(KITCHEN_SETTINGS)
    files = dict(KITCHEN_FILES)
    case = {"fe": fe, "text": KITCHEN, "settings": s, "files": files, "name": "index.md"}
    if fe == "docutils":
        s["myst_inventories"] = {"k": ["https://k.e.org/", "__DIR__/k.inv"]}
    else:
        files["other.md"] = {"t": "# Other\n\n(a)=\n## Sec\n"}
        files["x.md"] = {"t": "# X\n"}
        case["intersphinx"] = {"k": ["https://k.e.org/", "__DIR__/k.inv"]}
        s["myst_ref_domains"] = ["std", "py"]
    return case


# propagating sites that are also reached through call paths that cannot raise in reality (a copy of a validated
# config re-runs the validators): an injected fault there would test an impossible path
NO_INJECT = {("myst_parser/config/main.py", "MdParserConfig.__post_init__"), ("myst_parser/config/dc_validators.py", "validate_fields")}


class Injector:
    """Make the callee of one site raise a given exception when it is called from that site (checked on the
    caller's frame: file, function name, line range), by patching the name the call goes through."""

    def __init__(self, site, exc):
        self.site, self.exc, self.hits = site, exc, 0
        self.undo = []

    def frame_matches(self, fr):
        s = self.site
        return (fr.f_code.co_filename.replace("\\", "/").endswith(s["file"])
                and fr.f_code.co_name == s["func"].split(".")[-1]
                and s["line"] <= fr.f_lineno <= s.get("end_line", s["line"]))

    def wrapper(self, orig, depth=1):
        inj = self

        def w(*a, **k):
            fr = sys._getframe(depth)
            if inj.frame_matches(fr):
                inj.hits += 1
                raise inj.exc
            return orig(*a, **k)
        return w

    def patch_attr(self, obj, name, depth=1):
        orig = getattr(obj, name)
        raw = obj.__dict__.get(name) if isinstance(obj, type) else None   # keeps staticmethod / classmethod wrappers
        own = (not isinstance(obj, type)) or name in obj.__dict__
        w = self.wrapper(orig, depth)
        if isinstance(raw, staticmethod):
            w = staticmethod(w)
        setattr(obj, name, w)
        if not own:
            self.undo.append(lambda: delattr(obj, name))
        elif raw is not None:
            self.undo.append(lambda: setattr(obj, name, raw))
        else:
            self.undo.append(lambda: setattr(obj, name, orig))

    def patch_global(self, module, name):
        import builtins
        had = name in module.__dict__
        orig = module.__dict__.get(name, getattr(builtins, name, None))
        module.__dict__[name] = self.wrapper(orig)
        self.undo.append((lambda: module.__dict__.__setitem__(name, orig)) if had else (lambda: module.__dict__.pop(name, None)))

    def install(self):
        s = self.site
        modname = s["file"][:-3].replace("/", ".")
        module = importlib.import_module(modname)
        expr, callee = s["expr"], s["callee"]
        root = expr.split(".")[0].split("(")[0]
        if callee == "directive.run":
            if expr.startswith("codeblock"):
                from docutils.parsers.rst.directives.body import CodeBlock
                self.patch_attr(CodeBlock, "run")
            else:
                from docutils.parsers.rst.directives.admonitions import BaseAdmonition
                self.patch_attr(BaseAdmonition, "run")
            return True
        if callee == "role_func":
            from docutils.parsers.rst import roles
            orig = roles._role_registry.get("abbreviation")
            roles._role_registry["abbreviation"] = self.wrapper(orig)
            self.undo.append(lambda: roles._role_registry.__setitem__("abbreviation", orig))
            return True
        if callee == "option_converter" and expr == "converter":
            from docutils.parsers.rst.directives.admonitions import BaseAdmonition
            spec = dict(BaseAdmonition.option_spec)
            orig = spec["class"]
            BaseAdmonition.option_spec = dict(spec, **{"class": self.wrapper(orig)})
            self.undo.append(lambda: setattr(BaseAdmonition, "option_spec", spec))
            return True
        if callee == "attr_converter":
            from docutils.parsers.rst import directives
            self.patch_attr(directives, "length_or_percentage_or_unitless")
            return True
        if callee == "jinja.render":
            import jinja2.environment
            self.patch_attr(jinja2.environment.Template, "render")
            return True
        if callee == "jinja.parse":
            import jinja2
            self.patch_attr(jinja2.Environment, "parse")
            return True
        if callee == "slug_func":
            import myst_parser.config.main as cm
            self.patch_attr(cm, "_test_slug_func")
            return True
        if callee == "Path.read_text":
            import pathlib
            self.patch_attr(pathlib.Path, "read_text")
            return True
        if callee == "Path.is_file":
            import pathlib
            self.patch_attr(pathlib.Path, "is_file")
            return True
        if (s["file"], s["func"]) in NO_INJECT:
            return False
        if callee == "zlib.decompress" and expr.startswith("decompressor"):
            return False
        if callee == "env.relfn2path":
            from sphinx.environment import BuildEnvironment
            self.patch_attr(BuildEnvironment, "relfn2path")
            return True
        if callee.startswith(("subscript", "list.remove")):
            return False
        if callee in ("bytes.decode", "stream.read", "list.index", "sorted", "HTMLParser.feed", "domain.resolve", "events.emit",
                      "state.nested_parse", "rst.parse", "validator", "lexer.init"):
            if callee == "lexer.init":
                self.patch_global(module, "Lexer")
                return True
            return False
        if "." not in expr and "(" not in expr and "[" not in expr:
            # a plain name: builtin, imported function or module-level function
            self.patch_global(module, expr)
            return True
        if root in module.__dict__ and isinstance(module.__dict__[root], type(sys)):
            obj = module.__dict__[root]
            parts = expr.split(".")[1:]
            for p in parts[:-1]:
                obj = getattr(obj, p)
            self.patch_attr(obj, parts[-1])
            return True
        if expr.startswith("self.") and expr.count(".") == 1:
            cls = None
            for part in s["func"].split(".")[:-1]:
                cls = getattr(cls or module, part)
            if cls is not None and hasattr(cls, expr[5:]):
                self.patch_attr(cls, expr[5:])
                return True
        return False

    def remove(self):
        for u in reversed(self.undo):
            try:
                u()
            except Exception:
                pass
        self.undo = []


def _inject_worker(job):
    """(site, class name, cases) -> result dict; runs in a forked worker."""
    site, q, cases = job
    from gen.c01_run import run_case
    exc = make_exc(q)
    if exc is None:
        return {"status": "unconstructible"}
    last = None
    for case in cases:
        inj = Injector(site, exc)
        try:
            try:
                ok = inj.install()
            except Exception as e:  # noqa: BLE001
                return {"status": "patch-failed", "detail": repr(e)[:200]}
            if not ok:
                return {"status": "no-patch"}
            r = run_case(case, timeout=60)
        finally:
            inj.remove()
        last = {"status": "ran", "hits": inj.hits, "ok": r["ok"], "sig": r.get("sig"), "exc": r.get("exc"), "fe": case["fe"]}
        if inj.hits:
            return last
    return last


CRAFTED = [
    # (callee key, function, text, settings/files, front end)
    ("yaml.safe_load", "read_topmatter", "---\na: *x\n---\nx\n", {}),
    ("yaml.safe_load", "read_topmatter", "---\na: !!python/object:os.system x\n---\nx\n", {}),
    ("yaml.safe_load", "read_topmatter", "---\na: [\n---\nx\n", {}),
    ("yaml.safe_load", "read_topmatter", "---\na: 'x\n---\nx\n", {}),
    ("yaml.safe_load", "read_topmatter", "---\na: \x01\n---\nx\n", {}),
    ("yaml.safe_load", "read_topmatter", "---\na: !!float x\n---\nx\n", {}),
    ("yaml.safe_load", "read_topmatter", "---\na: !!bool x\n---\nx\n", {}),
    ("yaml.safe_load", "read_topmatter", "---\na: !!timestamp x\n---\nx\n", {}),
    ("yaml.safe_load", "read_topmatter", "---\na: \"\\UFFFFFFFF\"\n---\nx\n", {}),
    ("yaml.safe_load", "read_topmatter", "---\na: !!binary \"@\"\n---\nx\n", {}),
    ("yaml.safe_load", "read_topmatter", "---\n" + "a: " + "[" * 400 + "]" * 400 + "\n---\nx\n", {}),
    ("yaml.safe_load", "DocutilsRenderer.render_front_matter", "---\na: 2001-99-99\n---\nx\n", {}),
    ("json.dumps", "DocutilsRenderer.dict_to_fm_field_list", "---\na: !!binary \"QUJD\"\nb: &r {c: *r}\nd: {2020-01-01: x}\n---\nx\n", {}),
    ("Path.read_text", "MockIncludeDirective.run", "```{include} missing.md\n```\n", {}),
    ("Path.read_text", "MockIncludeDirective.run", "```{include} adir\n```\n", {"files": {"adir": {"dir": 1}}}),
    ("Path.read_text", "MockIncludeDirective.run", "```{include} u.md\n```\n", {"files": {"u.md": {"b": [255, 254, 0, 216]}}}),
    ("Path.read_text", "MockIncludeDirective.run", "```{include} i.md\n:encoding: bogus\n```\n", {"files": {"i.md": {"t": "x"}}}),
    ("Path.read_text", "MockIncludeDirective.run", "```{include} a\x00b\n```\n", {}),
    ("int", "MockIncludeDirective.run", "```{include} i.md\n:literal:\n:number-lines: x\n```\n", {"files": {"i.md": {"t": "x"}}}),
    ("int", "DocutilsRenderer.render_fence", "```python {lineno-start=x}\na\n```\n", {"settings": {"myst_enable_extensions": ["attrs_block"]}}),
    ("attr_converter", "DocutilsRenderer.copy_attributes", "![a](b){w=x}\n", {"settings": {"myst_enable_extensions": ["attrs_inline"]}}),
    ("option_converter", "_parse_directive_options", "```{image} a.png\n:width: x\n:align: bogus\n```\n", {}),
    ("options_to_items", "_parse_directive_options", "```{note}\n:class: \"\\xZZ\"\n```\n", {}),
    ("options_to_items", "_parse_directive_options", "```{note}\n:class: \"\\UFFFFFFFF\"\n```\n", {}),
    ("parse_directive_text", "DocutilsRenderer.run_directive", "```{image}\n```\n", {}),
    ("directive.run", "DocutilsRenderer.run_directive", "```{meta}\n:a: b\n```\n", {}),
    ("directive.run", "DocutilsRenderer.run_directive", "```{include} missing.md\n```\n", {}),
    ("jinja.render", "DocutilsRenderer.render_substitution", "{{ 1/0 }} {{ undefined_name }} {{ a[ }}\n", {"settings": {"myst_enable_extensions": ["substitution"]}}),
    ("compute_unique_slug", "DocutilsRenderer.generate_heading_target", "# T\n", {"settings": {"myst_heading_anchors": 2, "myst_heading_slug_func": "os.getcwd"}}),
    ("validate_field", "merge_file_level", "---\nmyst:\n  enable_extensions: [bogus]\n  heading_anchors: x\n  sub_delimiters: ab\n---\nx\n", {}),
    ("fetch_inventory", "DocutilsRenderer.get_inventory_matches", "<inv:#f>\n", {"settings": {"myst_inventories": {"k": ["https://e.org/", "__DIR__/missing.inv"]}}}),
    ("fetch_inventory", "DocutilsRenderer.get_inventory_matches", "<inv:#f>\n", {"settings": {"myst_inventories": {"k": ["https://e.org/", "__DIR__/d"]}}, "files": {"d": {"dir": 1}}}),
    ("fetch_inventory", "DocutilsRenderer.get_inventory_matches", "<inv:#f>\n", {"settings": {"myst_inventories": {"k": ["https://e.org/", "__DIR__/k.inv"]}},
                                                                               "files": {"k.inv": {"rawinv": list(b"# Sphinx inventory version 2\n# Project: p\n# Version: 1\n# zlib\nnot-zlib")}}}),
    ("fetch_inventory", "DocutilsRenderer.get_inventory_matches", "<inv:#f>\n", {"settings": {"myst_inventories": {"k": ["https://e.org/", "__DIR__/k.inv"]}},
                                                                               "files": {"k.inv": {"rawinv": list(b"garbage")}}}),
    ("fetch_inventory", "DocutilsRenderer.get_inventory_matches", "<inv:#f>\n", {"settings": {"myst_inventories": {"k": ["https://e.org/", "__DIR__/k.inv"]}},
                                                                               "files": {"k.inv": {"inv": [["py", "function", "f", "a", "\xff"]], "latin1": 1}}}),
    ("fetch_inventory", "DocutilsRenderer.get_inventory_matches", "<inv:#f>\n", {"settings": {"myst_inventories": {"k": ["http://127.0.0.1:1/", None]}}}),
    ("urlparse", "DocutilsRenderer.render_link_inventory", "<inv://[#x>\n", {}),
    ("urlparse", "DocutilsRenderer.render_link_url", "[a](http://[::1)\n", {"settings": {"myst_url_schemes": {"http": {"url": "x{{path}}"}}}}),
    ("read_topmatter", "Parser.parse", "---\n- a\n---\nx\n", {}),
    ("tokenize_html", "html_to_nodes", "<div class=\"admonition\"><![x<!\n", {"settings": {"myst_enable_extensions": ["html_admonition", "html_image"]}}),
]


def _record_worker(job):
    """Run a crafted case with a recorder around the callee: which exception classes does the library raise?"""
    key, func, text, extra = job
    from gen.c01_run import run_case
    seen = []
    targets = {
        "yaml.safe_load": ("yaml", "safe_load"), "json.dumps": ("json", "dumps"), "Path.read_text": ("pathlib.Path", "read_text"),
        "urlparse": ("myst_parser.mdit_to_docutils.base", "urlparse"), "fetch_inventory": ("myst_parser.inventory", "fetch_inventory"),
        "options_to_items": ("myst_parser.parsers.directives", "options_to_items"),
        "parse_directive_text": ("myst_parser.mdit_to_docutils.base", "parse_directive_text"),
        "compute_unique_slug": ("myst_parser.mdit_to_docutils.base", "compute_unique_slug"),
        "validate_field": ("myst_parser.config.main", "validate_field"),
        "read_topmatter": ("myst_parser.parsers.docutils_", "read_topmatter"),
        "tokenize_html": ("myst_parser.mdit_to_docutils.html_to_nodes", "tokenize_html"),
        "jinja.render": ("jinja2.environment.Template", "render"),
        "int": ("builtins-in:" + ("myst_parser.mocking" if func.startswith("Mock") else "myst_parser.mdit_to_docutils.base"), "int"),
    }
    undo = None
    if key in targets:
        modn, name = targets[key]
        if modn.startswith("builtins-in:"):
            mod = importlib.import_module(modn.split(":", 1)[1])
            orig = int

            def rec(*a, **k):
                try:
                    return orig(*a, **k)
                except BaseException as e:  # noqa: BLE001
                    seen.append(type(e))
                    raise
            mod.__dict__[name] = rec
            undo = lambda: mod.__dict__.pop(name, None)  # noqa: E731
        else:
            parts = modn.split(".")
            try:
                obj = importlib.import_module(modn)
            except ImportError:
                obj = getattr(importlib.import_module(".".join(parts[:-1])), parts[-1])
            orig = getattr(obj, name)

            def rec(*a, **k):
                try:
                    return orig(*a, **k)
                except BaseException as e:  # noqa: BLE001
                    seen.append(type(e))
                    raise
            setattr(obj, name, rec)
            undo = lambda: setattr(obj, name, orig)  # noqa: E731
    case = {"fe": "docutils", "text": text, "settings": dict(extra.get("settings", {})), "files": dict(extra.get("files", {})), "name": "index.md"}
    try:
        r = run_case(case, timeout=60)
    finally:
        if undo:
            undo()
    from gen.c01_excflow import qual
    return {"ok": r["ok"], "sig": r.get("sig"), "seen": [qual(c) for c in seen], "mros": [[qual(a) for a in c.__mro__] for c in seen]}


TRANSFORM_DOCS = [
    "a[^x] b[^1] c[^y] d[^x]\n\n[^y]: Y\n[^x]: X\n[^1]: one\n[^u]: unused\n[^2]: unused two\n",
    "(t1)=\n# A\n\n(t2)=\n(t3)=\npara\n\n(d)=\nTerm\n: Def\n\n(f)=\n:field: v\n\n[](#t1) [x](#t2) [](#t3) [](#d) [](#f) [](#a) [](#zz) [y](#zz){.c #i}\n\n"
    "```{eval-rst}\n.. _ind: t1_\n.. _ext: http://x.org\n\n.. [#auto] rst footnote\n```\n\n[](#ind) [](#ext)\n\n> ## rubric {#rub}\n\n[](#rub)\n\n```{figure} a.png\n:name: fig\n\nCaption\n```\n\n[](#fig)\n",
    "<b>raw</b>\n\n```{raw} html\n<i>x</i>\n```\n",
]


def _coverage_worker(_):
    """Which transform-phase subscript sites are executed (without raising) by the driver documents: lines of
    transforms.py / Parser.parse from which docutils' Element.__getitem__ / __delitem__ is called."""
    from docutils import nodes

    from gen.c01_run import run_case
    hits = {}
    originals = {}

    def wrap(name):
        orig = getattr(nodes.Element, name)
        originals[name] = orig

        def w(self, *a):
            fr = sys._getframe(1)
            fn = fr.f_code.co_filename.replace("\\", "/")
            if "/myst_parser/" in fn:
                hits[(fn.split("/myst_parser/", 1)[1], fr.f_lineno)] = hits.get((fn.split("/myst_parser/", 1)[1], fr.f_lineno), 0) + 1
            return orig(self, *a)
        setattr(nodes.Element, name, w)
    for nm in ("__getitem__", "__delitem__"):
        wrap(nm)
    try:
        oks = []
        for fe in ("docutils", "sphinx"):
            for k, t in enumerate(TRANSFORM_DOCS):
                st = {"myst_enable_extensions": ["deflist", "fieldlist", "attrs_inline"], "myst_heading_anchors": 2}
                if fe == "docutils" and k == 3:
                    st["raw_enabled"] = False
                r = run_case({"fe": fe, "text": t, "settings": st, "files": {}, "name": "index.md"}, timeout=60)
                oks.append(bool(r["ok"]))
            c = kitchen_case(fe)
            oks.append(bool(run_case(c, timeout=60)["ok"]))
    finally:
        for nm, orig in originals.items():
            setattr(nodes.Element, nm, orig)
    return {"hits": [[f, ln, n] for (f, ln), n in hits.items()], "ok": oks}


def parse_raises():
    """callee -> class list, read from the Coq source (data only; the predictions come from coqc)."""
    txt = (COQ / "Exc" / "ExcFlow.v").read_text()
    defs = dict(re.findall(r'Definition (E_\w+) := "([^"]+)"\.', txt))
    m = re.search(r"Definition inventory_errors := \[(.*?)\]\.", txt, re.S)
    inv = [defs.get(x.strip(), x.strip().strip('"')) for x in m.group(1).split(";")]
    body = re.search(r"Definition raises : list \(string \* list string\) := \[(.*?)\n\]\.", txt, re.S).group(1)
    body = re.sub(r"\(\*.*?\*\)", "", body, flags=re.S)
    out = {}
    for key, lst in re.findall(r'\("([^"]+)",\s*(\[[^\]]*\]|inventory_errors)\)', body):
        if lst == "inventory_errors":
            out[key] = inv
        else:
            out[key] = [defs.get(x.strip(), x.strip().strip('"')) for x in lst.strip("[]").split(";") if x.strip()]
    return out


def corr(ctx):
    import time
    t0 = time.time()
    try:
        _corr(ctx)
    finally:
        ctx.notes.append(f"corr wall {time.time() - t0:.1f}s")


def _corr(ctx):
    import multiprocessing as mp
    from concurrent.futures import ProcessPoolExecutor
    sites = getattr(ctx, "c01_sites", None)
    if sites is None:
        return
    rows = coq_prediction_table()
    by_key = {(s["file"], s["func"], s["callee"], s["idx"]): s for s in sites}
    jobs, meta = [], []
    for r in rows:
        ctx.count("pairs:" + r["status"])
        if r["status"] not in ("checked", "open"):
            continue
        s = by_key.get((r["file"], r["func"], r["callee"], r["idx"]))
        if s is None:
            ctx.disagree("site of the Coq table not in the regenerated site list", r, None, None)
            continue
        sphinx_only = "sphinx" in s["file"] or s["callee"] in ("parselinenos",)
        cases = [kitchen_case("sphinx")] if sphinx_only else [kitchen_case("docutils"), kitchen_case("sphinx")]
        jobs.append((s, r["cls"], cases))
        meta.append(r)
    with ProcessPoolExecutor(max_workers=16, mp_context=mp.get_context("fork")) as ex:
        results = list(ex.map(_inject_worker, jobs, chunksize=2))
    unreached = []
    for r, res in zip(meta, results):
        ctx.corr_cases += 1
        st = res["status"] if res else "none"
        if st != "ran":
            ctx.count("inject:" + st)
            continue
        if not res["hits"]:
            ctx.count("inject:unreached")
            unreached.append(f'{r["file"]}:{r["func"]}:{r["callee"]}#{r["idx"]}')
            continue
        ctx.count("inject:reached")
        ctx.nontriv((r["file"], r["func"], r["callee"], r["idx"], r["cls"]))
        impl_covered = bool(res["ok"])
        if impl_covered != r["predict"]:
            ctx.disagree("fault injection: outcome differs from predict(site, class)",
                         {"kind": "inject", "site": {k: r[k] for k in ("file", "func", "callee", "idx")}, "cls": r["cls"], "fe": res["fe"]},
                         {"document_returned": impl_covered, "sig": res.get("sig")}, {"predict_covered": r["predict"], "status": r["status"]})
    # transform-phase sites are whitelisted by invariants of docutils' node attributes: record that the driver documents
    # execute them (through Element.__getitem__ / __delitem__) without an exception
    with ProcessPoolExecutor(max_workers=1, mp_context=mp.get_context("fork")) as ex:
        cov = list(ex.map(_coverage_worker, [0]))[0]
    hit_lines = {(f, ln) for f, ln, _ in cov["hits"]}
    tsites = [s for s in sites if s["callee"].startswith("subscript:") and any(k in s["callee"] for k in ("node[", "refnode[", "footnote."))]
    exercised = [s for s in tsites if any((s["file"].split("myst_parser/", 1)[1], ln) in hit_lines for ln in range(s["line"], s.get("end_line", s["line"]) + 1))]
    ctx.corr_cases += len(cov["ok"])
    ctx.count("transform-sites:node-subscripts", len(tsites))
    ctx.count("transform-sites:exercised-without-exception", len(exercised))
    if not all(cov["ok"]):
        ctx.disagree("a transform-phase driver document raised", {"kind": "transform-drivers"}, cov["ok"], "all documents returned")
    missing = sorted({f'{s["func"]}:{s["callee"]}#{s["idx"]}' for s in tsites} - {f'{s["func"]}:{s["callee"]}#{s["idx"]}' for s in exercised})
    if missing:
        ctx.notes.append("transform-phase node subscripts not executed by the driver documents: " + ", ".join(missing))
    if unreached:
        ctx.notes.append("injection sites not reached by the driver documents: " + ", ".join(sorted(set(unreached))[:60]))
    ctx.sample({"injected_pairs": len(jobs), "reached": ctx.counts.get("inject:reached", 0)})
    # crafted inputs with a recorder: the class really raised must be below raises(callee); outcome = prediction
    raises = parse_raises()
    pred = {(r["func"], r["callee"], r["cls"]): r["predict"] for r in rows}
    with ProcessPoolExecutor(max_workers=16, mp_context=mp.get_context("fork")) as ex:
        recs = list(ex.map(_record_worker, CRAFTED))
    for job, rec in zip(CRAFTED, recs):
        key, func, text, extra = job
        ctx.corr_cases += 1
        ctx.count("crafted:" + key)
        listed = raises.get(key, [])
        for q, mro in zip(rec["seen"], rec["mros"]):
            ctx.nontriv(("crafted", key, q))
            if not any(c in mro for c in listed):
                ctx.disagree("raises table incomplete: the library raised a class that is not below raises(callee)",
                             {"kind": "crafted", "callee": key, "text": text, "extra": extra}, q, listed)
        # prediction: covered iff every observed class is predicted covered at that function's site
        exp_cov = True
        for q, mro in zip(rec["seen"], rec["mros"]):
            hit = [c for c in listed if c in mro]
            if hit and any(pred.get((func, key, c)) is False for c in hit):
                exp_cov = False
        if rec["seen"] and bool(rec["ok"]) != exp_cov:
            ctx.disagree("crafted input: outcome differs from the table's prediction",
                         {"kind": "crafted", "callee": key, "text": text, "extra": extra},
                         {"document_returned": rec["ok"], "sig": rec.get("sig")}, {"predict_covered": exp_cov})
        if not rec["seen"]:
            ctx.count("crafted:no-exception-at-callee")


# ------------------------------------------------------------------------------------------------ search

def _quine():
    x = '%(o)s%(o)s %(x)r|format(x=%(x)r,o="{",c="}") %(c)s%(c)s'
    return "{{ " + repr(x) + "|format(x=" + repr(x) + ',o="{",c="}")' + " }}\n"


def fixed_cases():
    """Witnesses of the known findings (reproduced on every run) and regression inputs of the repaired defects."""
    all_ext = {"myst_enable_extensions": [e for e in KITCHEN_SETTINGS["myst_enable_extensions"]]}
    cs = [
        {"fe": "docutils", "text": "x\n", "settings": {"myst_words_per_minute": 0}},
        {"fe": "sphinx", "text": "x\n", "settings": {"myst_words_per_minute": 0}},
        {"fe": "docutils", "text": "---\nmyst:\n  words_per_minute: 0\n---\nx\n", "settings": {}},
        {"fe": "docutils", "text": "x\n", "settings": {"myst_disable_syntax": ["paragraph"]}, "timeout": 5},
        {"fe": "sphinx", "text": "x\n", "settings": {"myst_disable_syntax": ["paragraph"]}, "timeout": 8},
        {"fe": "docutils", "text": "- [ ] x\n", "settings": {"myst_disable_syntax": ["inline"], "myst_enable_extensions": ["tasklist"]}},
        {"fe": "sphinx", "text": "- [ ] x\n", "settings": {"myst_disable_syntax": ["inline"], "myst_enable_extensions": ["tasklist"]}},
        {"fe": "docutils", "text": "> ---\n", "settings": {}},
        {"fe": "sphinx", "text": "> ---\n", "settings": {}},
        {"fe": "docutils", "text": "```{figure} a.png\n[x]: mailto:x\n```\n", "settings": {}},
        {"fe": "docutils", "text": ":{{a}}: x\n", "settings": {"myst_enable_extensions": ["fieldlist", "substitution"], "myst_substitutions": {"a": ""}}},
        {"fe": "docutils", "text": "---\nmyst:\n  substitutions: {a: ''}\n---\n:{{a}}: x\n", "settings": {"myst_enable_extensions": ["fieldlist", "substitution"]}},
        {"fe": "sphinx", "text": "```{productionlist} x\n```\n", "settings": {}},
        {"fe": "docutils", "text": "(a)=\n```{eval-rst}\n.. _a:\n.. _b:\n\ntext\n```\n[](#a) [](#b)\n", "settings": {}},
        {"fe": "docutils", "text": "```{target-notes}\n:name: a\n```\n", "settings": {}},
        {"fe": "docutils", "text": "> :::\n>", "settings": {"myst_enable_extensions": ["colon_fence"]}},
        {"fe": "sphinx", "text": "> :::\n>", "settings": {"myst_enable_extensions": ["colon_fence"]}},
        {"fe": "docutils", "text": "```{raw} latex\n:url: ? x\n```\n", "settings": {}},
        {"fe": "sphinx", "text": "{.c}\n> [r]: u\n", "settings": {"myst_enable_extensions": ["attrs_block"]}},
        {"fe": "docutils", "text": "```{line-block}\n\n\nx\n```\n", "settings": {}},
        {"fe": "sphinx", "text": "[x](a%00b.md)\n", "settings": {}},
        {"fe": "sphinx", "text": "<path:a%00b>\n", "settings": {}},
        {"fe": "sphinx", "text": "[x](project:a%00b.md)\n", "settings": {}},
        {"fe": "docutils", "text": "[x](a%00b.md) <path:a%00b> [x](project:a%00b.md)\n", "settings": {}},
        {"fe": "docutils", "text": "[a](inv://[#x)\n", "settings": {}},
        {"fe": "docutils", "text": "[a](http://[::1)\n", "settings": {"myst_url_schemes": {"http": {"url": "x{{path}}"}}}},
        {"fe": "docutils", "text": "---\nmyst:\n  url_schemes: {http: {url: 'x{{path}}'}}\n---\n<http://[::1>\n", "settings": {}},
        # regression inputs of repaired defects (must pass)
        {"fe": "docutils", "text": "---\na: *x\n---\n", "settings": {}},
        {"fe": "docutils", "text": "---\na: !!python/object:os.system x\n---\n", "settings": {}},
        {"fe": "docutils", "text": "---\na: !!float x\nb: !!bool y\n---\n", "settings": {}},
        {"fe": "docutils", "text": "---\na: [2020-01-01]\nb: &r {c: *r}\n---\nx\n", "settings": {}},
        {"fe": "docutils", "text": "![a](b){w=x}\n", "settings": {"myst_enable_extensions": ["attrs_inline"]}},
        {"fe": "docutils", "text": "```{include} __SELF__\n```\n", "settings": {}},
        {"fe": "sphinx", "text": "```{include} __SELF__\n```\n", "settings": {}},
        {"fe": "docutils", "text": "```{include} cyc_a.md\n```\n", "settings": {},
         "files": {"cyc_a.md": {"t": "```{include} sub/../cyc_b.md\n```\n"}, "cyc_b.md": {"t": "```{include} cyc_a.md\n```\n"}, "sub": {"dir": 1}}},
        {"fe": "docutils", "text": "```{note}\n:class: \"\\UFFFFFFFF\"\n```\n", "settings": {}},
        {"fe": "docutils", "text": "<img src>\n", "settings": {"myst_enable_extensions": ["html_image"]}},
        {"fe": "docutils", "text": "---\nmyst:\n  url_schemes: [http]\n---\n[a](http://x.org)\n", "settings": {}},
        {"fe": "sphinx", "text": "[a](" + "x" * 300 + ".md) [b](" + "a/" * 2500 + "b.md)\n", "settings": {}},
        {"fe": "docutils", "text": _quine(), "settings": {"myst_enable_extensions": ["substitution"]}},
        {"fe": "sphinx", "text": _quine(), "settings": {"myst_enable_extensions": ["substitution"]}},
        {"fe": "docutils", "text": KITCHEN, "settings": dict(KITCHEN_SETTINGS), "files": dict(KITCHEN_FILES)},
    ]
    for c in cs:
        c.setdefault("files", {})
        c.setdefault("name", "index.md")
    cs.append(kitchen_case("sphinx"))
    del all_ext
    return cs


def fs_fault_cases():
    """File-system faults named by the quantifier, as a fixed matrix: every way MyST reads a file named by the document
    (include plain / literal / code / with options, eval-rst include, literalinclude, csv-table :file:, raw :file:,
    figure / image paths) x fault (missing, directory, undecodable bytes, over-long name, self-inclusion, cyclic) x front
    end; inventories (myst_inventories / intersphinx) pointing at missing, directory, empty, garbage, truncated-zlib,
    non-UTF-8, header-only files and at an unreachable URL.  (The sandbox user is root, so permission-denied cannot be
    produced with chmod; special files such as /dev/zero or a FIFO make Path.read_text block or exhaust memory exactly
    as docutils' own include does - recorded in the notes as an observation, not exercised here.)"""
    files = {"adir": {"dir": 1}, "undec.md": {"b": [0x43, 0x61, 0x66, 0xe9, 0x0a, 0xff, 0xfe]}, "undec.csv": {"b": [0xff, 0xfe, 0x2c, 0xe9]},
             "good.md": {"t": "good *text*\n"}, "cyc_a.md": {"t": "```{include} cyc_b.md\n```\n"}, "cyc_b.md": {"t": "```{include} cyc_a.md\n```\n"}}
    targets = {"missing": "nothere.md", "dir": "adir", "undecodable": "undec.md", "toolong": "x" * 300 + ".md", "self": "__SELF__", "cycle": "cyc_a.md",
               "deep-missing": "a/b/c/nothere.md", "parent-escape": "../" * 40 + "etc/hostname-nothere"}
    forms = {
        "include": "```{include} %s\n```\n", "include-literal": "```{include} %s\n:literal:\n```\n",
        "include-code": "```{include} %s\n:code: python\n:number-lines: 1\n```\n",
        "include-clip": "```{include} %s\n:start-after: X\n:end-before: Y\n:start-line: 1\n```\n",
        "include-encoding": "```{include} %s\n:encoding: ascii\n```\n",
        "rst-include": "```{eval-rst}\n.. include:: %s\n```\n", "rst-include-literal": "```{eval-rst}\n.. include:: %s\n   :literal:\n```\n",
        "csv-file": "```{csv-table}\n:file: %s\n```\n", "raw-file": "```{raw} html\n:file: %s\n```\n",
        "figure": "```{figure} %s\ncaption\n```\n", "image": "```{image} %s\n```\n![alt](%s)\n", "figure-figwidth-image": "```{figure} %s\n:figwidth: image\n```\n",
        "literalinclude": "```{literalinclude} %s\n```\n", "md-image-link": "![a](%s) [l](%s) <path:%s>\n",
    }
    out = []
    for fe in ("docutils", "sphinx"):
        for fname, form in forms.items():
            if fname == "literalinclude" and fe == "docutils":
                continue
            for tname, tgt in targets.items():
                text = form.replace("%s", tgt)
                out.append({"fe": fe, "text": text, "settings": {}, "files": dict(files), "name": "index.md", "tag": f"fs:{fname}:{tname}"})
    inv_faults = {
        "missing": (None, "__DIR__/nothere.inv"), "dir": ({"d.inv": {"dir": 1}}, "__DIR__/d.inv"),
        "empty": ({"k.inv": {"rawinv": []}}, "__DIR__/k.inv"), "garbage": ({"k.inv": {"rawinv": list(b"garbage\x00\xff")}}, "__DIR__/k.inv"),
        "header-only": ({"k.inv": {"rawinv": list(b"# Sphinx inventory version 2\n")}}, "__DIR__/k.inv"),
        "not-zlib": ({"k.inv": {"rawinv": list(b"# Sphinx inventory version 2\n# Project: p\n# Version: 1\n# zlib\nnot-zlib-data")}}, "__DIR__/k.inv"),
        "truncated": ({"k.inv": {"inv": [["py", "function", "f", "a.html#$", "-"]] * 40, "truncate": 25}}, "__DIR__/k.inv"),
        "latin1": ({"k.inv": {"inv": [["py", "function", "f", "a", "\xff"]], "latin1": 1}}, "__DIR__/k.inv"),
        "bad-header-bytes": ({"k.inv": {"rawinv": list(b"# Sphinx inventory version 2\n# Project: \xff\n# Version: 1\n# zlib\n")}}, "__DIR__/k.inv"),
        "v1": ({"k.inv": {"rawinv": list(b"# Sphinx inventory version 1\n# Project: p\n# Version: 1\nf function api.html\nbroken\n")}}, "__DIR__/k.inv"),
        "url-refused": (None, None),
    }
    for name, (fl, path) in inv_faults.items():
        url = "http://127.0.0.1:1/inv/" if path is None else "https://k.e.org/"
        doc = "<inv:#f> [x](inv:k:py:function#f) [y](inv:k#*)\n"
        out.append({"fe": "docutils", "text": doc, "settings": {"myst_inventories": {"k": [url, path]}}, "files": dict(fl or {}), "name": "index.md",
                    "tag": f"fs:inventory:{name}"})
        out.append({"fe": "sphinx", "text": doc + "\n{external+k:py:func}`f`\n", "settings": {}, "files": dict(fl or {}), "name": "index.md",
                    "intersphinx": {"k": [url, path]}, "tag": f"fs:intersphinx:{name}"})
    return out


def report(ctx, case, r, confirm=True):
    what = f'{case["fe"]} front end: {r["exc"]} escapes the parser ({r["sig"]}): {r.get("msg", "")[:160]}'
    ctx.fail(r["sig"], case, what, expected="a document is returned; problems are reported as warnings / system messages",
             observed={"exception": r["exc"], "frames": r.get("frames", [])[-8:], "message": r.get("msg", "")[:300]})


def search(ctx):
    import time
    t0 = time.time()
    try:
        _search(ctx)
    finally:
        ctx.notes.append(f"search wall {time.time() - t0:.1f}s")


def _search(ctx):
    from gen import c01_docgen as G
    from gen.c01_run import run_case, run_cases_parallel, run_fresh
    # 1. suspects from the correspondence: the driver document under the same injection cannot be replayed without the
    #    patch; what can be searched is the neighbourhood: crafted text of a disagreeing crafted case
    sus = [c for c in ctx.suspects if isinstance(c, dict) and c.get("kind") == "crafted"]
    cases = [{"fe": "docutils", "text": c["text"], "settings": dict(c.get("extra", {}).get("settings", {})),
              "files": dict(c.get("extra", {}).get("files", {})), "name": "index.md"} for c in sus[:50]]
    cases += fixed_cases()
    fsc = fs_fault_cases()
    cases += fsc
    ctx.count("fs-fault-matrix", len(fsc))
    if ctx.deep:
        # the tie is broken: run the crafted inputs of every callee as plain search cases as well
        for key, func, text, extra in CRAFTED:
            cases.append({"fe": "docutils", "text": text, "settings": dict(extra.get("settings", {})), "files": dict(extra.get("files", {})), "name": "index.md"})
            cases.append({"fe": "sphinx", "text": text, "settings": {k: v for k, v in extra.get("settings", {}).items() if k != "myst_inventories"},
                          "files": dict(extra.get("files", {})), "name": "index.md"})
    n_fixed = len(cases)
    rng = ctx.rng
    n_doc = ctx.budget(8000, 90000, 40000)
    n_sph = ctx.budget(600, 8000, 3000)
    for _ in range(n_doc):
        cases.append(G.gen_case(rng, "docutils", HAVE_LINKIFY))
    for _ in range(n_sph):
        cases.append(G.gen_case(rng, "sphinx", HAVE_LINKIFY))
    ctx.notes.append(f"linkify-it-py importable: {HAVE_LINKIFY} (linkify extension and gfm_only are sampled only when it is)")
    ctx.notes.append("configurations that disable the markdown-it core rule 'inline' or the fallback block rule 'paragraph' are "
                     "excluded from random sampling (known findings with fixed witnesses)")
    results = []
    step = 20000
    for i in range(0, len(cases), step):
        results += run_cases_parallel(cases[i:i + step])
    seen_new = {}
    known = {k["signature"] for k in common.load_known() if k["property"] == PID and k.get("status", "open") == "open"}
    for i, (case, r) in enumerate(zip(cases, results)):
        ctx.search_cases += 1
        ctx.count(("fixed:" if i < n_fixed else "gen:") + case["fe"])
        if r["ok"]:
            if r.get("nwarn"):
                ctx.nontriv(i)
                ctx.count("outcome:document+warnings")
            else:
                ctx.count("outcome:document")
            continue
        ctx.count("outcome:" + r["sig"])
        if r["sig"] in known:
            if r["sig"] not in seen_new:
                seen_new[r["sig"]] = True
                report(ctx, case, r)
            continue
        # a new signature: keep the smallest witness per signature, confirm it in a fresh interpreter
        cur = seen_new.get(r["sig"])
        if cur is None or cur is True or len(case["text"]) < len(cur[0]["text"]):
            seen_new[r["sig"]] = (case, r)
    for sig, v in seen_new.items():
        if v is True:
            continue
        case, r = v
        fr = run_fresh(case)
        if fr["ok"]:
            # only with history in the worker process: report as such (depends on earlier documents)
            ctx.notes.append(f"failure {sig} did not reproduce in a fresh interpreter (history-dependent): {case['text'][:200]!r}")
            ctx.count("history-dependent:" + sig)
            ctx.fail("history-dependent:" + sig, case, f"{r['exc']} only after other documents were parsed in the same process ({sig})",
                     expected="a document is returned", observed=r)
            continue
        case = shrink(case, fr["sig"], run_case)
        report(ctx, case, fr)
    for c in cases[:2]:
        ctx.sample({"fe": c["fe"], "text": c["text"][:300], "settings": c["settings"]})
    for c in cases[n_fixed:n_fixed + 3]:
        ctx.sample({"fe": c["fe"], "text": c["text"][:400], "settings": c["settings"], "files": sorted(c["files"])})


def shrink(case, sig, run_case, budget=40):
    """Greedy line/settings shrinking that keeps the signature."""
    if sig.startswith("timeout"):
        return case

    def fails(c):
        r = run_case(c, timeout=10)
        return (not r["ok"]) and r["sig"] == sig
    cur = dict(case)
    n = 0
    changed = True
    while changed and n < budget:
        changed = False
        for k in list(cur.get("settings", {})):
            if k == "myst_enable_extensions":
                continue
            t = dict(cur, settings={a: b for a, b in cur["settings"].items() if a != k})
            n += 1
            if fails(t):
                cur, changed = t, True
        lines = cur["text"].split("\n")
        i = 0
        while i < len(lines) and n < budget:
            t = dict(cur, text="\n".join(lines[:i] + lines[i + 1:]))
            n += 1
            if len(lines) > 1 and fails(t):
                lines = lines[:i] + lines[i + 1:]
                cur, changed = t, True
            else:
                i += 1
    return cur


def replay(ctx, data):
    from gen.c01_run import run_case
    w = data.get("witness")
    if not w or "text" not in w:
        print("replay file names no concrete input:", json.dumps(data.get("no_longer_checks"), default=repr)[:2000])
        return 1
    r = run_case(w)
    if r["ok"]:
        print("replay: a document is returned (property holds on this input)")
        return 0
    print(f"replay: {r['exc']} escapes: {r['sig']}: {r.get('msg', '')[:300]}")
    for f in r.get("frames", [])[-8:]:
        print("   ", f)
    return 1
