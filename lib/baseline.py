#!/venv/bin/python
"""Run the repository's pinned test suite (guard off) and compare with BASELINE.json stable_pass."""
import json, os, subprocess, sys, tempfile
import xml.etree.ElementTree as ET

repo = os.environ.get("VERIF_REPO", "/repo")
base = json.load(open("/root/.vp/BASELINE.json"))
fd, xml = tempfile.mkstemp(suffix=".xml"); os.close(fd)
env = {k: v for k, v in os.environ.items() if k not in ("MYST_PARSER_VERIF", "PYTHONPATH", "PYTHONHASHSEED")}
p = subprocess.run(["/venv/bin/python", "-m", "pytest", "-ra", "-q", "-p", "no:cacheprovider", "--timeout=900",
                    "--continue-on-collection-errors", f"--junitxml={xml}"], cwd=repo, env=env,
                   stdout=subprocess.PIPE, stderr=subprocess.STDOUT, text=True)
passed = set()
for tc in ET.parse(xml).getroot().iter("testcase"):
    if not any(ch.tag in ("failure", "error", "skipped") for ch in tc):
        passed.add(f"{tc.get('classname')}::{tc.get('name')}")
os.unlink(xml)
stable = set(base["stable_pass"])
missing = sorted(stable - passed)
print(p.stdout.strip().splitlines()[-1])
print(f"stable_pass={len(stable)} passed_now={len(passed)} stable_not_passing={len(missing)}")
for m in missing[:30]:
    print("  NOT PASSING:", m)
sys.exit(1 if missing else 0)
