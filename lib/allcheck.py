#!/venv/bin/python
"""Run every registered check (MANIFEST.json) at a tier, a few in parallel; print a summary table."""
import json, subprocess, sys, time
from concurrent.futures import ThreadPoolExecutor
from pathlib import Path
VERIF = Path(__file__).resolve().parent.parent
tier = sys.argv[1] if len(sys.argv) > 1 else "quick"
jobs = int(sys.argv[2]) if len(sys.argv) > 2 else 4
man = json.loads((VERIF / "MANIFEST.json").read_text())
def run(c):
    t0 = time.time()
    cmd = c["quick_cmd"] if tier == "quick" else c["thorough_cmd"]
    p = subprocess.run(cmd, shell=True, cwd=VERIF, capture_output=True, text=True)
    lines = [l for l in p.stdout.splitlines() if l.startswith(("VIOLATION", "KNOWN-FINDING", "["))]
    return c["property_id"], p.returncode, round(time.time() - t0, 1), lines
with ThreadPoolExecutor(jobs) as ex:
    res = list(ex.map(run, man["checks"]))
bad = 0
for pid, rc, wall, lines in res:
    print(f"{pid} exit={rc} wall={wall}s")
    for l in lines:
        print("   ", l[:300])
    bad += rc != 0
print(f"{len(res)} checks, {bad} non-zero")
sys.exit(1 if bad else 0)
