"""Shared machinery of the /verif checks: environment, Coq build + audit, model runner,
verdict protocol (DESIGN.md section 4), evidence and replay files."""
from __future__ import annotations

import fcntl
import glob
import hashlib
import json
import os
import random
import re
import subprocess
import sys
import time
import traceback
from pathlib import Path

VERIF = Path(__file__).resolve().parent.parent
REPO = Path(os.environ.get("VERIF_REPO", "/repo"))
COQ = VERIF / "coq"
BUILD = VERIF / "build"
PY = "/venv/bin/python"

FORBIDDEN = re.compile(
    r"\b(Admitted|admit|Axiom|Axioms|Parameter|Parameters|Conjecture|Conjectures|Hypothesis|Hypotheses|Variable|Variables|"
    r"Unset\s+Guard|bypass_check|type-in-type|impredicative-set|Admit\s+Obligations|native_compute)\b"
)


def sh(cmd, timeout=None, cwd=None, env=None, input=None):
    e = dict(os.environ)
    if env:
        e.update(env)
    p = subprocess.run(
        cmd, shell=isinstance(cmd, str), cwd=cwd, env=e, input=input,
        stdout=subprocess.PIPE, stderr=subprocess.STDOUT, timeout=timeout, text=True,
    )
    return p.returncode, p.stdout


class BuildLock:
    """Process-wide build lock (flock on build/.lock), re-entrant within this process."""
    _depth = 0
    _f = None

    def __enter__(self):
        if BuildLock._depth == 0:
            BUILD.mkdir(exist_ok=True)
            BuildLock._f = open(BUILD / ".lock", "w")
            fcntl.flock(BuildLock._f, fcntl.LOCK_EX)
        BuildLock._depth += 1
        return self

    def __exit__(self, *a):
        BuildLock._depth -= 1
        if BuildLock._depth == 0:
            fcntl.flock(BuildLock._f, fcntl.LOCK_UN)
            BuildLock._f.close()
            BuildLock._f = None


# ---------------------------------------------------------------- encoding for modelrun

def enc_str(s: str) -> str:
    return ",".join(str(ord(c)) for c in s) if s else "-"


def enc_bytes(b: bytes) -> str:
    return ",".join(str(c) for c in b) if b else "-"


def enc_ostr(s) -> str:
    return "~" if s is None else enc_str(s)


def enc_strs(l) -> str:
    return ";".join(enc_str(s) for s in l) if l else "."


def dec_str(f: str) -> str:
    return "" if f in ("-", "") else "".join(chr(int(t)) for t in f.split(","))


def dec_ostr(f: str):
    return None if f == "~" else dec_str(f)


def dec_strs(f: str):
    return [] if f == "." else [dec_str(x) for x in f.split(";")]


# ---------------------------------------------------------------- Coq project

def coq_files():
    fs = []
    for p in sorted(COQ.rglob("*.v")):
        rel = p.relative_to(COQ).as_posix()
        if rel.startswith("Extract/"):
            continue
        fs.append(rel)
    return fs


GEN_OWNER = {"current": None, "written": {}}      # which property's gen() wrote which coq/Gen file (this run)


def write_if_changed(path: Path, content: str) -> bool:
    try:
        rel = Path(path).resolve().relative_to(COQ).as_posix()
        if rel.startswith("Gen/") and GEN_OWNER["current"]:
            GEN_OWNER["written"][rel] = GEN_OWNER["current"]
    except ValueError:
        pass
    path.parent.mkdir(parents=True, exist_ok=True)
    if path.exists() and path.read_text() == content:
        return False
    path.write_text(content)
    return True


def ensure_makefile():
    content = "-Q . MV\n" + "\n".join(coq_files()) + "\n"
    changed = write_if_changed(COQ / "_CoqProject", content)
    if changed or not (COQ / "Makefile").exists():
        rc, out = sh("coq_makefile -f _CoqProject -o Makefile", cwd=COQ, timeout=120)
        if rc != 0:
            raise RuntimeError("coq_makefile failed: " + out)


def coq_make(targets, timeout=1500):
    """make the given .vo targets (full .vo build). Returns (ok, output)."""
    with BuildLock():
        ensure_makefile()
        cmd = ["make", "-j16", "-k"] + list(targets)
        rc, out = sh(cmd, cwd=COQ, timeout=timeout)
    return rc == 0, out


def coq_props(pid, timeout=600):
    """(Re)compile Props/<pid>.v with coqc to capture Print Assumptions. Returns dict."""
    src = COQ / "Props" / f"{pid}.v"
    text = src.read_text()
    theorems = re.findall(r"^\s*(?:Theorem|Lemma)\s+([A-Za-z0-9_']+)", text, re.M)
    cmd = f"coqc -Q . MV Props/{pid}.v"
    t0 = time.time()
    with BuildLock():
        rc, out = sh(cmd, cwd=COQ, timeout=timeout)
    # Print Assumptions output: "Closed under the global context" or "Axioms:\n name : type ..."
    closed = len(re.findall(r"Closed under the global context", out))
    axioms = []
    for m in re.finditer(r"Axioms:\n((?:.+\n?)+?)(?=\n\S|\Z)", out):
        axioms.append(m.group(1).strip())
    return {
        "ok": rc == 0,
        "theorems": theorems,
        "closed": closed,
        "axioms": axioms,
        "output": out[-4000:],
        "cmd": f"cd {COQ} && make -j16 Props/{pid}.vo && {cmd}",
        "wall_s": round(time.time() - t0, 2),
    }


def coq_audit(files):
    """grep gate over the development files that the property depends on."""
    bad = []
    for rel in files:
        p = COQ / rel
        if not p.exists():
            continue
        txt = p.read_text()
        # strip comments (non-nested approximation good enough: remove (* ... *) greedily by levels)
        prev = None
        while prev != txt:
            prev = txt
            txt = re.sub(r"\(\*(?:(?!\(\*|\*\)).)*?\*\)", " ", txt, flags=re.S)
        for m in FORBIDDEN.finditer(txt):
            # Variable/Hypothesis are allowed only inside a Section
            word = m.group(1)
            if word in ("Variable", "Variables", "Hypothesis", "Hypotheses"):
                before = txt[: m.start()]
                opened = len(re.findall(r"^\s*Section\s", before, re.M))
                closed = len(re.findall(r"^\s*End\s", before, re.M)) - len(re.findall(r"^\s*Module\s", before, re.M))
                if opened > max(closed, 0):
                    continue
            bad.append(f"{rel}: {word}")
    return bad


_REQ_RE = re.compile(r"(?:From\s+MV\s+)?Require\s+(?:Import\s+|Export\s+)?(.*?)\.(?=\s|$)", re.S)


def _mv_requires(txt):
    """Relative .v files named by `From MV Require [Import|Export] A.B C.D.` / `Require Import MV.A.B.` sentences."""
    # strip comments
    prev = None
    while prev != txt:
        prev = txt
        txt = re.sub(r"\(\*(?:(?!\(\*|\*\)).)*?\*\)", " ", txt, flags=re.S)
    out = []
    for m in re.finditer(r"(From\s+MV\s+)?Require\s+(?:Import\s+|Export\s+)?((?:[A-Za-z_][A-Za-z0-9_']*(?:\.[A-Za-z_][A-Za-z0-9_']*)*\s*)+)\.(?=\s|$)", txt):
        frm, names = m.group(1), m.group(2).split()
        for name in names:
            if frm:
                out.append(name.replace(".", "/") + ".v")
            elif name.startswith("MV."):
                out.append(name[3:].replace(".", "/") + ".v")
    return out


def _closure(start_files):
    seen, todo = [], list(start_files)
    while todo:
        f = todo.pop()
        if f in seen or not (COQ / f).exists():
            continue
        seen.append(f)
        todo.extend(_mv_requires((COQ / f).read_text()))
    return seen


def coq_deps(pid):
    """Transitive MV.* dependencies of Props/<pid>.v (as relative file names, Props file included)."""
    return _closure([f"Props/{pid}.v"])


# ---------------------------------------------------------------- extracted model runner

def build_runner(pid, timeout=600):
    """Extract coq/Extract/Ex<pid>.v and link with ocaml/io.ml + ocaml/<pid>_driver.ml."""
    d = BUILD / "ocaml" / pid
    d.mkdir(parents=True, exist_ok=True)
    ex = COQ / "Extract" / f"Ex{pid}.v"
    drv = VERIF / "ocaml" / f"{pid}_driver.ml"
    io = VERIF / "ocaml" / "io.ml"
    deps = [ex, drv, io] + [COQ / f for f in coq_deps_of_file(ex)]
    h = hashlib.sha256()
    for p in deps:
        h.update(p.read_bytes())
    stamp = d / "stamp"
    if stamp.exists() and stamp.read_text() == h.hexdigest() and (d / "run").exists():
        return True, "up to date"
    with BuildLock():
        rc, out = sh(f"coqc -Q {COQ} MV -o {d}/Ex{pid}.vo {ex}", cwd=d, timeout=timeout)
        if rc != 0:
            return False, out
        (d / "io.ml").write_text(io.read_text())
        (d / "driver.ml").write_text(drv.read_text())
        rc, out2 = sh("ocamlfind ocamlopt -O2 -w -a -package str model.mli model.ml io.ml driver.ml -o run",
                      cwd=d, timeout=timeout)
        if rc != 0:
            return False, out + out2
        stamp.write_text(h.hexdigest())
    return True, out


def coq_deps_of_file(path: Path):
    return _closure(_mv_requires(path.read_text()))


def model_run(pid, lines, timeout=1200):
    """Run the extracted model on the given request lines; returns list of reply lines."""
    if not lines:
        return []
    exe = BUILD / "ocaml" / pid / "run"
    p = subprocess.run(
        [f"ulimit -s unlimited 2>/dev/null; exec {exe}"], shell=True, input="\n".join(lines) + "\n",
        stdout=subprocess.PIPE, stderr=subprocess.PIPE, text=True, timeout=timeout,
    )
    out = p.stdout.split("\n")
    if out and out[-1] == "":
        out.pop()
    if len(out) != len(lines):
        raise RuntimeError(f"modelrun {pid}: {len(lines)} requests, {len(out)} replies; rc={p.returncode}; stderr={p.stderr[-500:]}")
    return out


def model_run_parallel(pid, lines, jobs=16, timeout=3600):
    if len(lines) < 20000:
        return model_run(pid, lines, timeout)
    from concurrent.futures import ThreadPoolExecutor
    n = len(lines)
    step = (n + jobs - 1) // jobs
    parts = [lines[i:i + step] for i in range(0, n, step)]
    with ThreadPoolExecutor(jobs) as ex:
        res = list(ex.map(lambda p: model_run(pid, p, timeout), parts))
    out = []
    for r in res:
        out.extend(r)
    return out


# ---------------------------------------------------------------- context / verdict

class Ctx:
    def __init__(self, pid, tier, seed):
        self.pid = pid
        self.tier = tier
        self.seed = seed
        self.rng = random.Random(seed)
        self.deep = False              # set when the tie is broken: search harder
        self.t0 = time.time()
        self.tie_breaks = []           # list of {"what":..., "detail":...}
        self.failures = []             # direct property failures on the implementation
        self.disagreements = []        # model vs impl
        self.suspects = []             # inputs to feed to the search first
        self.counts = {}               # histogram
        self.corr_cases = 0
        self.search_cases = 0
        self.nontrivial = set()
        self.samples = []
        self.gen_info = {}
        self.notes = []
        self.oracle_tests = {}

    def count(self, key, n=1):
        self.counts[key] = self.counts.get(key, 0) + n

    def sample(self, x, limit=12):
        if len(self.samples) < limit:
            self.samples.append(x)

    def nontriv(self, key):
        if len(self.nontrivial) < 2_000_000:
            self.nontrivial.add(key if isinstance(key, (str, int, tuple)) else repr(key))

    def disagree(self, what, case, impl, model):
        self.disagreements.append({"what": what, "case": case, "impl": impl, "model": model})
        self.suspects.append(case)

    def tie_break(self, what, detail=""):
        self.tie_breaks.append({"what": what, "detail": str(detail)[-3000:]})

    def fail(self, signature, witness, what, expected=None, observed=None):
        self.failures.append({"signature": signature, "witness": witness, "what": what,
                              "expected": expected, "observed": observed})

    def budget(self, quick, thorough, deep=None):
        if self.deep and deep is not None:
            return deep
        return thorough if self.tier == "thorough" else quick

    def elapsed(self):
        return time.time() - self.t0


def load_known():
    p = VERIF / "known_findings.json"
    if not p.exists():
        return []
    return json.loads(p.read_text())


def write_replay(pid, name, data):
    d = VERIF / "replays"
    d.mkdir(exist_ok=True)
    p = d / f"{pid}-{name}.json"
    p.write_text(json.dumps(data, indent=1, ensure_ascii=True, default=repr))
    return p


def short_hash(x):
    return hashlib.sha256(json.dumps(x, sort_keys=True, default=repr).encode()).hexdigest()[:10]


def src_hashes(files):
    out = {}
    for f in files:
        p = REPO / f
        if p.exists():
            out[f] = hashlib.sha256(p.read_bytes()).hexdigest()[:16]
    return out


def run_property(mod, tier, seed, replay=None):
    pid = mod.PID
    ctx = Ctx(pid, tier, seed)
    if replay:
        data = json.loads(Path(replay).read_text())
        return mod.replay(ctx, data)

    # 1. gen: the translators of EVERY property are run (not only this one's): coq/Gen files are shared between
    # properties (C04 uses C08's, C10 uses C09's ...), and a Gen file left behind by an earlier run against a
    # different tree must never be what this run proves against.  A translator that fails only matters if one
    # of the Gen files it owns is in this property's dependency closure.
    build_lock = BuildLock()
    build_lock.__enter__()
    gen_failed = {}
    owners_file = BUILD / "gen_owners.json"
    try:
        known_owner = json.loads(owners_file.read_text()) if owners_file.exists() else {}
    except Exception:
        known_owner = {}
    import importlib
    for other in sorted(p.stem for p in (VERIF / "props").glob("C[0-9][0-9].py")):
        try:
            omod = mod if other == pid else importlib.import_module(f"props.{other}")
            if hasattr(omod, "gen"):
                GEN_OWNER["current"] = other
                omod.gen(ctx if other == pid else Ctx(other, tier, seed))
        except Exception as e:  # fail-closed translator
            gen_failed[other] = f"{e!r}\n{traceback.format_exc()[-1200:]}"
        finally:
            GEN_OWNER["current"] = None
    known_owner.update(GEN_OWNER["written"])
    try:
        BUILD.mkdir(exist_ok=True)
        owners_file.write_text(json.dumps(known_owner, indent=0, sort_keys=True))
    except Exception:
        pass
    if pid in gen_failed:
        ctx.tie_break("gen", "translator failed: " + gen_failed[pid])
    try:
        closure = set(coq_deps(pid))
    except Exception:
        closure = set()
    for other, err in gen_failed.items():
        if other == pid:
            continue
        stale = sorted(f for f, o in known_owner.items() if o == other and f in closure)
        if stale:
            ctx.tie_break("gen", f"translator of {other} failed and this property depends on its {stale}: {err[:600]}")

    # 2. prove
    proof = {"ok": False, "theorems": [], "closed": 0, "axioms": [], "cmd": "", "output": ""}
    try:
        ok, out = coq_make([f"Props/{pid}.vo"])
        if not ok:
            m = re.findall(r'File "([^"]+)", line (\d+)[^\n]*\n((?:.+\n){0,6})', out)
            ctx.tie_break("proof", "make failed: " + (out[-2500:] if not m else "\n".join(
                f"{a}:{b}: {c.strip()[:600]}" for a, b, c in m[:3])))
        proof = coq_props(pid)
        if ok and not proof["ok"]:
            ctx.tie_break("proof", "coqc Props failed: " + proof["output"][-1500:])
        n_thm = len(proof["theorems"])
        if proof["ok"] and proof["closed"] + len(proof["axioms"]) < n_thm:
            ctx.tie_break("audit", f"Print Assumptions missing for some theorems ({proof['closed']}+{len(proof['axioms'])} < {n_thm})")
        allowed = getattr(mod, "ALLOWED_AXIOMS", [])
        for ax in proof["axioms"]:
            names = re.findall(r"^([A-Za-z0-9_.']+)\s*:", ax, re.M)
            for nme in names:
                if nme not in allowed:
                    ctx.tie_break("audit", f"axiom not in whitelist: {nme}")
        deps = coq_deps(pid)
        bad = coq_audit(deps)
        if bad:
            ctx.tie_break("audit", "forbidden vernacular: " + ", ".join(bad))
        proof["deps"] = deps
        if tier == "thorough" and proof["ok"] and getattr(mod, "COQCHK", True):
            t1 = time.time()
            rc, o = sh(f"coqchk -silent -o -Q . MV MV.Props.{pid}", cwd=COQ, timeout=1800)
            proof["coqchk"] = {"rc": rc, "tail": o[-1500:], "wall_s": round(time.time() - t1, 1)}
            if rc != 0:
                ctx.tie_break("audit", "coqchk failed: " + o[-800:])
    except Exception as e:
        ctx.tie_break("proof", f"build error {e!r}")

    build_lock.__exit__(None, None, None)

    # 3. runner
    have_runner = False
    if (COQ / "Extract" / f"Ex{pid}.v").exists():
        try:
            ok, out = build_runner(pid)
            have_runner = ok
            if not ok:
                ctx.tie_break("extract", out[-2000:])
        except Exception as e:
            ctx.tie_break("extract", repr(e))
    ctx.have_runner = have_runner

    # 4. correspondence
    try:
        if hasattr(mod, "corr"):
            mod.corr(ctx)
        if ctx.disagreements:
            ctx.tie_break("correspondence", f"{len(ctx.disagreements)} disagreement(s); first: "
                          + json.dumps(ctx.disagreements[0], default=repr)[:1500])
    except Exception as e:
        ctx.tie_break("correspondence", f"harness error {e!r}\n{traceback.format_exc()[-2000:]}")

    # 5. search (direct property oracle on the implementation)
    def do_search():
        try:
            if hasattr(mod, "search"):
                mod.search(ctx)
        except Exception as e:
            ctx.tie_break("search", f"harness error {e!r}\n{traceback.format_exc()[-2000:]}")

    do_search()
    known = [k for k in load_known() if k["property"] == pid]
    open_sigs = {k["signature"]: k for k in known if k.get("status", "open") == "open"}

    def new_failures():
        return [f for f in ctx.failures if f["signature"] not in open_sigs]

    if ctx.tie_breaks and not new_failures() and not ctx.deep:
        ctx.deep = True
        do_search()

    return finish(mod, ctx, proof, open_sigs, new_failures())


def finish(mod, ctx, proof, open_sigs, newf):
    pid = ctx.pid
    rc = 0
    lines = []
    if newf:
        f = newf[0]
        rp = write_replay(pid, short_hash(f["witness"]), {
            "property": pid, "kind": "failing-input", "signature": f["signature"], "what": f["what"],
            "witness": f["witness"], "expected": f["expected"], "observed": f["observed"],
            "seed": ctx.seed, "all_new_failures": newf[:20], "tie_breaks": ctx.tie_breaks,
            "replay_cmd": f"./check {pid} --replay replays/{pid}-{short_hash(f['witness'])}.json"})
        lines.append(f"VIOLATION property={pid} replay={rp.relative_to(VERIF)}")
        rc = 1
    elif ctx.tie_breaks:
        rp = write_replay(pid, "tie", {
            "property": pid, "kind": "tie-broken",
            "no_longer_checks": ctx.tie_breaks, "seed": ctx.seed,
            "note": "no failing input found by the search; the property is no longer shown to hold"})
        lines.append(f"VIOLATION property={pid} replay={rp.relative_to(VERIF)} no-failing-input-found")
        rc = 1
    seen = set()
    for f in ctx.failures:
        if f["signature"] in open_sigs and f["signature"] not in seen:
            seen.add(f["signature"])
            lines.append(f"KNOWN-FINDING: property={pid} {open_sigs[f['signature']]['what']}")
    n_thm = len(proof.get("theorems", []))
    discharged = n_thm if (proof.get("ok") and not any(t["what"] in ("proof", "audit", "gen") for t in ctx.tie_breaks)) else 0
    ev = {
        "property_id": pid, "tier": ctx.tier, "seed": ctx.seed, "level": "proof",
        "coverage": {
            "obligations": max(n_thm, 1), "discharged": discharged,
            "checker_cmd": proof.get("cmd", ""),
            "trusted_base": getattr(mod, "TRUSTED", []) + COMMON_TRUSTED,
            "theorems": proof.get("theorems", []),
            "axioms": proof.get("axioms", []) or ["Closed under the global context (every theorem)"],
            "coq_files": proof.get("deps", []),
            "coqchk": proof.get("coqchk"),
            "oracle_assumptions": getattr(mod, "ORACLES", {}),
            "gen": ctx.gen_info,
            "correspondence": {"cases": ctx.corr_cases, "disagreements": len(ctx.disagreements),
                               "first_disagreements": ctx.disagreements[:5]},
            "search": {"cases": ctx.search_cases, "failures": len(ctx.failures),
                       "known_matched": sorted(seen), "new": len(newf)},
            "evaluations": ctx.corr_cases + ctx.search_cases,
            "distinct_nontrivial": len(ctx.nontrivial),
            "rule": getattr(mod, "RULE", ""),
            "distribution": ctx.counts,
            "samples": ctx.samples or ["(none)"],
            "tie_breaks": ctx.tie_breaks,
            "notes": ctx.notes,
        },
        "assumptions": getattr(mod, "ASSUMPTIONS", []),
        "wall_s": round(ctx.elapsed(), 2),
        "violations": len(newf) + (1 if (ctx.tie_breaks and not newf) else 0),
    }
    # runs against a scratch copy (VERIF_REPO set: mutant self-tests) must not overwrite the evidence
    evdir = VERIF / "evidence" if str(REPO) == "/repo" else BUILD / "evidence-scratch"
    evdir.mkdir(parents=True, exist_ok=True)
    (evdir / f"{pid}.json").write_text(json.dumps(ev, indent=1, default=repr))
    for l in lines:
        print(l)
    print(f"[{pid}] tier={ctx.tier} seed={ctx.seed} theorems={n_thm} discharged={discharged} "
          f"corr={ctx.corr_cases} disagreements={len(ctx.disagreements)} search={ctx.search_cases} "
          f"failures={len(ctx.failures)} new={len(newf)} tie_breaks={len(ctx.tie_breaks)} wall={ev['wall_s']}s")
    for t in ctx.tie_breaks[:5]:
        print(f"  tie-break[{t['what']}]: {t['detail'][:600]}")
    return rc


COMMON_TRUSTED = [
    "Coq 8.16.1 kernel (incl. vm_compute VM); no native_compute",
    "statements in coq/Props/*.v and the specs they mention",
    "gen/*.py translators + Python ast (regenerated tables)",
    "extraction (ExtrOcamlBasic: bool, option, list, prod, unit, sumbool -> OCaml natives; N/positive/nat kept as extracted inductives), ocamlfind ocamlopt, ocaml/io.ml and per-property driver: correspondence only, no theorem depends on them",
    "correspondence harness (lib/, props/), CPython 3.12 in /venv",
]
