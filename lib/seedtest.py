#!/venv/bin/python
"""Run the registered quick checks against the seeded changes kept under /verif/seeded/<id>/.
For each: scratch worktree of /repo HEAD outside /repo and /verif, apply patch.diff, run
`VERIF_REPO=<worktree> ./check <property>`, expect exit 1 + VIOLATION, remove the worktree.
Usage: lib/seedtest.py [id ...] [--tier quick|thorough]"""
import json, os, subprocess, sys, tempfile, time
from pathlib import Path

VERIF = Path(__file__).resolve().parent.parent
args = [a for a in sys.argv[1:] if not a.startswith("--")]
tier = "thorough" if "--tier=thorough" in sys.argv or "thorough" in sys.argv[1:] and "--tier" in sys.argv else "quick"
ids = args if args and args != ["thorough"] else sorted(p.name for p in (VERIF / "seeded").iterdir() if (p / "patch.diff").exists())
ids = [i for i in ids if i != "thorough"]
results = []
for sid in ids:
    d = VERIF / "seeded" / sid
    meta = json.loads((d / "meta.json").read_text())
    props = meta.get("checks") or [meta["property"]]
    wt = tempfile.mkdtemp(prefix="mystverif-seed-")
    os.rmdir(wt)
    try:
        subprocess.run(["git", "-C", "/repo", "worktree", "add", "-q", "--detach", wt, "HEAD"], check=True)
        ap = subprocess.run(["git", "-C", wt, "apply", str(d / "patch.diff")], capture_output=True, text=True)
        if ap.returncode != 0:
            results.append({"id": sid, "status": "patch-does-not-apply", "detail": ap.stderr[-300:]})
            print(f"{sid}: PATCH DOES NOT APPLY {ap.stderr[-200:]}")
            continue
        caught = []
        for pid in props:
            t0 = time.time()
            env = dict(os.environ, VERIF_REPO=wt)
            env.pop("VERIF_REEXEC", None)
            p = subprocess.run([str(VERIF / "check"), pid, "--tier", tier], env=env, cwd=VERIF, capture_output=True, text=True)
            vio = [l for l in p.stdout.splitlines() if l.startswith("VIOLATION")]
            caught.append({"check": pid, "exit": p.returncode, "violation": vio[:1], "wall_s": round(time.time() - t0, 1),
                           "summary": [l for l in p.stdout.splitlines() if l.startswith("[")][-1:]})
        ok = any(c["exit"] == 1 and c["violation"] for c in caught)
        results.append({"id": sid, "status": "caught" if ok else "MISSED", "runs": caught})
        print(f"{sid}: {'caught' if ok else 'MISSED'} " + "; ".join(f"{c['check']} exit={c['exit']} {' '.join(c['violation'])}" for c in caught))
    finally:
        subprocess.run(["git", "-C", "/repo", "worktree", "remove", "--force", wt], capture_output=True)
out = VERIF / "seeded" / "RESULTS.json"
prev = json.loads(out.read_text()) if out.exists() else {}
for r in results:
    prev[r["id"]] = r
out.write_text(json.dumps(prev, indent=1))
sys.exit(0 if all(r["status"] == "caught" for r in results) else 1)
