"""Helpers that drive the real implementation (imported from VERIF_REPO, default /repo)."""
from __future__ import annotations

import io
import os
import re
import shutil
import sys
import tempfile
from contextlib import contextmanager


def publish(text, settings=None, transforms=True, source_path=None, writer=None):
    """Parse with the docutils front end. Returns (doctree, warning_stream_text).
    Raises whatever the implementation raises."""
    from docutils.core import publish_doctree, publish_string
    from myst_parser.parsers.docutils_ import Parser

    ws = io.StringIO()
    so = {"warning_stream": ws, "report_level": 1, "halt_level": 5, "output_encoding": "unicode"}
    if settings:
        so.update(settings)
    if writer:
        out = publish_string(text, source_path=source_path, parser=Parser(), settings_overrides=so, writer_name=writer)
        return out, ws.getvalue()
    doc = publish_doctree(text, source_path=source_path, parser=Parser(), settings_overrides=so)
    return doc, ws.getvalue()


def parse_only(text, settings=None, source_path="<string>"):
    """Parse without running transforms (the doctree directly after Parser.parse)."""
    from docutils.frontend import get_default_settings
    from docutils.utils import new_document
    from myst_parser.parsers.docutils_ import Parser

    ws = io.StringIO()
    parser = Parser()
    st = get_default_settings(Parser)
    st.warning_stream = ws
    st.report_level = 1
    st.halt_level = 5
    for k, v in (settings or {}).items():
        setattr(st, k, v)
    doc = new_document(source_path, st)
    parser.parse(text, doc)
    return doc, ws.getvalue()


WARN_RE = re.compile(r"^(?P<src>.*?):(?P<line>\d+)?:? ?\((?P<level>[A-Z]+)/(?P<n>\d)\) (?P<msg>.*?)(?: \[(?P<tag>[a-z_.]+)\])?$")


def parse_warnings(text):
    """docutils warning stream -> list of dicts (src, line, level, msg, tag)."""
    out = []
    for ln in text.splitlines():
        m = WARN_RE.match(ln)
        if m:
            d = m.groupdict()
            d["line"] = int(d["line"]) if d["line"] else None
            out.append(d)
    return out


@contextmanager
def scratch_dir(prefix="mystverif-"):
    d = tempfile.mkdtemp(prefix=prefix)
    try:
        yield d
    finally:
        shutil.rmtree(d, ignore_errors=True)


class SphinxProject:
    """In-process Sphinx builds of a generated project in a scratch directory."""

    def __init__(self, files: dict, conf: str = "", builder="html"):
        self.files = files
        self.conf = conf
        self.builder = builder

    def build(self, parallel=0, keep=False):
        from docutils.utils import column_width  # noqa: F401  (import check)
        from sphinx.application import Sphinx
        from sphinx.util.docutils import docutils_namespace, patch_docutils

        d = tempfile.mkdtemp(prefix="mystverif-sphinx-")
        try:
            src = os.path.join(d, "src")
            os.makedirs(src)
            for name, content in self.files.items():
                p = os.path.join(src, name)
                os.makedirs(os.path.dirname(p), exist_ok=True)
                mode = "wb" if isinstance(content, bytes) else "w"
                with open(p, mode) as f:
                    f.write(content)
            with open(os.path.join(src, "conf.py"), "w") as f:
                f.write("extensions = ['myst_parser']\nexclude_patterns=['_build']\n" + self.conf)
            status, warning = io.StringIO(), io.StringIO()
            with docutils_namespace(), patch_docutils():
                app = Sphinx(src, src, os.path.join(d, "out"), os.path.join(d, "doctrees"), self.builder,
                             status=status, warning=warning, freshenv=True, parallel=parallel)
                app.build()
                result = {"warnings": warning.getvalue().replace(src + os.sep, "").replace(src, ""),
                          "status": status.getvalue(), "app": app, "src": src, "out": os.path.join(d, "out")}
                yield_res = self._collect(app, result)
            return yield_res
        finally:
            if not keep:
                shutil.rmtree(d, ignore_errors=True)

    def _collect(self, app, result):
        docs = {}
        for docname in sorted(app.env.found_docs):
            try:
                docs[docname] = app.env.get_and_resolve_doctree(docname, app.builder)
            except Exception as e:  # pragma: no cover
                docs[docname] = e
        result["doctrees"] = docs
        outs = {}
        for root, _, fs in os.walk(result["out"]):
            for f in fs:
                if f.endswith(".html"):
                    p = os.path.join(root, f)
                    outs[os.path.relpath(p, result["out"])] = open(p, encoding="utf8", errors="replace").read()
        result["html"] = outs
        return result
