#!/venv/bin/python
"""Confirm a seeded change produced by an independent sub-agent and keep it under /verif/seeded/.
Usage: lib/seedkeep.py Cxx   (reads /tmp/seed-out/Cxx/{mutantN.diff,demoN.py,metaN.json})"""
import json, os, shutil, subprocess, sys, tempfile
from pathlib import Path
VERIF = Path(__file__).resolve().parent.parent
pid = sys.argv[1]
gen = sys.argv[2] if len(sys.argv) > 2 else "gen1"      # gen2: ids Cxx-3/4 ; gen3: Cxx-5/6 ; gen4: Cxx-7/8 ; gen5: Cxx-7 for the properties gen4 skipped
src = Path({"gen1": "/tmp/seed-out", "gen2": "/tmp/seed-out2", "gen3": "/tmp/seed-out3", "gen4": "/tmp/seed-out4", "gen5": "/tmp/seed-out5"}[gen]) / pid
OFF = {"gen1": 0, "gen2": 2, "gen3": 4, "gen4": 6, "gen5": 6}[gen]
for n in (1, 2, 3):
    diff, demo, meta = src / f"mutant{n}.diff", src / f"demo{n}.py", src / f"meta{n}.json"
    if not diff.exists():
        continue
    wt = tempfile.mkdtemp(prefix="mystverif-keep-"); os.rmdir(wt)
    ran = []
    try:
        subprocess.run(["git", "-C", "/repo", "worktree", "add", "-q", "--detach", wt, "HEAD"], check=True)
        env = dict(os.environ, PYTHONPATH=wt, PYTHONHASHSEED="0")
        r0 = subprocess.run(["/venv/bin/python", str(demo)], env=env, capture_output=True, text=True, cwd="/")
        ran.append({"cmd": f"PYTHONPATH=<worktree of /repo HEAD> /venv/bin/python demo.py (unchanged)", "exit": r0.returncode})
        ap = subprocess.run(["git", "-C", wt, "apply", str(diff)], capture_output=True, text=True)
        ran.append({"cmd": "git apply patch.diff", "exit": ap.returncode, "err": ap.stderr[-200:]})
        r1 = subprocess.run(["/venv/bin/python", str(demo)], env=env, capture_output=True, text=True, cwd="/")
        ran.append({"cmd": "PYTHONPATH=<worktree+patch> /venv/bin/python demo.py", "exit": r1.returncode, "tail": (r1.stdout + r1.stderr)[-400:]})
        bl = subprocess.run(["/venv/bin/python", str(VERIF / "lib" / "baseline.py")], env=dict(os.environ, VERIF_REPO=wt), capture_output=True, text=True)
        ran.append({"cmd": "VERIF_REPO=<worktree+patch> lib/baseline.py", "exit": bl.returncode, "tail": bl.stdout.strip().splitlines()[-1:]})
        ok = r0.returncode == 0 and ap.returncode == 0 and r1.returncode != 0 and bl.returncode == 0
        print(f"{pid}-{n + OFF}: demo_unchanged={r0.returncode} apply={ap.returncode} demo_mutant={r1.returncode} baseline={bl.returncode} -> {'KEEP' if ok else 'REJECT'}")
        if ok:
            d = VERIF / "seeded" / f"{pid}-{n + OFF}"
            d.mkdir(parents=True, exist_ok=True)
            shutil.copy(diff, d / "patch.diff"); shutil.copy(demo, d / "demo.py")
            m = json.loads(meta.read_text()) if meta.exists() else {"property": pid}
            m["property"] = pid
            m["confirmed_by_lead"] = ran
            m["repo_head_when_confirmed"] = subprocess.run(["git", "-C", "/repo", "rev-parse", "--short", "HEAD"], capture_output=True, text=True).stdout.strip()
            (d / "meta.json").write_text(json.dumps(m, indent=1))
    finally:
        subprocess.run(["git", "-C", "/repo", "worktree", "remove", "--force", wt], capture_output=True)
