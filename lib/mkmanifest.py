#!/venv/bin/python
"""Regenerate MANIFEST.json from the props/*.py modules (MANIFEST_* attributes)."""
import importlib, json, sys
from pathlib import Path
HERE = Path(__file__).resolve().parent.parent
sys.path.insert(0, str(HERE))
props = json.loads("[" + ",".join(l for l in (HERE / "properties.jsonl").read_text().splitlines() if l.strip()) + "]")
checks, na = [], []
for p in props:
    pid = p["id"]
    f = HERE / "props" / f"{pid}.py"
    if not f.exists():
        na.append({"property_id": pid, "reason": "not yet claimed: the Coq model and check for this property are not built yet (work in progress, see DESIGN.md section 9)"})
        continue
    try:
        mod = importlib.import_module(f"props.{pid}")
        mod.LEVEL_TEXT, mod.LEVEL_NOTE
    except Exception as e:
        na.append({"property_id": pid, "reason": f"not yet claimed: check under construction ({type(e).__name__})"})
        continue
    if getattr(mod, "NOT_APPLICABLE", None):
        na.append({"property_id": pid, "reason": mod.NOT_APPLICABLE})
        continue
    checks.append({
        "property_id": pid,
        "quick_cmd": f"./check {pid} --tier quick",
        "thorough_cmd": f"./check {pid} --tier thorough",
        "evidence_file": f"/verif/evidence/{pid}.json",
        "replay_cmd_template": f"./check {pid} --replay {{path}}",
        "engine": "coq-proof+correspondence",
        "level_claimed": {"category": "proof", "text": mod.LEVEL_TEXT, "design_ref": f"DESIGN.md section 7 {pid}"},
        "level_note": mod.LEVEL_NOTE,
        "technique": getattr(mod, "TECHNIQUE", "machine-checked proof in Coq 8.16 about a Gallina model + differential correspondence of the extracted model against the implementation"),
    })
man = {
    "version": 1,
    "setup_cmd": "./check --setup",
    "hooks": {"guard": "MYST_PARSER_VERIF", "enable": "no source hooks are needed; checks import /repo's working tree with PYTHONPATH=/repo (env MYST_PARSER_VERIF=1 is set but nothing in /repo reads it)",
              "baseline_off_cmd": "/verif/lib/baseline.py", "source_commits": [], "add_only": True},
    "engines": [{"name": "coq-proof+correspondence", "path": "/verif/check",
                 "serves_properties": [c["property_id"] for c in checks],
                 "kind_free_text": "Coq 8.16 theorems over hand-written Gallina models (coq/), regenerated tables (gen/ -> coq/Gen), OCaml-extracted model runner for differential correspondence with the implementation, direct property oracles for replays"}],
    "checks": checks,
    "not_applicable": na,
    "notes": "See DESIGN.md. known_findings.json lists genuine defects recorded rather than repaired, and the fix: commits made in /repo.",
}
(HERE / "MANIFEST.json").write_text(json.dumps(man, indent=1) + "\n")
print(f"MANIFEST: {len(checks)} checks, {len(na)} not claimed")
