#!/venv/bin/python
"""Print a markdown table of the seeded changes and which check caught them (from seeded/RESULTS.json)."""
import json
from pathlib import Path
V = Path(__file__).resolve().parent.parent
res = json.loads((V / "seeded" / "RESULTS.json").read_text())
print("| id | property | change (as described by its author) | needs to manifest | outcome of the registered quick check(s) |")
print("|---|---|---|---|---|")
for d in sorted((V / "seeded").iterdir()):
    if not (d / "meta.json").exists():
        continue
    m = json.loads((d / "meta.json").read_text())
    r = res.get(d.name, {})
    runs = "; ".join(
        f"{x['check']}: " + ("VIOLATION with failing input" if x["exit"] == 1 and x["violation"] and "no-failing-input-found" not in x["violation"][0]
                             else "VIOLATION no-failing-input-found" if x["exit"] == 1 else "exit 0 (not caught by this check)")
        for x in r.get("runs", [])) or r.get("status", "not run yet")
    def cl(s): return " ".join(str(s).split()).replace("|", "\\|")[:260]
    print(f"| {d.name} | {m['property']} | {cl(m.get('summary',''))} | {cl(m.get('needs_to_manifest',''))} | {runs} |")
