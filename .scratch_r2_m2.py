import sys, json, random, importlib
sys.path[:0]=['/verif','/repo']
from gen import c02_model as M
from collections import Counter
P=importlib.import_module("props.C02")
class Ctx:
    tier="quick"; deep=False
    def __init__(s): s.rng=random.Random(0)
    def budget(s,a,b,c): return a//3
cases=[c for l,c in P.corr_cases(Ctx()) if not l.startswith("dyn")]
res=M.model_measure("C02","agree",cases)
cnt=Counter()
for c,r in zip(cases,res):
    if r is None: continue
    rep=r["reply"]
    key = ("not-rendered" if not rep.startswith("A ") else "agree" if rep[2]=="1" else "nonstatic" if rep[3]!="1" else "lexer" if not r["lexer_ok"] else "files" if not r["no_files"] else "DIFFER")
    cnt[key]+=1
    if key=="DIFFER": print(json.dumps(c)[:300])
print(cnt)
