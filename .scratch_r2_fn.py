import sys
sys.path[:0]=['/verif']
from gen import c02_lib as L
d=L.SphinxDriver.get()
for t,e in [("[t](#l){#k} [u](#k)\n\n$$a$$ (l)\n",["dollarmath","attrs_inline"]),("[t](#l){#k} [^k]\n\n$$a$$ (l)\n\n[^k]: x\n",["dollarmath","attrs_inline"]),("[](#nope){#k} [u](#k)\n",["attrs_inline"]),("# T\n\n[t](#t){#k} [u](#k)\n",["attrs_inline"])]:
    doc,w=d.publish(t,L.make_config("myst",e))
    print(repr(t)); print(doc.pformat()); print(w)
