open Model
open Io

(* token tree syntax (space separated):  H<tag>  P  C( ... )  D0( ... )  D1( ... )  I<off>( ... ) *)
let parse_tree (ws : string list) : tok list =
  let rec items ws acc =
    match ws with
    | [] -> (List.rev acc, [])
    | ")" :: rest -> (List.rev acc, rest)
    | w :: rest ->
        let n = String.length w in
        if w = "P" then items rest (TPara :: acc)
        else if w.[0] = 'H' then items rest (THeading (nat_of_int (int_of_string (String.sub w 1 (n - 1)))) :: acc)
        else if w = "C(" then let (ch, rest') = items rest [] in items rest' (TContainer ch :: acc)
        else if w = "D0(" then let (ch, rest') = items rest [] in items rest' (TDirective (false, ch) :: acc)
        else if w = "D1(" then let (ch, rest') = items rest [] in items rest' (TDirective (true, ch) :: acc)
        else if w.[0] = 'I' && w.[n - 1] = '(' then
          let off = nat_of_int (int_of_string (String.sub w 1 (n - 2))) in
          let (ch, rest') = items rest [] in items rest' (TInclude (off, ch) :: acc)
        else failwith ("bad token " ^ w) in
  fst (items ws [])

let show_ref = function
  | Doc -> "D"
  | Sec i -> "S" ^ string_of_int (int_of_nat i)
  | Cont c -> "C" ^ string_of_int (int_of_nat c)

let show_item = function
  | ISec i -> "S" ^ string_of_int (int_of_nat i)
  | IRub (i, l) -> "R" ^ string_of_int (int_of_nat i) ^ ":" ^ string_of_int (int_of_nat l)
  | IPara -> "P"
  | ICont c -> "C" ^ string_of_int (int_of_nat c)
  | IWarn (i, pl, l) -> "W" ^ string_of_int (int_of_nat i) ^ ":" ^ string_of_int (int_of_nat pl) ^ ":" ^ string_of_int (int_of_nat l)

let show_exn = function
  | ValueError -> "!ValueError" | KeyError -> "!KeyError" | OutOfFuel -> "!OutOfFuel"
  | IndexError -> "!IndexError" | _ -> "!Exception"

let show_res = function
  | Raise e -> show_exn e
  | Ok s ->
      let l = List.map (fun (p, x) -> show_ref p ^ ">" ^ show_item x) s.log in
      let keys = String.concat "," (List.map (fun (k, v) -> string_of_int (int_of_nat k) ^ "=" ^ show_ref v) s.lvl) in
      (match l with [] -> "." | _ -> String.concat " " l) ^ "\t" ^ keys ^ "\t" ^ show_ref s.cur

let handle (fs : string list) : string =
  match fs with
  | ["render"; tree] ->
      let ws = List.filter (fun w -> w <> "") (String.split_on_char ' ' tree) in
      show_res (render_document (parse_tree ws))
  | ["levels"; ls] ->
      let l = if ls = "" || ls = "-" then [] else List.map (fun t -> nat_of_int (int_of_string t)) (String.split_on_char ',' ls) in
      show_res (run_levels l)
  | _ -> "!badcmd"

let () = main handle
