open Model
open Io

(* line protocol of the C12 model runner, see props/C12.py *)

let b2s b = if b then "1" else "0"
let s2b s = (s = "1")

let show_loc (l : fsloc) : string =
  match l with
  | Inside rel -> "I:" ^ field_of_strs rel
  | Outside abs -> "O:" ^ field_of_strs abs

let show_tgt (t : tgt) : string =
  match t with
  | T_uri u -> "U:" ^ field_of_str u
  | T_refid i -> "R:" ^ field_of_str i
  | T_fallback i -> "F:" ^ field_of_str i
  | T_dl loc -> "DL:" ^ show_loc loc
  | T_dl_missing -> "DM"
  | T_ext u -> "E:" ^ field_of_str u
  | T_bare -> "B"
  | T_other -> "X"

let show_txt (x : txt) : string =
  match x with
  | X_children -> "C"
  | X_str s -> "S:" ^ field_of_str s
  | X_lit s -> "L:" ^ field_of_str s
  | X_none -> "N"

let show_warn (w : warn) : string =
  match w with
  | W_missing s -> "M:" ^ field_of_str s
  | W_ambiguous s -> "A:" ^ field_of_str s
  | W_unreadable -> "UR"

let show_outcome (o : outcome) : string =
  show_tgt o.o_tgt ^ "|" ^ show_txt o.o_txt ^ "|" ^
  (match o.o_warns with [] -> "." | ws -> String.concat "/" (List.map show_warn ws))

let show_cls (c : cls) : string =
  match c with
  | C_url u -> "url:" ^ field_of_str u
  | C_anchor h -> "anchor:" ^ field_of_str h
  | C_inv -> "inv"
  | C_doc (d, t) -> "doc:" ^ field_of_str d ^ ":" ^ field_of_ostr t
  | C_any t -> "any:" ^ field_of_str t
  | C_download (r, s) -> "download:" ^ field_of_str r ^ ":" ^ field_of_str s
  | C_nofile (a, u) -> "nofile:" ^ field_of_str a ^ ":" ^ field_of_str u

(* project description as a flat token list *)
let run_project (toks : string list) : string =
  let srcdir = ref [] and sufs = ref [] and nit = ref [] and schemes = ref [] and dirhtml = ref false and allext = ref false and cmonly = ref false in
  let files = ref [] and labels = ref [] in
  let docs = ref [] in           (* finished docs, reversed *)
  let cur = ref None in          (* (name, dir, title, slugs rev, locals rev) *)
  let close_doc () =
    (match !cur with
     | Some (n, d, t, sl, lo) ->
         docs := { d_name = n; d_dir = d; d_title = t; d_slugs = List.rev sl; d_local = List.rev lo } :: !docs
     | None -> ());
    cur := None in
  let out = ref [] in
  let sel = ref None in
  let project () =
    { p_srcdir = !srcdir; p_suffixes = !sufs; p_docs = List.rev !docs; p_labels = List.rev !labels;
      p_files = List.rev !files; p_nitpick = !nit; p_url_schemes = !schemes; p_dirhtml = !dirhtml; p_all_external = !allext; p_commonmark_only = !cmonly; p_gfm_only = false } in
  let rec go = function
    | "S" :: a :: b :: c :: d :: e :: f :: g :: r ->
        srcdir := strs_of_field a; sufs := strs_of_field b; nit := strs_of_field c;
        schemes := strs_of_field d; dirhtml := s2b e; allext := s2b f; cmonly := s2b g; go r
    | "F" :: p :: r -> files := strs_of_field p :: !files; go r
    | "D" :: n :: d :: t :: r ->
        close_doc (); cur := Some (str_of_field n, strs_of_field d, str_of_field t, [], []); go r
    | "G" :: s :: i :: t :: r ->
        (match !cur with
         | Some (n, d, tt, sl, lo) ->
             cur := Some (n, d, tt, { sl_slug = str_of_field s; sl_id = str_of_field i; sl_title = str_of_field t } :: sl, lo)
         | None -> failwith "G outside doc"); go r
    | "O" :: n :: i :: t :: r ->
        (match !cur with
         | Some (nn, d, tt, sl, lo) ->
             cur := Some (nn, d, tt, sl, { lo_name = str_of_field n; lo_id = str_of_field i; lo_title = ostr_of_field t } :: lo)
         | None -> failwith "O outside doc"); go r
    | "B" :: n :: d :: i :: s :: r ->
        labels := { lb_name = str_of_field n; lb_doc = str_of_field d; lb_id = str_of_field i; lb_sect = ostr_of_field s } :: !labels; go r
    | "C" :: n :: r ->
        close_doc ();
        let name = str_of_field n in
        sel := (try Some (List.find (fun d -> d.d_name = name) !docs) with Not_found -> None);
        go r
    | "L" :: dest :: auto :: ch :: ipre :: idir :: r ->
        (match !sel with
         | Some d ->
             let inc = (match ostr_of_field ipre with None -> None | Some pre -> Some (pre, strs_of_field idir)) in
             let l = { l_dest = str_of_field dest; l_auto = s2b auto; l_children = s2b ch; l_include = inc } in
             let p = project () in
             out := (show_cls (render_link p d l) ^ "|" ^ show_outcome (run_link_plain p d l)) :: !out
         | None -> failwith "no current doc"); go r
    | [] -> ()
    | x :: _ -> failwith ("bad token " ^ x) in
  go toks;
  match !out with [] -> "." | l -> String.concat " " (List.rev l)

let show_root = function NoRoot -> "0" | Root1 -> "1" | Root2 -> "2"

let handle (fs : string list) : string =
  match fs with
  | ["normpath"; p] -> field_of_str (normpath (str_of_field p))
  | "pjoin" :: a :: ps -> field_of_str (pjoin (str_of_field a) (List.map str_of_field ps))
  | ["docname_join"; b; d] -> field_of_str (docname_join (str_of_field b) (str_of_field d))
  | ["relative_uri"; b; t] -> field_of_str (relative_uri (str_of_field b) (str_of_field t))
  | ["resolve_ref"; b; r] -> field_of_str (resolve_ref (str_of_field b) (str_of_field r))
  | ["relfn2path"; s; d; f] ->
      show_loc (relfn2path (strs_of_field s) (strs_of_field d) (str_of_field f))
  | ["path2doc"; sufs; s; d; f] ->
      field_of_ostr (path2doc (strs_of_field sufs) (relfn2path (strs_of_field s) (strs_of_field d) (str_of_field f)))
  | ["parts"; p] -> show_root (path_root (str_of_field p)) ^ ":" ^ field_of_strs (path_parts (str_of_field p))
  | ["relpath"; p; st] -> field_of_str (relpath (str_of_field p) (str_of_field st))
  | ["lower"; s] -> field_of_str (lower (str_of_field s))
  | ["target_uri"; b; d] -> field_of_str (target_uri (s2b b) (str_of_field d))
  | ["scheme"; s] -> field_of_ostr (scheme_of (str_of_field s))
  | ["split"; c; s] -> field_of_strs (split_on (n_of_int (int_of_string c)) (str_of_field s))
  | "run" :: toks -> run_project toks
  | _ -> "!badcmd"

let () = main handle
