open Model
open Io

(* ---- decoding of requests (see props/C16.py) ---- *)

let parse_attrs (toks : string list) : (n list * n list option) list * string list =
  match toks with
  | [] -> failwith "attrs"
  | cnt :: r ->
      let k = int_of_string cnt in
      let rec go k r acc =
        if k = 0 then (List.rev acc, r)
        else match r with
          | a :: b :: r' -> go (k - 1) r' ((str_of_field a, ostr_of_field b) :: acc)
          | _ -> failwith "attrs" in
      go k r []

let rec parse_events (toks : string list) : event list =
  match toks with
  | [] -> []
  | "S" :: nm :: r -> let (a, r') = parse_attrs r in EStart (str_of_field nm, a) :: parse_events r'
  | "X" :: nm :: r -> let (a, r') = parse_attrs r in EStartEnd (str_of_field nm, a) :: parse_events r'
  | "E" :: nm :: r -> EEnd (str_of_field nm) :: parse_events r
  | "D" :: s :: r -> EData (str_of_field s) :: parse_events r
  | "L" :: s :: r -> EDecl (str_of_field s) :: parse_events r
  | "U" :: s :: r -> EUnknownDecl (str_of_field s) :: parse_events r
  | "C" :: s :: r -> EComment (str_of_field s) :: parse_events r
  | "P" :: s :: r -> EPi (str_of_field s) :: parse_events r
  | "R" :: s :: r -> ECharRef (str_of_field s) :: parse_events r
  | "N" :: s :: r -> EEntityRef (str_of_field s) :: parse_events r
  | x :: _ -> failwith ("bad event " ^ x)

let rec parse_html (toks : string list) : html * string list =
  match toks with
  | "e" :: nm :: r ->
      let (a, r1) = parse_attrs r in
      (match r1 with
       | cnt :: r2 -> let (ch, r3) = parse_htmls (int_of_string cnt) r2 in (HElem (str_of_field nm, a, ch), r3)
       | [] -> failwith "html")
  | "v" :: nm :: r -> let (a, r1) = parse_attrs r in (HVoid (str_of_field nm, a), r1)
  | "s" :: nm :: r -> let (a, r1) = parse_attrs r in (HSelf (str_of_field nm, a), r1)
  | "d" :: s :: r -> (HData (str_of_field s), r)
  | "l" :: s :: r -> (HDecl (str_of_field s), r)
  | "c" :: s :: r -> (HComment (str_of_field s), r)
  | "p" :: s :: r -> (HPi (str_of_field s), r)
  | "r" :: s :: r -> (HChar (str_of_field s), r)
  | "n" :: s :: r -> (HEntity (str_of_field s), r)
  | _ -> failwith "html"
and parse_htmls (k : int) (toks : string list) : html list * string list =
  if k = 0 then ([], toks)
  else let (h, r) = parse_html toks in let (hs, r') = parse_htmls (k - 1) r in (h :: hs, r')

let parse_doc (toks : string list) : html list =
  match toks with
  | cnt :: r -> fst (parse_htmls (int_of_string cnt) r)
  | [] -> failwith "doc"

(* ---- printing ---- *)

let exn_name (e : exn) : string =
  match e with
  | TokenizeError _ -> "!TokenizeError" | MarkupError -> "!MarkupError" | IndexError -> "!IndexError"
  | ValueError -> "!ValueError" | OverflowError -> "!OverflowError" | KeyError -> "!KeyError"
  | AssertionError -> "!AssertionError" | TypeError -> "!TypeError" | AttributeError -> "!AttributeError"
  | OutOfFuel -> "!OutOfFuel"

exception Model_raise of string
let ok (r : 'a res) : 'a = match r with Ok a -> a | Raise e -> raise (Model_raise (exn_name e))

let kind_code (k : kind) : int =
  match k with KRoot -> 0 | KTag -> 1 | KXTag -> 2 | KVoid -> 3 | KData -> 4 | KDecl -> 5
             | KComment -> 6 | KPi -> 7 | KChar -> 8 | KEntity -> 9

let kind_of_name (s : string) : kind =
  match s with
  | "Root" -> KRoot | "Tag" -> KTag | "XTag" -> KXTag | "VoidTag" -> KVoid | "Data" -> KData
  | "Declaration" -> KDecl | "Comment" -> KComment | "Pi" -> KPi | "Char" -> KChar | "Entity" -> KEntity
  | _ -> failwith "kind"

let show_attrs (a : (n list * n list option) list) : string =
  match a with
  | [] -> "."
  | _ -> String.concat "/" (List.concat_map (fun (k, v) -> [field_of_str k; field_of_ostr v]) a)

let index_of (l : int list) (x : int) : int =
  let rec go i = function [] -> -2 | y :: r -> if y = x then i else go (i + 1) r in go 0 l

(* observation of the tree hanging from [root]: render | rows in walk(include_self) order *)
let obs (st : cell list) (root : nat) : string =
  let w = root :: ok (walk_top st root) in
  let wi = List.map int_of_nat w in
  let row (i : nat) =
    let c = ok (get st i) in
    let p = match c.c_parent with None -> -1 | Some q -> index_of wi (int_of_nat q) in
    let ch = match c.c_children with
      | [] -> "."
      | l -> String.concat "," (List.map (fun k -> string_of_int (index_of wi (int_of_nat k))) l) in
    String.concat ":" [string_of_int (kind_code c.c_kind); field_of_str c.c_name; show_attrs c.c_attrs;
                       field_of_str c.c_data; string_of_int p; ch] in
  field_of_str (ok (render_top st root)) ^ "|" ^ String.concat ";" (List.map row w)

let show_events (evs : event list) : string =
  let at a = string_of_int (List.length a) :: List.concat_map (fun (k, v) -> [field_of_str k; field_of_ostr v]) a in
  let one = function
    | EStart (n, a) -> "S" :: field_of_str n :: at a
    | EStartEnd (n, a) -> "X" :: field_of_str n :: at a
    | EEnd n -> ["E"; field_of_str n]
    | EData s -> ["D"; field_of_str s] | EDecl s -> ["L"; field_of_str s] | EUnknownDecl s -> ["U"; field_of_str s]
    | EComment s -> ["C"; field_of_str s] | EPi s -> ["P"; field_of_str s]
    | ECharRef s -> ["R"; field_of_str s] | EEntityRef s -> ["N"; field_of_str s] in
  String.concat " " (List.concat_map one evs)

let build_from (name : string) (evtoks : string list) : tree =
  ok (build (init_tree (str_of_field name)) (parse_events evtoks))

let bool_of s = s = "1"

let dec_str_plain (f : string) : string =
  String.concat "" (List.map (fun c -> String.make 1 (Char.chr (int_of_n c))) (str_of_field f))

let dec_cls (s : string) : pycls =
  match dec_str_plain s with
  | "Element" -> PElement
  | "TerminalElement" -> PTerminalElement
  | k -> PKind (kind_of_name k)

let handle (fs : string list) : string =
  try
    match fs with
    | "build" :: name :: evs ->
        let t = build_from name evs in obs t.t_cells t.t_outmost
    | "find" :: name :: ik :: iv :: cls :: r ->
        let (qa, r1) = (match r with
          | "~" :: r' -> (None, r')
          | _ -> let (a, r') = parse_attrs r in (Some a, r')) in
        (match r1 with
         | incl :: recu :: start :: evs ->
             let t = build_from name evs in
             let ident = if ik = "n" then IName (str_of_field iv) else
                 (match dec_cls iv with c -> IClass c) in
             let q = { q_ident = ident; q_attrs = qa;
                       q_classes = (if cls = "~" then None else Some (strs_of_field cls));
                       q_include_self = bool_of incl; q_recurse = bool_of recu } in
             let w = t.t_outmost :: ok (walk_top t.t_cells t.t_outmost) in
             let wi = List.map int_of_nat w in
             let s = List.nth w (int_of_string start) in
             let res = ok (find_top t.t_cells s q) in
             (match res with [] -> "." | _ ->
                String.concat "," (List.map (fun i -> string_of_int (index_of wi (int_of_nat i))) res))
         | _ -> "!badcmd")
    | "op" :: name :: mode :: target :: evs ->
        let t = build_from name evs in
        let w = t.t_outmost :: ok (walk_top t.t_cells t.t_outmost) in
        let el = List.nth w (int_of_string target) in
        let (st', r) =
          if mode = "copy" then ok (deepcopy_top t.t_cells el)
          else ok (strip_top t.t_cells el (mode.[5] = '1') (mode.[6] = '1')) in
        obs st' r ^ "#" ^ obs st' t.t_outmost
    | "spec" :: doc ->
        let hs = parse_doc doc in
        (if wf_doc hs then "1" else "0") ^ "|" ^ field_of_str (print_doc hs) ^ "|" ^ show_events (events_doc hs)
    | "round" :: doc ->
        let hs = parse_doc doc in
        let t = ok (build (init_tree []) (events_doc hs)) in
        field_of_str (ok (render_top t.t_cells t.t_outmost))
    | _ -> "!badcmd"
  with Model_raise s -> s

let () = main handle
