open Model
open Io

(* requests:
     trace <cell names, ';'-joined code points> <history: input numbers ','-joined or '-'>
       -> one field per state (before the first parse, after each parse), fields separated by ' ';
          a state = cell views joined by '/': P<n> (plain content) or C<k1.k2...> (sorted distinct cache keys)
     classes <cell names> -> class name of each cell, ';'-joined *)

let string_of_chars (l : char list) : string = String.concat "" (List.map (String.make 1) l)
let chars_of_string (s : string) : char list = List.init (String.length s) (String.get s)

let py_string_of_field f = (* field = code points of a Python str *)
  let s = str_of_field f in
  String.concat "" (List.map (fun n -> String.make 1 (Char.chr (int_of_n n))) s)

let cell_of_field f = chars_of_string (py_string_of_field f)

let show_view (c : (nat, nat) cstate) : string =
  match c with
  | Plain v -> "P" ^ string_of_int (int_of_nat v)
  | Cache es ->
      let ks = List.sort_uniq compare (List.map (fun (k, _) -> int_of_nat k) es) in
      "C" ^ String.concat "." (List.map string_of_int ks)

let handle (fs : string list) : string =
  match fs with
  | ["trace"; cells; hist] ->
      let cs = List.map cell_of_field (String.split_on_char ';' cells) in
      let h = if hist = "-" then [] else List.map (fun x -> nat_of_int (int_of_string x)) (String.split_on_char ',' hist) in
      let states = trace cs h in
      String.concat " " (List.map (fun st -> String.concat "/" (List.map show_view st)) states)
  | ["classes"; cells] ->
      let cs = List.map cell_of_field (String.split_on_char ';' cells) in
      String.concat ";" (List.map (fun c -> string_of_chars (klass_name (kl_table c))) cs)
  | _ -> "!bad-request"

let () = main handle
