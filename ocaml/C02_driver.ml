open Model
open Io

(* Request (one line, tab separated):
     render|xform  backend(D|S)  mode(C|G|M)  flags  url_schemes  highlight_language  auto_id_prefix  dup_refs
     then a prefix-coded stream:
       O <n> entries:  split <arg> <strs> | strip|norm|mkid|nlt|nl|gfm <arg> <res> | isdigit <arg> 0|1
                     | lex <lang> <text> (! | <k> (<classes strs> <value>)*k) | p2d <arg> (~ | F | D <docname>) | p2r <arg> (~ | D <docname>)
                     | dj <arg> (~ | D <docname>) | acc <arg> 0|1 | split1 <arg> <strs>
                     | dyn <key strs> (~ | N <n> nodes <warning strs>)
       T <n> tokens:   <ty> <tag> <na> (<k> <v>)* <content> <markup> <info> <nm> (<k> <v>)* <map ~|a,b> <nc> children
   flags = all_links_external highlight mathjax_block html_convert footnote_sort footnote_transition (0/1 each)
   Reply: tree " | " warnings, or !<error>. *)

let take_int = function
  | x :: r -> (int_of_string x, r)
  | [] -> failwith "eof-int"
let take = function
  | x :: r -> (x, r)
  | [] -> failwith "eof"

let rec times n f acc r =
  if n = 0 then (List.rev acc, r) else let (x, r') = f r in times (n - 1) f (x :: acc) r'

type tables = {
  mutable t_split : (n list * n list list) list;
  mutable t_strip : (n list * n list) list;
  mutable t_norm : (n list * n list) list;
  mutable t_mkid : (n list * n list) list;
  mutable t_nlt : (n list * n list) list;
  mutable t_nl : (n list * n list) list;
  mutable t_gfm : (n list * n list) list;
  mutable t_isdigit : (n list * bool) list;
  mutable t_lex : ((n list * n list) * (n list list * n list) list option) list;
  mutable t_p2d : (n list * n list option option) list;
  mutable t_p2r : (n list * n list option) list;
  mutable t_dj : (n list * n list option) list;
  mutable t_acc : (n list * bool) list;
  mutable t_split1 : (n list * n list list) list;
  mutable t_dyn : (n list list * (node list * n list list) option) list;
}

(* a node in the syntax of show_node: X oid text | E oid tag na (k nv v..).. nc children *)
let rec parse_node (r : string list) : node * string list =
  match r with
  | "X" :: o :: s :: r -> (Text (n_of_int (int_of_string o), str_of_field s), r)
  | "E" :: o :: tg :: r ->
      let (na, r) = take_int r in
      let (attrs, r) = times na (fun r -> match r with
          | k :: r -> let (nv, r) = take_int r in
              let (vs, r) = times nv (fun r -> match r with v :: r -> (str_of_field v, r) | [] -> failwith "eof-attr") [] r in
              ((str_of_field k, vs), r)
          | [] -> failwith "eof-attrs") [] r in
      let (nc, r) = take_int r in
      let (cs, r) = times nc parse_node [] r in
      (Elem (n_of_int (int_of_string o), str_of_field tg, attrs, cs), r)
  | x :: _ -> failwith ("bad-node " ^ x)
  | [] -> failwith "eof-node"

let show_key k = field_of_str k

let parse_oracles (r : string list) : tables * string list =
  let tb = { t_split = []; t_strip = []; t_norm = []; t_mkid = []; t_nlt = []; t_nl = []; t_gfm = []; t_isdigit = [];
             t_lex = []; t_p2d = []; t_p2r = []; t_dj = []; t_acc = []; t_split1 = []; t_dyn = [] } in
  match r with
  | "O" :: r ->
      let (n, r) = take_int r in
      let rec go n r =
        if n = 0 then r else
        match r with
        | "split" :: a :: v :: r -> tb.t_split <- (str_of_field a, strs_of_field v) :: tb.t_split; go (n-1) r
        | "strip" :: a :: v :: r -> tb.t_strip <- (str_of_field a, str_of_field v) :: tb.t_strip; go (n-1) r
        | "norm" :: a :: v :: r -> tb.t_norm <- (str_of_field a, str_of_field v) :: tb.t_norm; go (n-1) r
        | "mkid" :: a :: v :: r -> tb.t_mkid <- (str_of_field a, str_of_field v) :: tb.t_mkid; go (n-1) r
        | "nlt" :: a :: v :: r -> tb.t_nlt <- (str_of_field a, str_of_field v) :: tb.t_nlt; go (n-1) r
        | "nl" :: a :: v :: r -> tb.t_nl <- (str_of_field a, str_of_field v) :: tb.t_nl; go (n-1) r
        | "gfm" :: a :: v :: r -> tb.t_gfm <- (str_of_field a, str_of_field v) :: tb.t_gfm; go (n-1) r
        | "isdigit" :: a :: v :: r -> tb.t_isdigit <- (str_of_field a, v = "1") :: tb.t_isdigit; go (n-1) r
        | "lex" :: l :: t :: "!" :: r -> tb.t_lex <- ((str_of_field l, str_of_field t), None) :: tb.t_lex; go (n-1) r
        | "lex" :: l :: t :: r ->
            let (k, r) = take_int r in
            let (toks, r) = times k (fun r -> match r with
                | c :: v :: r -> ((strs_of_field c, str_of_field v), r)
                | _ -> failwith "eof-lex") [] r in
            tb.t_lex <- ((str_of_field l, str_of_field t), Some toks) :: tb.t_lex; go (n-1) r
        | "p2r" :: a :: "~" :: r -> tb.t_p2r <- (str_of_field a, None) :: tb.t_p2r; go (n-1) r
        | "p2r" :: a :: "D" :: d :: r -> tb.t_p2r <- (str_of_field a, Some (str_of_field d)) :: tb.t_p2r; go (n-1) r
        | "p2d" :: a :: "~" :: r -> tb.t_p2d <- (str_of_field a, None) :: tb.t_p2d; go (n-1) r
        | "p2d" :: a :: "F" :: r -> tb.t_p2d <- (str_of_field a, Some None) :: tb.t_p2d; go (n-1) r
        | "p2d" :: a :: "D" :: d :: r -> tb.t_p2d <- (str_of_field a, Some (Some (str_of_field d))) :: tb.t_p2d; go (n-1) r
        | "dj" :: a :: "~" :: r -> tb.t_dj <- (str_of_field a, None) :: tb.t_dj; go (n-1) r
        | "dj" :: a :: "D" :: d :: r -> tb.t_dj <- (str_of_field a, Some (str_of_field d)) :: tb.t_dj; go (n-1) r
        | "acc" :: a :: v :: r -> tb.t_acc <- (str_of_field a, v = "1") :: tb.t_acc; go (n-1) r
        | "split1" :: a :: v :: r -> tb.t_split1 <- (str_of_field a, strs_of_field v) :: tb.t_split1; go (n-1) r
        | "dyn" :: k :: "~" :: r -> tb.t_dyn <- (strs_of_field k, None) :: tb.t_dyn; go (n-1) r
        | "dyn" :: k :: "N" :: r ->
            let (nn, r) = take_int r in
            let (ns, r) = times nn parse_node [] r in
            let (ws, r) = take r in
            tb.t_dyn <- (strs_of_field k, Some (ns, strs_of_field ws)) :: tb.t_dyn; go (n-1) r
        | x :: _ -> failwith ("bad-oracle-entry " ^ x)
        | [] -> failwith "eof-oracle" in
      let r = go n r in
      (tb, r)
  | _ -> failwith "expected O"

(* an oracle value that was not supplied: record the query, answer with a dummy; the harness
   computes the recorded queries with the real library and re-sends the request *)
let misses : string list ref = ref []
let miss name key dummy =
  let m = name ^ ":" ^ key in
  if not (List.mem m !misses) then misses := m :: !misses;
  dummy

let lookup name tbl k dummy =
  match List.assoc_opt k tbl with
  | Some v -> v
  | None -> miss name (show_key k) dummy

let oracles_of (tb : tables) : oracles = {
  o_split = (fun a -> lookup "split" tb.t_split a []);
  o_strip = (fun a -> lookup "strip" tb.t_strip a []);
  o_norm_name = (fun a -> lookup "norm" tb.t_norm a []);
  o_make_id = (fun a -> lookup "mkid" tb.t_mkid a []);
  o_isdigit = (fun a -> lookup "isdigit" tb.t_isdigit a false);
  o_nlt = (fun a -> lookup "nlt" tb.t_nlt a []);
  o_nl = (fun a -> lookup "nl" tb.t_nl a []);
  o_lex = (fun l t -> match List.assoc_opt (l, t) tb.t_lex with
      | Some v -> v
      | None -> miss "lex" (show_key l ^ ":" ^ show_key t) None);
  o_gfm_filter = (fun a -> lookup "gfm" tb.t_gfm a []);
  o_p2d_raw = (fun a -> lookup "p2r" tb.t_p2r a None);
  o_path2doc = (fun a -> lookup "p2d" tb.t_p2d a None);
  o_docjoin = (fun a -> lookup "dj" tb.t_dj a None);
  o_access = (fun a -> lookup "acc" tb.t_acc a false);
  o_split1 = (fun a -> lookup "split1" tb.t_split1 a []);
  o_dyn = (fun k -> match List.assoc_opt k tb.t_dyn with
      | Some v -> v
      | None -> miss "dyn" (field_of_strs k) None);
}

let parse_pairs r =
  let (n, r) = take_int r in
  times n (fun r -> match r with
      | k :: v :: r -> ((str_of_field k, str_of_field v), r)
      | _ -> failwith "eof-pairs") [] r

let rec parse_tok (r : string list) : tok * string list =
  match r with
  | ty :: tag :: r ->
      let (attrs, r) = parse_pairs r in
      (match r with
       | content :: markup :: info :: r ->
           let (meta, r) = parse_pairs r in
           let (m, r) = take r in
           let map = if m = "~" then None else
               (match String.split_on_char ',' m with
                | [a; b] -> Some (n_of_int (int_of_string a), n_of_int (int_of_string b))
                | _ -> failwith "bad-map") in
           let (nc, r) = take_int r in
           let (cs, r) = times nc parse_tok [] r in
           (Tok (str_of_field ty, str_of_field tag, attrs, str_of_field content, str_of_field markup,
                 str_of_field info, meta, map, cs), r)
       | _ -> failwith "eof-tok")
  | _ -> failwith "eof-tok0"

let parse_toks (r : string list) : tok list * string list =
  match r with
  | "T" :: r -> let (n, r) = take_int r in times n parse_tok [] r
  | _ -> failwith "expected T"

let rec show_node (b : Buffer.t) (nd : node) : unit =
  match nd with
  | Text (o, s) ->
      Buffer.add_string b "X "; Buffer.add_string b (string_of_int (int_of_n o));
      Buffer.add_char b ' '; Buffer.add_string b (field_of_str s)
  | Elem (o, tg, a, cs) ->
      Buffer.add_string b "E "; Buffer.add_string b (string_of_int (int_of_n o));
      Buffer.add_char b ' '; Buffer.add_string b (field_of_str tg);
      Buffer.add_char b ' '; Buffer.add_string b (string_of_int (List.length a));
      List.iter (fun (k, vs) ->
          Buffer.add_char b ' '; Buffer.add_string b (field_of_str k);
          Buffer.add_char b ' '; Buffer.add_string b (string_of_int (List.length vs));
          List.iter (fun v -> Buffer.add_char b ' '; Buffer.add_string b (field_of_str v)) vs) a;
      Buffer.add_char b ' '; Buffer.add_string b (string_of_int (List.length cs));
      List.iter (fun c -> Buffer.add_char b ' '; show_node b c) cs

let show_exn = function
  | TokenizeError _ -> "TokenizeError" | MarkupError -> "MarkupError" | IndexError -> "IndexError"
  | ValueError -> "ValueError" | OverflowError -> "OverflowError" | KeyError -> "KeyError"
  | AssertionError -> "AssertionError" | TypeError -> "TypeError" | AttributeError -> "AttributeError"
  | OutOfFuel -> "OutOfFuel"

let show_err = function
  | EPy e -> "!py:" ^ show_exn e
  | ENotModelled -> "!notmodelled"
  | EModel -> "!model"

let flag s i = String.length s > i && s.[i] = '1'

let handle (fs : string list) : string =
  match fs with
  | cmd :: be :: md :: flags :: schemes :: hl :: aip :: dup :: rest ->
      let backend = if be = "S" then Sphinx else Docutils in
      let mode = (match md with "C" -> Commonmark | "G" -> Gfm | _ -> Myst) in
      let c = { c_mode = mode; c_all_links_external = flag flags 0; c_url_schemes = strs_of_field schemes;
                c_highlight = flag flags 1; c_mathjax_block = flag flags 2;
                c_highlight_language = str_of_field hl; c_html_convert = flag flags 3;
                c_auto_id_prefix = str_of_field aip; c_dup_refs = n_of_int (int_of_string dup);
                c_footnote_sort = flag flags 4; c_footnote_transition = flag flags 5 } in
      let (tb, rest) = parse_oracles rest in
      let (toks, _) = parse_toks rest in
      let o = oracles_of tb in
      misses := [];
      if cmd = "skel" then begin
        let b2s b = if b then "1" else "0" in
        let r = faithful_check backend c o toks in
        if !misses <> [] then "!miss " ^ String.concat " " (List.rev !misses) else
        (match r with
         | Bad e -> show_err e
         | Good (((st, dr), eq), ((so, tr), ro)) ->
             "S " ^ b2s st ^ b2s dr ^ b2s eq ^ b2s so ^ b2s tr ^ b2s ro)
      end else
      if cmd = "total" then begin
        let b2s b = if b then "1" else "0" in
        let (st, ok) = total_check backend c o toks in
        if !misses <> [] then "!miss " ^ String.concat " " (List.rev !misses) else "T " ^ b2s st ^ b2s ok
      end else
      if cmd = "xfchk" then begin
        let b2s b = if b then "1" else "0" in
        let r = xform_check backend c o toks in
        if !misses <> [] then "!miss " ^ String.concat " " (List.rev !misses) else
        (match r with
         | Bad e -> show_err e
         | Good ((lf, rr), iu) -> "X " ^ b2s lf ^ b2s rr ^ b2s iu)
      end else
      if cmd = "agree" then begin
        (* the request carries the Sphinx configuration; the docutils one differs in auto_id_prefix and MathJax *)
        let cd = { c with c_auto_id_prefix = [n_of_int 37]; c_mathjax_block = false } in
        let r = agree_check cd c o toks in
        if !misses <> [] then "!miss " ^ String.concat " " (List.rev !misses) else
        (match r with
         | Bad e -> show_err e
         | Good (st, b) -> "A " ^ (if b then "1" else "0") ^ (if st then "1" else "0"))
      end else
      let res = (match cmd with
          | "render" -> render_doc backend c o toks
          | "xform" -> render_xform backend c o toks
          | _ -> failwith "badcmd") in
      if !misses <> [] then "!miss " ^ String.concat " " (List.rev !misses) else
      (match res with
       | Bad e -> show_err e
       | Good (doc, ws) ->
           let b = Buffer.create 4096 in
           show_node b doc;
           Buffer.add_string b " | ";
           Buffer.add_string b (field_of_strs ws);
           Buffer.contents b)
  | _ -> "!badcmd"

let () = main handle
