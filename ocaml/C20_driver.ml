open Model
open Io

(* tree syntax, space separated, pre-order:  T<str>  |  R<fmt> ( kids )  |  S<level> ( kids )
   |  E<tag> ( kids )   ; payloads are not transmitted except for system messages *)
let parse_tree (toks : string list) : dnode =
  let rest = ref toks in
  let next () = match !rest with [] -> failwith "eof" | t :: r -> rest := r; t in
  let rec node () : dnode =
    let t = next () in
    let tag = String.sub t 1 (String.length t - 1) in
    match t.[0] with
    | 'T' -> DText (str_of_field tag)
    | c ->
        let k = (match c with
          | 'R' -> KRaw (str_of_field tag)
          | 'S' -> KSysMsg (n_of_int (int_of_string tag))
          | _ -> KElem (n_of_int (int_of_string tag))) in
        if next () <> "(" then failwith "expected (";
        let kids = ref [] in
        let fin = ref false in
        while not !fin do
          (match !rest with
           | ")" :: r -> rest := r; fin := true
           | _ -> kids := node () :: !kids)
        done;
        DNode (k, [], List.rev !kids) in
  node ()

let rec show (n : dnode) : string =
  match n with
  | DText s -> "T" ^ field_of_str s
  | DNode (k, p, ks) ->
      let h = (match k with
        | KRaw f -> "R" ^ field_of_str f
        | KSysMsg l -> "S" ^ string_of_int (int_of_n l)
        | KElem t -> "E" ^ string_of_int (int_of_n t)) in
      String.concat " " ([h; "("] @ List.map show ks @ [")"])

let handle (fs : string list) : string =
  match fs with
  | ["strip"; enabled; tree] ->
      let t = parse_tree (String.split_on_char ' ' tree) in
      let (t', n) = post_process (enabled = "1") t in
      show t' ^ "\t" ^ string_of_int (int_of_nat n) ^ "\t" ^ (if has_raw t' then "1" else "0")
  | ["include"; fie; sphinx; name; arg; exists] ->
      let st = { file_insertion_enabled = (fie = "1"); has_sphinx_env = (sphinx = "1") } in
      (* resolve: ordinary argument -> "P" ^ arg ; resolve_std: inner of <..> -> "S" ^ inner *)
      let (out, tr) = include_run_prefix st (str_of_field name) (str_of_field arg)
                        (fun a -> n_of_int 80 :: a) (fun a -> n_of_int 83 :: a)
                        (fun p -> if exists = "1" then Some [] else None) in
      (match out with RNodes _ -> "nodes" | RError (l, _) -> "error" ^ string_of_int (int_of_n l))
      ^ "\t" ^ String.concat ";" (List.map (function FsRead p -> "read:" ^ field_of_str p | FsResolve _ -> "resolve"
                                                     | FsDepend p -> "depend:" ^ field_of_str p) tr)
  | _ -> "!badcmd"

let () = main handle
