open Model
open Io

(* Request:  run  sort trans  L n (label isdigit int|~)*n   then the document:
     R refs            top-level block with references (strs field, '.' = none)
     D label body refs top-level definition
     B n (r refs | d label body refs)*n     container
   Reply: refs # foots # layout # warnings   (see props/C11.py) or !Exception *)

let b_of s = (s = "1")

let exn_name = function
  | KeyError -> "KeyError" | IndexError -> "IndexError" | TypeError -> "TypeError"
  | ValueError -> "ValueError" | OutOfFuel -> "OutOfFuel" | _ -> "Exception"

let ascii_digits (s : n list) =
  s <> [] && List.for_all (fun c -> let i = int_of_n c in i >= 48 && i <= 57) s

let rec take_items n f toks acc =
  if n = 0 then (List.rev acc, toks)
  else let (x, r) = f toks in take_items (n - 1) f r (x :: acc)

(* document grammar (recursive):  R refs | D label body refs | B n item*n *)
let rec parse_item (toks : string list) : blk * string list =
  match toks with
  | "R" :: refs :: t -> (BRefs (strs_of_field refs), t)
  | "D" :: l :: b :: refs :: t -> (BDef (str_of_field l, n_of_int (int_of_string b), strs_of_field refs), t)
  | "B" :: n :: t ->
      let (its, t') = take_items (int_of_string n) parse_item t [] in
      (BBox its, t')
  | x :: _ -> failwith ("doc token " ^ x)
  | [] -> failwith "doc token: end"

let rec parse_doc toks acc =
  match toks with
  | [] -> List.rev acc
  | _ -> let (b, t) = parse_item toks in parse_doc t (b :: acc)

let show_ostr = field_of_ostr
let show_warn = function
  | WDup l -> "D!" ^ field_of_str l
  | WUnref (l, a) -> "U!" ^ field_of_str l ^ "!" ^ (if a then "a" else "m")
  | WTooMany -> "X"
  | WUnrefSymbol -> "S"

let rec show_ltop = function
  | LOther -> "O" | LMsg -> "M" | LTrans -> "T"
  | LFoot l -> "F!" ^ field_of_str l
  | LBox its -> "[ " ^ String.concat " " (List.map show_ltop its) ^ (match its with [] -> "]" | _ -> " ]")

let join sep f l = match l with [] -> "." | _ -> String.concat sep (List.map f l)

let show_fout (f : fout) =
  String.concat "!" [field_of_str f.fo_fn.f_label; field_of_str f.fo_display;
                     join "+" (fun i -> string_of_int (int_of_nat i)) f.fo_backrefs;
                     string_of_int (int_of_n f.fo_fn.f_body)]

let show_rout (o : rout) =
  String.concat "!" [string_of_int (int_of_nat o.ro_idx); field_of_str o.ro_label;
                     show_ostr o.ro_refid; show_ostr o.ro_text]

let label_table n rest =
  let (table, rest') = take_items (int_of_string n) (function
    | l :: d :: i :: t -> ((str_of_field l, (b_of d, if i = "~" then None else Some (n_of_int (int_of_string i)))), t)
    | _ -> failwith "L") rest [] in
  let isdigit s = (try fst (List.assoc s table) with Not_found -> ascii_digits s) in
  let int_of s = (try snd (List.assoc s table) with Not_found ->
                    if ascii_digits s then Some (dval s) else None) in
  (isdigit, int_of, rest')

let handle (fs : string list) : string =
  match fs with
  | "run" :: legacy :: sort :: trans :: "L" :: n :: rest ->
      let (isdigit, int_of, rest') = label_table n rest in
      let d = parse_doc rest' [] in
      (match run_with isdigit int_of docutils_footnotes (b_of legacy) pipeline (b_of sort) (b_of trans) d with
       | Raise e -> "!" ^ exn_name e
       | Ok r ->
           String.concat " # " [
             join " " show_rout r.x_refs; join " " show_fout r.x_foots;
             join " " show_ltop r.x_layout; join " " show_warn r.x_warn ])
  (* docutils' Footnotes transform alone on a hand-built registry:
       footnotes  names  autofootnotes  footnotes  R n (label auto)*n
     names = extra registered names; every footnote label is registered too *)
  | "footnotes" :: names :: autos :: manuals :: "R" :: n :: rest ->
      let (refs, _) = take_items (int_of_string n) (function
        | l :: a :: t -> ((str_of_field l, b_of a), t) | _ -> failwith "R") rest [] in
      let mkfn auto i l = { f_label = l; f_auto = auto; f_body = n_of_int i } in
      let af = List.mapi (mkfn true) (strs_of_field autos) in
      let mf = List.mapi (mkfn false) (strs_of_field manuals) in
      let rfs = List.mapi (fun i (l, a) -> { r_idx = nat_of_int i; r_label = l; r_auto = a }) refs in
      let frefs = List.fold_left (fun d r -> dappend d r.r_label r) [] rfs in
      let g = { g_nameids = strs_of_field names @ strs_of_field autos @ strs_of_field manuals;
                g_autofootnotes = af; g_footnotes = mf;
                g_autofootnote_refs = List.filter (fun r -> r.r_auto) rfs;
                g_footnote_refs = frefs; g_allrefs = rfs; g_nrefs = nat_of_int (List.length rfs); g_warn = [] } in
      let s0 = { s_regs = g; s_manual = []; s_auto = []; s_layout = []; s_warn = [] } in
      let a = (match docutils_footnotes s0 with
       | Raise e -> "!" ^ exn_name e
       | Ok st ->
           let foots = st.s_manual @ st.s_auto in
           String.concat " # " [
             join " " show_rout (List.map (ref_out foots) rfs); join " " show_fout foots;
             join " " show_warn st.s_warn ]) in
      (* the same registry through the definition translated from the installed docutils source *)
      let b = (match footnotes_apply_src (ds_init g) with
       | Raise e -> "!" ^ exn_name e
       | Ok ds ->
           let st = project s0 ds in
           String.concat " # " [
             join " " show_rout (List.map (ref_result ds) rfs); join " " show_fout (st.s_manual @ st.s_auto);
             join " " show_warn st.s_warn ]) in
      a ^ " ## " ^ b
  | _ -> "!badcmd"

let () = main handle
