open Model
open Io

(* Request:  run  sort trans  L n (label isdigit int|~)*n   then the document:
     R refs            top-level block with references (strs field, '.' = none)
     D label body refs top-level definition
     B n (r refs | d label body refs)*n     container
   Reply: refs # foots # layout # warnings   (see props/C11.py) or !Exception *)

let b_of s = (s = "1")

let exn_name = function
  | KeyError -> "KeyError" | IndexError -> "IndexError" | TypeError -> "TypeError"
  | ValueError -> "ValueError" | OutOfFuel -> "OutOfFuel" | _ -> "Exception"

let ascii_digits (s : n list) =
  s <> [] && List.for_all (fun c -> let i = int_of_n c in i >= 48 && i <= 57) s

let rec take_items n f toks acc =
  if n = 0 then (List.rev acc, toks)
  else let (x, r) = f toks in take_items (n - 1) f r (x :: acc)

let parse_inner = function
  | "r" :: refs :: t -> (IRefs (strs_of_field refs), t)
  | "d" :: l :: b :: refs :: t -> (IDef (str_of_field l, n_of_int (int_of_string b), strs_of_field refs), t)
  | _ -> failwith "inner"

let rec parse_doc toks acc =
  match toks with
  | [] -> List.rev acc
  | "R" :: refs :: t -> parse_doc t (TRefs (strs_of_field refs) :: acc)
  | "D" :: l :: b :: refs :: t ->
      parse_doc t (TDef (str_of_field l, n_of_int (int_of_string b), strs_of_field refs) :: acc)
  | "B" :: n :: t ->
      let (its, t') = take_items (int_of_string n) parse_inner t [] in
      parse_doc t' (TBox its :: acc)
  | x :: _ -> failwith ("doc token " ^ x)

let show_ostr = field_of_ostr
let show_warn = function
  | WDup l -> "D!" ^ field_of_str l
  | WUnref (l, a) -> "U!" ^ field_of_str l ^ "!" ^ (if a then "a" else "m")
  | WTooMany -> "X"

let show_lin = function
  | LIOther -> "o" | LIMsg -> "m" | LIFoot l -> "f=" ^ field_of_str l

let show_ltop = function
  | LOther -> "O" | LMsg -> "M" | LTrans -> "T"
  | LFoot l -> "F!" ^ field_of_str l
  | LBox its -> "B!" ^ (match its with [] -> "." | _ -> String.concat "/" (List.map show_lin its))

let join sep f l = match l with [] -> "." | _ -> String.concat sep (List.map f l)

let handle (fs : string list) : string =
  match fs with
  | "run" :: sort :: trans :: "L" :: n :: rest ->
      let (table, rest') = take_items (int_of_string n) (function
        | l :: d :: i :: t -> ((str_of_field l, (b_of d, if i = "~" then None else Some (n_of_int (int_of_string i)))), t)
        | _ -> failwith "L") rest [] in
      let isdigit s = (try fst (List.assoc s table) with Not_found -> ascii_digits s) in
      let int_of s = (try snd (List.assoc s table) with Not_found ->
                        if ascii_digits s then Some (dval s) else None) in
      let d = parse_doc rest' [] in
      (match run isdigit int_of docutils_footnotes (b_of sort) (b_of trans) d with
       | Raise e -> "!" ^ exn_name e
       | Ok r ->
           String.concat " # " [
             join " " (fun o -> String.concat "!" [string_of_int (int_of_nat o.ro_idx); field_of_str o.ro_label;
                                                    show_ostr o.ro_refid; show_ostr o.ro_text]) r.x_refs;
             join " " (fun f -> String.concat "!" [field_of_str f.fo_fn.f_label; field_of_str f.fo_display;
                                                    join "+" (fun i -> string_of_int (int_of_nat i)) f.fo_backrefs;
                                                    string_of_int (int_of_n f.fo_fn.f_body)]) r.x_foots;
             join " " show_ltop r.x_layout;
             join " " show_warn r.x_warn ])
  | _ -> "!badcmd"

let () = main handle
