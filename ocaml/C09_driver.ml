open Model
open Io

(* Request (tab separated):
     resolve  sphinx suppressed slug_hash  <section>...
   sections (each introduced by its tag, items are consecutive fields):
     NT n  (name flag)*n
     NI n  (name id|~)*n
     ID n  (id node)*n          node = tag kind refid|~ refuri names astext nchildren child*
     SL n  (slug line|~ id title)*n
     NL n  (frag normalized)*n     table for normalizeLink
     RF n  (frag hastext line|~)*n
   Reply: one item per reference joined by ' ':
     refid|~ ! fill|~ ! warnline(s) ! msg ! pending      or  !KeyError ... *)

let b_of s = (s = "1")
let s_of_b b = if b then "1" else "0"

let kind_of = function
  | "T" -> KTarget | "C" -> KCaptionTitle | "L" -> KDefFieldList
  | "F" -> KFieldDLI | "N" -> KTermFieldName | _ -> KOther

let on_of_field f = if f = "~" then None else Some (n_of_int (int_of_string f))
let field_of_on = function None -> "~" | Some x -> string_of_int (int_of_n x)

let rec parse_node (toks : string list) : dnode * string list =
  match toks with
  | tag :: k :: rid :: uri :: names :: txt :: nch :: rest ->
      let n = int_of_string nch in
      let rec kids i acc r =
        if i = 0 then (List.rev acc, r)
        else let (c, r') = parse_node r in kids (i - 1) (c :: acc) r' in
      let (cs, rest') = kids n [] rest in
      (DN (str_of_field tag, kind_of k, ostr_of_field rid, b_of uri, strs_of_field names,
           str_of_field txt, cs), rest')
  | _ -> failwith "node"

let rec take_items n f toks acc =
  if n = 0 then (List.rev acc, toks)
  else let (x, r) = f toks in take_items (n - 1) f r (x :: acc)

let exn_name = function
  | KeyError -> "KeyError" | IndexError -> "IndexError" | TypeError -> "TypeError"
  | ValueError -> "ValueError" | AttributeError -> "AttributeError"
  | AssertionError -> "AssertionError" | OutOfFuel -> "OutOfFuel" | _ -> "Exception"

let handle (fs : string list) : string =
  match fs with
  | "resolve" :: sphinx :: supp :: shash :: rest ->
      let nt = ref [] and ni = ref [] and idl = ref [] and sl = ref [] and nl = ref [] and rf = ref [] in
      let rec go toks = match toks with
        | [] -> ()
        | "NT" :: n :: r ->
            let (xs, r') = take_items (int_of_string n) (function
              | a :: b :: t -> ((str_of_field a, b_of b), t) | _ -> failwith "NT") r [] in
            nt := xs; go r'
        | "NI" :: n :: r ->
            let (xs, r') = take_items (int_of_string n) (function
              | a :: b :: t -> ((str_of_field a, ostr_of_field b), t) | _ -> failwith "NI") r [] in
            ni := xs; go r'
        | "ID" :: n :: r ->
            let (xs, r') = take_items (int_of_string n) (function
              | a :: t -> let (nd, t') = parse_node t in ((str_of_field a, nd), t')
              | _ -> failwith "ID") r [] in
            idl := xs; go r'
        | "SL" :: n :: r ->
            let (xs, r') = take_items (int_of_string n) (function
              | a :: l :: i :: ti :: t ->
                  ((str_of_field a, ((on_of_field l, str_of_field i), str_of_field ti)), t)
              | _ -> failwith "SL") r [] in
            sl := xs; go r'
        | "NL" :: n :: r ->
            let (xs, r') = take_items (int_of_string n) (function
              | a :: b :: t -> ((str_of_field a, str_of_field b), t) | _ -> failwith "NL") r [] in
            nl := xs; go r'
        | "RF" :: n :: r ->
            let (xs, r') = take_items (int_of_string n) (function
              | a :: b :: l :: t ->
                  ({ r_frag = str_of_field a; r_has_text = b_of b; r_line = on_of_field l }, t)
              | _ -> failwith "RF") r [] in
            rf := xs; go r'
        | x :: _ -> failwith ("bad section " ^ x) in
      go rest;
      let table = !nl in
      let normalize (s : n list) : n list =
        (try List.assoc s table with Not_found -> s) in
      let rg = { nametypes = !nt; nameids = !ni; ids = !idl } in
      (match apply normalize (b_of sphinx) (b_of supp) (b_of shash) false rg !sl !rf with
       | Raise e -> "!" ^ exn_name e
       | Ok outs ->
           (match outs with [] -> "." | _ ->
            String.concat " " (List.map (fun o ->
              String.concat "!" [
                field_of_ostr o.o_refid; field_of_ostr o.o_fill;
                (match o.o_warn with [] -> "." | ws ->
                   String.concat ";" (List.map (fun w -> field_of_on w.w_line) ws));
                s_of_b o.o_msg; s_of_b o.o_pending; field_of_on o.o_pline ]) outs)))
  | _ -> "!badcmd"

let () = main handle
