open Model
open Io

(* wrapper layers, outermost first, one per field:
   A|titled|name|first|okind|opts|blank|fkind|len     (okind N B C D, fkind b t c)
   I|path        S|key *)
let b_of s = s = "1"
let fk = function "b" -> Backtick | "t" -> Tilde | _ -> Colon

let layer (f : string) : wrapper =
  match String.split_on_char '|' f with
  | ["A"; titled; name; first; okind; opts; blank; k; len] ->
      let o = (match okind with
        | "N" -> ONone | "B" -> OBlank
        | "C" -> OColon (strs_of_field opts, b_of blank)
        | _ -> ODash (strs_of_field opts, b_of blank)) in
      Adm (b_of titled, str_of_field name, str_of_field first, o, fk k, nat_of_int (int_of_string len))
  | ["I"; path] -> Include (str_of_field path)
  | ["S"; key] -> Subst (str_of_field key)
  | _ -> failwith ("bad layer " ^ f)

let rec nest (ls : wrapper list) : wrapper =
  match ls with
  | [] -> failwith "no layers"
  | [w] -> w
  | w :: r -> Nest (w, nest r)

let exn_name = function
  | TokenizeError _ -> "TokenizeError" | MarkupError -> "MarkupError" | IndexError -> "IndexError"
  | ValueError -> "ValueError" | OverflowError -> "OverflowError" | KeyError -> "KeyError"
  | AssertionError -> "AssertionError" | TypeError -> "TypeError" | AttributeError -> "AttributeError"
  | OutOfFuel -> "OutOfFuel"

let cls_of = function "admt" -> admt_class | "adm" -> adm_class
  | s -> (match String.split_on_char ',' s with
          | [os; rq; op; fw; hc] -> { d_optspec = b_of os; d_req = nat_of_int (int_of_string rq);
                                      d_opt = nat_of_int (int_of_string op); d_final_ws = b_of fw;
                                      d_has_content = b_of hc }
          | _ -> failwith "bad class")

let handle (fs : string list) : string =
  match fs with
  | ["splitlines"; s] -> field_of_strs (split_lines (str_of_field s))
  | ["info"; s] ->
      let (n, a) = parse_info (str_of_field s) in
      field_of_str n ^ " " ^ field_of_str a ^ " " ^ field_of_ostr (directive_name n)
  | ["split"; cls; first; content] ->
      (match parse_directive_text (cls_of cls) (str_of_field first) (str_of_field content) with
       | Ok p -> String.concat " " [field_of_strs p.p_args; field_of_ostr p.p_optblock;
                                    field_of_strs p.p_body; string_of_int (int_of_nat p.p_off);
                                    (if p.p_warn_split then "1" else "0");
                                    (if p.p_warn_content then "1" else "0")]
       | Raise e -> "!" ^ exn_name e)
  | "print" :: x :: layers -> field_of_strs (print_lines (nest (List.map layer layers)) (strs_of_field x))
  | "calls" :: pos :: x :: layers ->
      (match nested_calls (nest (List.map layer layers)) (strs_of_field x) (nat_of_int (int_of_string pos)) with
       | Ok cs -> (match cs with [] -> "." | _ ->
           String.concat " " (List.map (fun ((inl, t), ln) ->
             (if inl then "1" else "0") ^ "|" ^ field_of_str t ^ "|" ^ string_of_int (int_of_nat ln)) cs))
       | Raise e -> "!" ^ exn_name e)
  | ["fence"; text] ->
      (match parse_fence (split_lines (str_of_field text)) with
       | None -> "none"
       | Some f -> String.concat " " [(if f.fe_colon then "1" else "0"); field_of_str f.fe_info;
                                      field_of_str f.fe_content; string_of_int (int_of_n f.fe_lines)])
  | ["closes"; k; len; l] ->
      if closes (fk k) (nat_of_int (int_of_string len)) (str_of_field l) then "1" else "0"
  | _ -> "!badcmd"

let () = main handle
