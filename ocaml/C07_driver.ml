open Model
open Io

(* requests (tab separated):
     tok <text>        -> O <k>:<v>;<k>:<v>... c<has_comments 0/1>  |  !TokenizeError <index> <line> <column>  |  !<ExceptionClass>
     tokm <lo> <co> <text>   the same with line / column offsets (TokenizeError.clone)
     spec <ast...>     -> <wf 0/1>|<print_block>|<meaning pairs k:v;...>|<model result on print_block>
   AST encoding (prefix, one field per token), see props/C07.py enc_block:
     block  := <lead> <final newline 0/1> <nitems> item*
     item   := C <indent> <text> <trail> | K key <ksp> value <trail>      (blank lines: list of space counts 0,2,1 or -)
     key    := kp pline | ks <str> | kd dq
     pline  := <first> <n> (<spaces> <word>)*
     dq     := <n> (c <N> | e <N> | h <N> <digits> | l <k> <ind>)*
     value  := vn <tsp> <cm> | vf <vsp> flow <tsp> <cm>
             | vb <vsp> <folded> <chomp 0 clip 1 strip 2 keep> <explicit> <chomp_first> <hsp> <hcm> <lead> <indent> <first> <n> (<k> <text>)*
     flow   := fp pline <n> (<tsp> <k> <ind> pline)* | fs <str> <n> (<tws> <k> <ind> <str>)* | fd dq <n> (<tws> <k> <ind> dq)*  *)
let show_exn (e : Model.exn) : string =
  match e with
  | TokenizeError p -> "!TokenizeError " ^ string_of_int (int_of_n p)
  | MarkupError -> "!MarkupError"
  | IndexError -> "!IndexError"
  | ValueError -> "!ValueError"
  | OverflowError -> "!OverflowError"
  | KeyError -> "!KeyError"
  | AssertionError -> "!AssertionError"
  | TypeError -> "!TypeError"
  | AttributeError -> "!AttributeError"
  | OutOfFuel -> "!OutOfFuel"

let show_pairs_raw (ps : (n list * n list) list) : string =
  String.concat ";" (List.map (fun (k, v) -> field_of_str k ^ ":" ^ field_of_str v) ps)

let show_res (r : (n list * n list) list res) : string =
  match r with
  | Ok ps -> "O " ^ show_pairs_raw ps
  | Raise e -> show_exn e

(* with the mark (index, line, column) that the error carries, from the bookkeeping spec *)
let show_res_mark (text : n list) (lo : int) (co : int) (r : (n list * n list) list res) : string =
  match r with
  | Raise (TokenizeError p) ->
      let ((i, l), c) = error_mark text (n_of_int lo) (n_of_int co) (nat_of_int (int_of_n p)) in
      Printf.sprintf "!TokenizeError %d %d %d" (int_of_n i) (int_of_n l) (int_of_n c)
  | Ok ps ->
      (* pairs from options_to_items, the flag from the instrumented options_to_items_state *)
      (match options_to_items_state text with
       | Ok (ps', cm) -> if ps' = ps then "O " ^ show_pairs_raw ps ^ (if cm then " c1" else " c0") else "!erasure-mismatch"
       | Raise _ -> "!erasure-mismatch")
  | _ -> show_res r

(* ---- AST reader ---- *)
let toks : string list ref = ref []
let next () = match !toks with [] -> failwith "ast: unexpected end" | x :: r -> toks := r; x
let p_int () = int_of_string (next ())
let p_nat () = nat_of_int (p_int ())
let p_bool () = (next ()) = "1"
let p_str () = str_of_field (next ())
let p_ostr () = ostr_of_field (next ())
let rec p_rep n f = if n <= 0 then [] else let x = f () in x :: p_rep (n - 1) f
let p_list f = let n = p_int () in p_rep n f
(* list of naturals as one field: 0,2,1  ("-" = empty) *)
let p_nats () = let f = next () in
  if f = "-" || f = "" then [] else List.map (fun x -> nat_of_int (int_of_string x)) (String.split_on_char ',' f)

let p_pline () =
  let first = p_str () in
  let more = p_list (fun () -> let n = p_nat () in let w = p_str () in (n, w)) in
  { pl_first = first; pl_more = more }

let p_dq () =
  p_list (fun () ->
    match next () with
    | "c" -> DChr (n_of_int (p_int ()))
    | "e" -> DEsc (n_of_int (p_int ()))
    | "h" -> let k = n_of_int (p_int ()) in let ds = p_str () in DHex (k, ds)
    | "l" -> let k = strs_of_field (next ()) in let ind = p_str () in DBrk (k, ind)
    | x -> failwith ("ast: dq item " ^ x))

let p_flow () =
  match next () with
  | "fp" ->
      let l0 = p_pline () in
      let more = p_list (fun () ->
        let tsp = p_nat () in let k = p_nats () in let ind = p_nat () in let l = p_pline () in
        (((tsp, k), ind), l)) in
      FPlain (l0, more)
  | "fs" ->
      let l0 = p_str () in
      let more = p_list (fun () ->
        let tws = p_str () in let k = strs_of_field (next ()) in let ind = p_str () in let t = p_str () in
        (((tws, k), ind), t)) in
      FSingle (l0, more)
  | "fd" ->
      let l0 = p_dq () in
      let more = p_list (fun () ->
        let tws = p_str () in let k = strs_of_field (next ()) in let ind = p_str () in let t = p_dq () in
        (((tws, k), ind), t)) in
      FDouble (l0, more)
  | x -> failwith ("ast: flow " ^ x)

let p_value () =
  match next () with
  | "vn" -> let tsp = p_nat () in let cm = p_ostr () in VNone (tsp, cm)
  | "vf" ->
      let vsp = p_nat () in let f = p_flow () in let tsp = p_nat () in let cm = p_ostr () in
      VFlow (vsp, f, tsp, cm)
  | "vb" ->
      let vsp = p_nat () in let folded = p_bool () in
      let ch = (match p_int () with 0 -> Clip | 1 -> Strip | _ -> Keep) in
      let expl = p_bool () in let cf = p_bool () in let hsp = p_nat () in let hcm = p_ostr () in
      let lead = p_nats () in let indent = p_nat () in let first = p_str () in
      let more = p_list (fun () -> let k = p_nats () in let t = p_str () in (k, t)) in
      VBlock (vsp, folded,
              { h_chomp = ch; h_explicit = expl; h_chomp_first = cf; h_sp = hsp; h_comment = hcm },
              lead, indent, first, more)
  | x -> failwith ("ast: value " ^ x)

let p_key () =
  match next () with
  | "kp" -> KPlain (p_pline ())
  | "ks" -> KSingle (p_str ())
  | "kd" -> KDouble (p_dq ())
  | x -> failwith ("ast: key " ^ x)

let p_item () =
  match next () with
  | "C" -> let n = p_nat () in let t = p_str () in let trail = p_nats () in IComment (n, t, trail)
  | "K" ->
      let k = p_key () in let ksp = p_nat () in let v = p_value () in let trail = p_nats () in
      IKV (k, ksp, v, trail)
  | x -> failwith ("ast: item " ^ x)

let p_block () =
  let lead = p_nats () in
  let fin = p_bool () in
  let items = p_list p_item in
  { b_lead = lead; b_items = items; b_final_nl = fin }

let handle (fs : string list) : string =
  match fs with
  | ["tok"; text] -> let t = str_of_field text in show_res_mark t 0 0 (options_to_items t)
  | ["tokm"; lo; co; text] ->
      let t = str_of_field text in show_res_mark t (int_of_string lo) (int_of_string co) (options_to_items t)
  | "spec" :: rest ->
      toks := rest;
      let b = p_block () in
      if !toks <> [] then failwith "ast: trailing tokens" else
      let text = print_block b in
      String.concat "|" [ (if wf_block b then "1" else "0"); field_of_str text;
                          show_pairs_raw (meaning_block b); show_res_mark text 0 0 (options_to_items text) ]
  | _ -> "!badcmd"

let () = main handle
