open Model
open Io

(* C18 model runner.  One request per line, tab separated; see props/C18.py.

   load      <base|~> <Z bytes> <table> <chunk> ...     -> inventory or !Exc
   sphinx    <uri> <Z bytes> <result|!> <content>       -> sphinx inventory or !Exc
   tosphinx  <inventory tokens ...>                     -> sphinx inventory
   fromsphinx <sphinx tokens ...>                       -> inventory
   decode <bytes> | rstrip <str> | brstrip <bytes> | split3 <str> | splitlines <str>
   pjoin <a> <b> | match <str> | contains <sub> <s>
   cli <domain> <otype> <name> <loc|~> <base|~> <inventory tokens ...>   -> filtered inventory
   clifetch <uri> <r1> <r2> <rf>   r = ok|exc: outcome of loading uri / uri+"/objects.inv" via urlopen
                                   and of loading uri via open  -> "ok <U1|U2|F> <base|~>" or !exc
   fetch <uri>                     -> U (urlopen) | F (open)

   table: per byte of Z the bytes emitted, ';' separated; '!' = zlib.error; '.' = empty table *)

let exn_name = function
  | ValueErr -> "!ValueError"
  | UnicodeDecodeErr -> "!UnicodeDecodeError"
  | ZlibErr -> "!error"
  | OutOfFuelErr -> "!OutOfFuel"

let table_of (z : n list) (f : string) : (n * n list option) list =
  let outs = if f = "." then [] else String.split_on_char ';' f in
  let rec zip zs os = match zs, os with
    | c :: zs', o :: os' -> (c, (if o = "!" then None else Some (str_of_field o))) :: zip zs' os'
    | _, _ -> [] in
  zip z outs

let show_objs (objs : (n list * (n list * (n list * item) list) list) list) : string list =
  List.concat_map (fun (d, ts) ->
    ("D " ^ field_of_str d) ::
    List.concat_map (fun (t, es) ->
      ("T " ^ field_of_str t) ::
      List.map (fun (nm, it) ->
        "E " ^ field_of_str nm ^ " " ^ field_of_str it.it_loc ^ " " ^ field_of_ostr it.it_text) es) ts) objs

let show_inv (inv : inventory) : string =
  String.concat " " (["ok"; field_of_str inv.inv_name; field_of_str inv.inv_version; field_of_ostr inv.inv_base]
                     @ show_objs inv.inv_objects)

let show_sinv (s : (n list * (n list * (((n list * n list) * n list) * n list)) list) list) : string =
  String.concat " " ("ok" ::
    List.concat_map (fun (k, m) ->
      ("K " ^ field_of_str k) ::
      List.map (fun (nm, (((p, v), u), d)) ->
        "N " ^ field_of_str nm ^ " " ^ field_of_str p ^ " " ^ field_of_str v ^ " " ^ field_of_str u ^ " " ^ field_of_str d) m) s)

(* inventory tokens: I name version base ; D d ; T t ; E name loc text *)
let parse_inv (toks : string list) : inventory =
  let doms = ref [] in let cur_dom = ref None in
  let typs = ref [] in let cur_typ = ref None in
  let ents = ref [] in
  let hdr = ref ([], [], None) in
  let close_typ () = (match !cur_typ with
      | Some t -> typs := (t, List.rev !ents) :: !typs | None -> ()); cur_typ := None; ents := [] in
  let close_dom () = close_typ (); (match !cur_dom with
      | Some d -> doms := (d, List.rev !typs) :: !doms | None -> ()); cur_dom := None; typs := [] in
  let rec go = function
    | "I" :: nm :: v :: b :: r -> hdr := (str_of_field nm, str_of_field v, ostr_of_field b); go r
    | "D" :: d :: r -> close_dom (); cur_dom := Some (str_of_field d); go r
    | "T" :: t :: r -> close_typ (); cur_typ := Some (str_of_field t); go r
    | "E" :: nm :: l :: t :: r ->
        ents := (str_of_field nm, { it_loc = str_of_field l; it_text = ostr_of_field t }) :: !ents; go r
    | [] -> close_dom ()
    | x :: _ -> failwith ("bad token " ^ x) in
  go toks;
  let (nm, v, b) = !hdr in
  { inv_name = nm; inv_version = v; inv_base = b; inv_objects = List.rev !doms }

(* sphinx tokens: K key ; N name project version uri dispname *)
let parse_sinv (toks : string list) =
  let keys = ref [] in let cur = ref None in let ents = ref [] in
  let close () = (match !cur with Some k -> keys := (k, List.rev !ents) :: !keys | None -> ()); cur := None; ents := [] in
  let rec go = function
    | "K" :: k :: r -> close (); cur := Some (str_of_field k); go r
    | "N" :: nm :: p :: v :: u :: d :: r ->
        ents := (str_of_field nm, (((str_of_field p, str_of_field v), str_of_field u), str_of_field d)) :: !ents; go r
    | [] -> close ()
    | x :: _ -> failwith ("bad token " ^ x) in
  go toks; List.rev !keys

let handle (fs : string list) : string =
  match fs with
  | "load" :: base :: z :: tab :: chunks ->
      let zb = str_of_field z in
      (match load_exec (table_of zb tab) (List.map str_of_field chunks) (ostr_of_field base) with
       | IOk inv -> show_inv inv
       | IRaise e -> exn_name e)
  | ["sphinx"; uri; z; result; content] ->
      let res = if result = "!" then None else Some (str_of_field result) in
      (match sphinx_exec (str_of_field z) res (str_of_field content) (str_of_field uri) with
       | IOk s -> show_sinv s
       | IRaise e -> exn_name e)
  | "tosphinx" :: toks -> show_sinv (to_sphinx (parse_inv toks))
  | "fromsphinx" :: toks -> show_inv (from_sphinx (parse_sinv toks))
  | ["decode"; b] -> (match utf8_decode (str_of_field b) with Some s -> "ok " ^ field_of_str s | None -> "!UnicodeDecodeError")
  | ["rstrip"; s] -> field_of_str (rstrip (str_of_field s))
  | ["brstrip"; s] -> field_of_str (brstrip (str_of_field s))
  | ["split3"; s] -> field_of_strs (split_ws (nat_of_int 2) (str_of_field s))
  | ["splitlines"; s] -> field_of_strs (splitlines (str_of_field s))
  | ["pjoin"; a; b] -> field_of_str (pjoin (str_of_field a) (str_of_field b))
  | ["contains"; a; b] -> if contains (str_of_field a) (str_of_field b) then "1" else "0"
  | ["match"; s] ->
      (match match_line_exec (str_of_field s) with
       | None -> "~"
       | Some ((((a, b), c), d), e) -> String.concat " " (List.map field_of_str [a; b; c; d; e]))
  | "cli" :: qd :: qo :: qt :: loc :: base :: toks ->
      show_inv (cli_filter (parse_inv toks) (ostr_of_field base) (str_of_field qd) (str_of_field qo)
                  (str_of_field qt) (ostr_of_field loc))
  | ["clifetch"; uri; r1; r2; rf] ->
      let u = str_of_field uri in
      let tag t = { inv_name = str_of_field t; inv_version = []; inv_base = None; inv_objects = [] } in
      let objinv = str_of_field "47,111,98,106,101,99,116,115,46,105,110,118" in
      let url_load x _ =
        if x = u then (if r1 = "ok" then IOk (tag "85,49") else IRaise ValueErr)
        else if x = u @ objinv then (if r2 = "ok" then IOk (tag "85,50") else IRaise ValueErr)
        else IRaise ValueErr in
      let file_load x _ = if x = u && rf = "ok" then IOk (tag "70") else IRaise ValueErr in
      (match cli_fetch url_load file_load u with
       | IOk (inv, b) -> "ok " ^ field_of_str inv.inv_name ^ " " ^ field_of_ostr b
       | IRaise _ -> "!exc")
  | ["fetch"; uri] ->
      let tag t = { inv_name = str_of_field t; inv_version = []; inv_base = None; inv_objects = [] } in
      (match fetch_inventory (fun _ _ -> IOk (tag "85")) (fun _ _ -> IOk (tag "70")) (str_of_field uri) None with
       | IOk inv -> field_of_str inv.inv_name
       | IRaise _ -> "!exc")
  | _ -> "!badcmd"

let () = main handle
