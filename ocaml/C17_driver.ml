open Model
open Io

let parse_attrs (toks : string list) : (n list * n list option) list * string list =
  match toks with
  | [] -> failwith "attrs"
  | cnt :: r ->
      let k = int_of_string cnt in
      let rec go k r acc =
        if k = 0 then (List.rev acc, r)
        else match r with
          | a :: b :: r' -> go (k - 1) r' ((str_of_field a, ostr_of_field b) :: acc)
          | _ -> failwith "attrs" in
      go k r []

let rec parse_events (toks : string list) : event list =
  match toks with
  | [] -> []
  | "S" :: nm :: r -> let (a, r') = parse_attrs r in EStart (str_of_field nm, a) :: parse_events r'
  | "X" :: nm :: r -> let (a, r') = parse_attrs r in EStartEnd (str_of_field nm, a) :: parse_events r'
  | "E" :: nm :: r -> EEnd (str_of_field nm) :: parse_events r
  | "D" :: s :: r -> EData (str_of_field s) :: parse_events r
  | "L" :: s :: r -> EDecl (str_of_field s) :: parse_events r
  | "U" :: s :: r -> EUnknownDecl (str_of_field s) :: parse_events r
  | "C" :: s :: r -> EComment (str_of_field s) :: parse_events r
  | "P" :: s :: r -> EPi (str_of_field s) :: parse_events r
  | "R" :: s :: r -> ECharRef (str_of_field s) :: parse_events r
  | "N" :: s :: r -> EEntityRef (str_of_field s) :: parse_events r
  | x :: _ -> failwith ("bad event " ^ x)

let exn_name (e : exn) : string =
  match e with
  | TokenizeError _ -> "TokenizeError" | MarkupError -> "MarkupError" | IndexError -> "IndexError"
  | ValueError -> "ValueError" | OverflowError -> "OverflowError" | KeyError -> "KeyError"
  | AssertionError -> "AssertionError" | TypeError -> "TypeError" | AttributeError -> "AttributeError"
  | OutOfFuel -> "OutOfFuel"

let b s = s = "1"

let handle (fs : string list) : string =
  match fs with
  | ["gfm"; text] -> field_of_str (gfm_filter (str_of_field text))
  | ["optline"; k; v] -> field_of_str (option_line (str_of_field k) (ostr_of_field v))
  | "h2n" :: gfm :: img :: adm :: text :: evs ->
      let events = parse_events evs in
      (match html_to_nodes (fun _ -> events) (b gfm) (b img) (b adm) (str_of_field text) with
       | ORaw t -> "R|" ^ field_of_str t
       | OWarnRaw t -> "W|" ^ field_of_str t
       | OMissingSrc -> "M"
       | OEscapes e -> "!" ^ exn_name e
       | ODirectives l ->
           "D|" ^ String.concat ";" (List.map (fun d ->
             String.concat "^" [field_of_str d.d_name; field_of_str d.d_first; field_of_str d.d_content]) l))
  | ["readopts"; block] ->
      (match options_to_items (str_of_field block) with
       | RdOk l -> "O|" ^ String.concat ";" (List.map (fun (k, v) -> field_of_str k ^ "^" ^ field_of_str v) l)
       | RdError -> "!TokenizeError"
       | RdNotModelled -> "!NotModelled")
  | ["extract"; content] ->
      (match extract_options (str_of_field content) with
       | None -> "~"
       | Some (block, rest) -> field_of_str block ^ "|" ^ string_of_int (List.length rest))
  | _ -> "!badcmd"

let () = main handle
