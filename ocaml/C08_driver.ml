open Model
open Io

(* request (tab separated):
   parse hasspec keys allkeys flags req opt fws hascontent istest first content line validate additional toktab convtab yamltab
   tables: entries separated by ' ', fields by '|'  (see props/C08.py) *)

let rec int_of_positive p = match p with XH -> 1 | XO q -> 2 * int_of_positive q | XI q -> 2 * int_of_positive q + 1
let int_of_z (z : z) : int = match z with Z0 -> 0 | Zpos p -> int_of_positive p | Zneg p -> - (int_of_positive p)

let split_on c s = if s = "." || s = "" then [] else String.split_on_char c s

let exc_name = ref ""
let miss = ref ""

let exn_of_name (n : string) : exn =
  match n with
  | "ValueError" -> ValueError | "TypeError" -> TypeError | "OverflowError" -> OverflowError
  | "KeyError" -> KeyError | "IndexError" -> IndexError | "AttributeError" -> AttributeError
  | "AssertionError" -> AssertionError
  | _ -> exc_name := n; AssertionError

let name_of_exn (e : exn) : string =
  match e with
  | TokenizeError _ -> "TokenizeError" | MarkupError -> "MarkupError" | IndexError -> "IndexError"
  | ValueError -> "ValueError" | OverflowError -> "OverflowError" | KeyError -> "KeyError"
  | AssertionError -> if !exc_name <> "" then !exc_name else "AssertionError"
  | TypeError -> "TypeError" | AttributeError -> "AttributeError" | OutOfFuel -> "OutOfFuel"

let rec pairs_of (l : string list) : (n list * n list) list =
  match l with
  | k :: v :: r -> (str_of_field k, str_of_field v) :: pairs_of r
  | [] -> []
  | _ -> failwith "odd pair list"

let parse_kvlist (f : string) : (n list * n list) list =
  List.map (fun p -> match String.split_on_char '|' p with
      | [k; v] -> (str_of_field k, str_of_field v)
      | _ -> failwith "bad kv") (split_on ';' f)

let mk_tokenize (f : string) =
  let entries = List.map (String.split_on_char '|') (split_on ' ' f) in
  fun (b : n list) ->
    let key = field_of_str b in
    let rec find = function
      | [] -> miss := "tokenize-miss:" ^ key; Raise KeyError
      | (blk :: kind :: rest) :: more ->
          if field_of_str (str_of_field blk) = key then
            (match kind, rest with
             | "ok", hc :: kvs -> Ok (pairs_of kvs, hc = "1")
             | "tokerr", _ -> Raise (TokenizeError N0)
             | "exc", nm :: _ -> Raise (exn_of_name nm)
             | _ -> failwith "bad tok entry")
          else find more
      | _ -> failwith "bad tok entry" in
    find entries

let mk_yaml (f : string) =
  let entries = List.map (String.split_on_char '|') (split_on ' ' f) in
  fun (b : n list) ->
    let key = field_of_str b in
    let rec find = function
      | [] -> miss := "yaml-miss:" ^ key; Y_raise KeyError
      | (blk :: kind :: rest) :: more ->
          if field_of_str (str_of_field blk) = key then
            (match kind, rest with
             | "err", _ -> Y_error | "falsy", _ -> Y_falsy | "notdict", _ -> Y_notdict
             | "dict", kvs -> Y_dict (pairs_of kvs)
             | "exc", nm :: _ -> Y_raise (exn_of_name nm)
             | _ -> failwith "bad yaml entry")
          else find more
      | _ -> failwith "bad yaml entry" in
    find entries

let mk_conv (f : string) =
  let entries = List.map (String.split_on_char '|') (split_on ' ' f) in
  fun (k : n list) (v : n list option) ->
    let kk = field_of_str k and vv = field_of_ostr v in
    let rec find = function
      | [] -> miss := "conv-miss:" ^ kk ^ "=" ^ vv; Raise KeyError
      | (k' :: v' :: kind :: rest) :: more ->
          if field_of_str (str_of_field k') = kk && field_of_ostr (ostr_of_field v') = vv then
            (match kind, rest with
             | "ok", r :: _ -> Ok (str_of_field r)
             | "verr", _ -> Raise ValueError
             | "terr", _ -> Raise TypeError
             | "exc", nm :: _ -> Raise (exn_of_name nm)
             | _ -> failwith "bad conv entry")
          else find more
      | _ -> failwith "bad conv entry" in
    find entries

let show_line (l : nat option) = match l with None -> "~" | Some x -> string_of_int (int_of_nat x)

let show_warn (w : pwarn) : string =
  match w with
  | W_yaml_bad l | W_yaml_notdict l | W_tokenize l -> "O:" ^ show_line l
  | W_invalid (_, l) -> "O:" ^ show_line l
  | W_unknown (_, l) -> "O:" ^ show_line l
  | W_comments l -> "C:" ^ show_line l
  | W_split | W_has_content -> "P:~"

let show_result (r : dresult) : string =
  String.concat "\t" [
    field_of_strs r.r_arguments;
    (match r.r_options with [] -> "." | o -> String.concat ";" (List.map (fun (k, v) -> field_of_str k ^ "|" ^ field_of_str v) o));
    field_of_strs r.r_body;
    string_of_int (int_of_z r.r_body_offset);
    (match r.r_warnings with [] -> "." | ws -> String.concat ";" (List.map show_warn ws)) ]

let mem_field (l : n list list) (k : n list) = List.exists (fun x -> x = k) l

let handle (fs : string list) : string =
  exc_name := ""; miss := "";
  match fs with
  | ["parse"; hasspec; keys; allkeys; flags; req; opt; fws; hascontent; istest; first; content; line; validate;
     additional; toktab; convtab; yamltab] ->
      let keys = strs_of_field keys and flags = strs_of_field flags in
      let sg = { has_option_spec = (hasspec = "1");
                 opt_known = (fun k -> allkeys = "1" || mem_field keys k);
                 opt_keys = keys;
                 opt_is_flag = (fun k -> mem_field flags k);
                 opt_conv = mk_conv convtab;
                 required_arguments = nat_of_int (int_of_string req);
                 optional_arguments = nat_of_int (int_of_string opt);
                 final_argument_whitespace = (fws = "1");
                 has_content = (hascontent = "1");
                 is_test = (istest = "1") } in
      let line = if line = "~" then None else Some (nat_of_int (int_of_string line)) in
      let additional = if additional = "~" then None else Some (parse_kvlist additional) in
      let r = parse_directive_text (mk_tokenize toktab) (mk_yaml yamltab) sg (str_of_field first)
                (str_of_field content) line (validate = "1") additional in
      if !miss <> "" then "!bad:" ^ !miss else
      (match r with
       | Ok r -> show_result r
       | Raise e -> "!" ^ name_of_exn e)
  | ["dedent"; s] -> field_of_str (dedent (str_of_field s))
  | ["splitlines"; s] -> field_of_strs (splitlines (str_of_field s))
  | ["split"; s] -> field_of_strs (split_ws (str_of_field s))
  | ["splitmax"; k; s] -> field_of_strs (split_max (nat_of_int (int_of_string k)) (str_of_field s))
  | ["old"; content] ->
      let (b, o) = old_body_and_offset (str_of_field content) in
      field_of_strs b ^ "\t" ^ string_of_int (int_of_z o)
  | _ -> "!badcmd"

let () = main handle
