open Model
open Io

(* request:  doc <TAB> first_line <TAB> tokens   where tokens (space separated, prefix notation) are
     L kind m more nins (marker line)* | Q m n <n blocks> | I m n <..> | V m bb ba n <..> | D m fk os nopts bb ba n <..>
   reply:    printed lines (strs) <TAB> model lines "m:line;..." <TAB> true lines "m:line;..."
   request:  incdoc <TAB> s <TAB> tokens  ->  model lines of the blocks rendered as an included file from line index s
   request:  inc <TAB> file lines (strs) <TAB> startline(~|n) <TAB> startafter(~|str)  ->  lineno <TAB> text | !notfound
   request:  incold <TAB> file lines <TAB> startafter                               ->  lineno <TAB> text *)

let rec int_of_positive p = match p with XH -> 1 | XO q -> 2 * int_of_positive q | XI q -> 2 * int_of_positive q + 1
let int_of_z (z : z) : int = match z with Z0 -> 0 | Zpos p -> int_of_positive p | Zneg p -> - (int_of_positive p)

let rec parse_blk (toks : string list) : blk * string list =
  match toks with
  | "L" :: k :: m :: more :: nins :: r ->
      let kind = (match k with "0" -> LPara | "1" -> LHeading | "2" -> LCode | "3" -> LTarget | "4" -> LBreak
                             | "5" -> LComment | "6" -> LHtml | "7" -> LMath | "8" -> LTable
                             | _ -> failwith ("bad leaf kind " ^ k)) in
      let rec take n l acc = if n = 0 then (List.rev acc, l) else
          (match l with a :: b :: r' -> take (n - 1) r' ((nat_of_int (int_of_string a), nat_of_int (int_of_string b)) :: acc)
                      | _ -> failwith "bad inline list") in
      let (ins, r') = take (int_of_string nins) r [] in
      (Leaf (kind, nat_of_int (int_of_string m), nat_of_int (int_of_string more), ins), r')
  | "Q" :: m :: n :: r -> let (bs, r') = parse_n (int_of_string n) r in (Quote (nat_of_int (int_of_string m), bs), r')
  | "I" :: m :: n :: r -> let (bs, r') = parse_n (int_of_string n) r in (ListItem (nat_of_int (int_of_string m), bs), r')
  | "V" :: m :: bb :: ba :: n :: r ->
      let (bs, r') = parse_n (int_of_string n) r in
      (Div (nat_of_int (int_of_string m), nat_of_int (int_of_string bb), nat_of_int (int_of_string ba), bs), r')
  | "D" :: m :: fk :: os :: nopts :: bb :: ba :: n :: r ->
      let (bs, r') = parse_n (int_of_string n) r in
      let fk = if fk = "c" then ColonFence else Backtick in
      let os = (match os with "c" -> ColonOpts | "d" -> DashOpts | _ -> NoOpts) in
      (Dir (nat_of_int (int_of_string m), fk, os, nat_of_int (int_of_string nopts), nat_of_int (int_of_string bb),
            nat_of_int (int_of_string ba), bs), r')
  | t :: _ -> failwith ("bad token " ^ t)
  | [] -> failwith "unexpected end"
and parse_n (n : int) (toks : string list) : blk list * string list =
  if n = 0 then ([], toks)
  else let (b, r) = parse_blk toks in let (bs, r') = parse_n (n - 1) r in (b :: bs, r')

let rec parse_all toks = match toks with [] -> [] | _ -> let (b, r) = parse_blk toks in b :: parse_all r

(* the directive class of {note}: option_spec {class, name}, no arguments, has content *)
let k_class = str_of_field "99,108,97,115,115" and k_name = str_of_field "110,97,109,101"
let note_sig : dsig =
  { has_option_spec = true;
    opt_known = (fun k -> k = k_class || k = k_name);
    opt_keys = [k_class; k_name];
    opt_is_flag = (fun _ -> false);
    opt_conv = (fun _ v -> match v with Some s -> Ok s | None -> Raise ValueError);
    required_arguments = nat_of_int 0; optional_arguments = nat_of_int 0;
    final_argument_whitespace = true; has_content = true; is_test = false }

(* the printed option lines are "k: v": one unknown key; the line arithmetic does not depend on the items *)
let stub_tokenize (_ : n list) = Ok ([ (str_of_field "107", str_of_field "118") ], false)
let stub_yaml (_ : n list) = Y_falsy

let show_pairs f l = match l with [] -> "." | _ -> String.concat ";" (List.map (fun (m, x) -> string_of_int (int_of_nat m) ^ ":" ^ f x) l)

let handle (fs : string list) : string =
  match fs with
  | ["doc"; first; toks] ->
      let doc = parse_all (String.split_on_char ' ' toks) in
      let text = print_seq doc in
      let truth = locate_seq (nat_of_int 1) doc in
      (match document_lines stub_tokenize stub_yaml note_sig (str_of_field first) doc with
       | Ok l -> field_of_strs text ^ "\t" ^ show_pairs (fun z -> string_of_int (int_of_z z)) l ^ "\t"
                 ^ show_pairs (fun x -> string_of_int (int_of_nat x)) truth
       | Raise AssertionError -> "!guard"
       | Raise MarkupError -> "!MarkupError"
       | Raise _ -> "!exc")
  | ["incdoc"; st; toks] ->
      let doc = parse_all (String.split_on_char ' ' toks) in
      (match include_lines stub_tokenize stub_yaml note_sig [] (nat_of_int (int_of_string st)) doc with
       | Ok l -> show_pairs (fun z -> string_of_int (int_of_z z)) l
       | Raise _ -> "!exc")
  | ["inc"; lines; sl; sa] ->
      let sl = if sl = "~" then None else Some (nat_of_int (int_of_string sl)) in
      (match include_start (strs_of_field lines) sl (ostr_of_field sa) with
       | None -> "!notfound"
       | Some (ln, text) -> string_of_int (int_of_nat ln) ^ "\t" ^ field_of_str text)
  | ["incold"; lines; sa] ->
      (match include_start_old (strs_of_field lines) (str_of_field sa) with
       | None -> "!notfound"
       | Some (ln, text) -> string_of_int (int_of_nat ln) ^ "\t" ^ field_of_str text)
  | _ -> "!badcmd"

let () = main handle
