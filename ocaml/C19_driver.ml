open Model
open Io

(* inventory encoding: one case per line, see props/C19.py *)
let b2s b = if b then "1" else "0"

(* parse a flat entry list: fields are groups of 9:
   inv domain otype name project version base loc text *)
let rec take n l = if n = 0 then [] else match l with [] -> [] | x :: r -> x :: take (n-1) r
let rec drop n l = if n = 0 then l else match l with [] -> [] | _ :: r -> drop (n-1) r

let show_match (m : invmatch) : string =
  String.concat "|" [field_of_str m.m_inv; field_of_str m.m_domain; field_of_str m.m_otype;
    field_of_str m.m_name; field_of_str m.m_project; field_of_str m.m_version;
    field_of_ostr m.m_base; field_of_str m.m_loc; field_of_ostr m.m_text]

(* inventories are sent as nested text:  INV name version base ; DOM d ; TYP t ; ENT name loc text *)
let parse_invs (toks : string list) =
  (* returns (str * inventory) list *)
  let invs = ref [] in
  let cur_inv = ref None in
  let doms = ref [] in let cur_dom = ref None in
  let typs = ref [] in let cur_typ = ref None in
  let ents = ref [] in
  let close_typ () = (match !cur_typ with
      | Some t -> typs := (t, List.rev !ents) :: !typs | None -> ()); cur_typ := None; ents := [] in
  let close_dom () = close_typ (); (match !cur_dom with
      | Some d -> doms := (d, List.rev !typs) :: !doms | None -> ()); cur_dom := None; typs := [] in
  let close_inv () = close_dom (); (match !cur_inv with
      | Some (k, n, v, b) -> invs := (k, { inv_name = n; inv_version = v; inv_base = b;
                                           inv_objects = List.rev !doms }) :: !invs
      | None -> ()); cur_inv := None; doms := [] in
  let rec go = function
    | "I" :: k :: n :: v :: b :: r ->
        close_inv (); cur_inv := Some (str_of_field k, str_of_field n, str_of_field v, ostr_of_field b); go r
    | "D" :: d :: r -> close_dom (); cur_dom := Some (str_of_field d); go r
    | "T" :: t :: r -> close_typ (); cur_typ := Some (str_of_field t); go r
    | "E" :: n :: l :: t :: r ->
        ents := (str_of_field n, { it_loc = str_of_field l; it_text = ostr_of_field t }) :: !ents; go r
    | [] -> close_inv ()
    | x :: _ -> failwith ("bad token " ^ x) in
  go toks; List.rev !invs

let handle (fs : string list) : string =
  match fs with
  | ["match"; name; pat] -> b2s (match_with_wildcard (str_of_field name) (ostr_of_field pat))
  | "filter" :: qi :: qd :: qo :: qt :: rest ->
      let invs = parse_invs rest in
      let ms = filter_inventories invs (ostr_of_field qi) (ostr_of_field qd)
                 (ostr_of_field qo) (ostr_of_field qt) in
      (match ms with [] -> "." | _ -> String.concat " " (List.map show_match ms))
  | "sfilter" :: qi :: qd :: qo :: qt :: rest ->
      let invs = List.map (fun (k, i) -> (k, to_sphinx i)) (parse_invs rest) in
      let ms = filter_sphinx_inventories invs (ostr_of_field qi) (ostr_of_field qd)
                 (ostr_of_field qo) (ostr_of_field qt) in
      (match ms with [] -> "." | _ -> String.concat " " (List.map show_match ms))
  | "invlink" :: explicit :: qi :: qd :: qo :: qt :: rest ->
      (* the whole decision: filter, then render_link_inventory on the match list *)
      let invs = parse_invs rest in
      let ms = filter_inventories invs (ostr_of_field qi) (ostr_of_field qd)
                 (ostr_of_field qo) (ostr_of_field qt) in
      (match render_link_inventory (explicit = "1") ms with
       | LR_missing -> "missing"
       | LR_ref (amb, r) ->
           (if amb then "ambiguous " else "one ") ^ field_of_str r.r_refuri ^ " " ^
           (match r.r_text with
            | RT_children -> "children"
            | RT_text t -> "text:" ^ field_of_str t
            | RT_literal t -> "literal:" ^ field_of_str t))
  | _ -> "!badcmd"

let () = main handle
