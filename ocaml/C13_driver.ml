open Model
open Io

(* ---- numbers *)
let z_of_int (i : int) : z =
  if i = 0 then Z0 else if i > 0 then Zpos (pos_of_int i) else Zneg (pos_of_int (- i))
let int_of_z (x : z) : int =
  match x with Z0 -> 0 | Zpos p -> int_of_pos p | Zneg p -> - (int_of_pos p)

(* ---- jv wire format: prefix tokens separated by spaces (see gen/c13_values.py) *)
let rest (t : string) = String.sub t 1 (String.length t - 1)

let rec parse_jv (toks : string list) : jv * string list =
  match toks with
  | [] -> failwith "jv: empty"
  | t :: r ->
    let k = t.[0] in
    let rec many n r acc = if n = 0 then (List.rev acc, r) else
        let (v, r') = parse_jv r in many (n - 1) r' (v :: acc) in
    (match k with
     | 'N' -> (JNull, r)
     | 'T' -> (JBool true, r)
     | 'F' -> (JBool false, r)
     | 'I' -> (JInt (z_of_int (int_of_string (rest t))), r)
     | 'R' -> (match String.split_on_char ':' (rest t) with
         | [a; b] -> (JFloat (z_of_int (int_of_string a), b = "1"), r)
         | _ -> failwith "jv: float")
     | 'S' -> (JStr (str_of_field (rest t)), r)
     | 'C' -> (JCallable (str_of_field (rest t)), r)
     | 'O' -> (JOpaque (str_of_field (rest t)), r)
     | 'L' -> let (l, r') = many (int_of_string (rest t)) r [] in (JList l, r')
     | 'U' -> let (l, r') = many (int_of_string (rest t)) r [] in (JTuple l, r')
     | 'E' -> let (l, r') = many (int_of_string (rest t)) r [] in (JSet l, r')
     | 'D' ->
       let n = int_of_string (rest t) in
       let rec pairs n r acc = if n = 0 then (List.rev acc, r) else
           let (a, r1) = parse_jv r in let (b, r2) = parse_jv r1 in pairs (n - 1) r2 ((a, b) :: acc) in
       let (l, r') = pairs n r [] in (JDict l, r')
     | _ -> failwith ("jv: bad token " ^ t))

let jv_of_field (f : string) : jv =
  let (v, r) = parse_jv (List.filter (fun s -> s <> "") (String.split_on_char ' ' f)) in
  if r <> [] then failwith "jv: trailing tokens" else v

let rec show_jv (v : jv) : string =
  match v with
  | JNull -> "N"
  | JBool true -> "T"
  | JBool false -> "F"
  | JInt x -> "I" ^ string_of_int (int_of_z x)
  | JFloat (x, fr) -> "R" ^ string_of_int (int_of_z x) ^ ":" ^ (if fr then "1" else "0")
  | JStr s -> "S" ^ field_of_str s
  | JCallable s -> "C" ^ field_of_str s
  | JOpaque s -> "O" ^ field_of_str s
  | JList l -> String.concat " " (("L" ^ string_of_int (List.length l)) :: List.map show_jv l)
  | JTuple l -> String.concat " " (("U" ^ string_of_int (List.length l)) :: List.map show_jv l)
  | JSet l -> String.concat " " (("E" ^ string_of_int (List.length l)) :: List.map show_jv l)
  | JDict l -> String.concat " " (("D" ^ string_of_int (List.length l)) ::
                                  List.map (fun (a, b) -> show_jv a ^ " " ^ show_jv b) l)

let show_exn (e : exn) : string =
  match e with
  | TypeError -> "!TypeError" | ValueError -> "!ValueError" | KeyError -> "!KeyError"
  | AssertionError -> "!AssertionError" | AttributeError -> "!AttributeError"
  | IndexError -> "!IndexError" | OverflowError -> "!OverflowError" | MarkupError -> "!MarkupError"
  | OutOfFuel -> "!OutOfFuel" | TokenizeError _ -> "!TokenizeError"

let show_cfg (c : (n list * jv) list) : string =
  String.concat ";" (List.map (fun (k, v) -> field_of_str k ^ "=" ^ show_jv v) c)

let show_res_cfg = function Ok c -> "ok " ^ show_cfg c | Raise e -> show_exn e

(* kwargs: "name=jv;name=jv" ("." = none) *)
let parse_kwargs (f : string) : (n list * jv) list =
  if f = "." then [] else
    List.map (fun kv ->
        match String.index_opt kv '=' with
        | Some i -> (str_of_field (String.sub kv 0 i), jv_of_field (String.sub kv (i + 1) (String.length kv - i - 1)))
        | None -> failwith "kwargs") (String.split_on_char ';' f)

(* import table: "name=kind;..." kinds: c<qualname> (callable), o<name> (other object), m (ImportError),
   a (AttributeError), v (ValueError) *)
let parse_imports (f : string) : (n list -> import_result) =
  let tbl = if f = "." then [] else
      List.map (fun kv ->
          match String.index_opt kv '=' with
          | Some i ->
            let name = str_of_field (String.sub kv 0 i) in
            let k = String.sub kv (i + 1) (String.length kv - i - 1) in
            (name, (match k.[0] with
                 | 'c' -> ImpOk (JCallable (str_of_field (rest k)))
                 | 'o' -> ImpOk (JOpaque (str_of_field (rest k)))
                 | 'm' -> ImpImportError
                 | 'a' -> ImpAttributeError
                 | _ -> ImpValueError))
          | None -> failwith "imports") (String.split_on_char ';' f) in
  fun s -> (try List.assoc s tbl with Not_found -> ImpImportError)

let env_of (imports : string) : env = { e_known_ext = known_extensions; e_import = parse_imports imports }

let show_warning (w : warning) : string =
  match w with
  | WNotDict -> "N"
  | WDeprecatedHtmlMeta -> "H"
  | WDeprecatedSubstitutions -> "B"
  | WUnknownField k -> "U"
  | WInvalid n -> "V" ^ field_of_str n

let yaml_of (f : string) : jv res = if f = "!" then Raise ValueError else Ok (jv_of_field f)

let handle (fs : string list) : string =
  match fs with
  | ["validate"; imp; field; v] ->
    (match cfg_get (str_of_field field) (List.map (fun f -> (f.f_name, JNull)) Model.fields) with
     | None -> "!nofield"
     | Some _ ->
       let f = List.find (fun f -> f.f_name = str_of_field field) Model.fields in
       (match validate (env_of imp) f.f_val (jv_of_field v) with
        | Ok None -> "ok ~"
        | Ok (Some c) -> "ok " ^ show_jv c
        | Raise e -> show_exn e))
  | ["ctor"; imp; kw] -> show_res_cfg (mk_config (env_of imp) Model.fields (parse_kwargs kw))
  | ["copy"; imp; base; kw] ->
    (match mk_config (env_of imp) Model.fields (parse_kwargs base) with
     | Raise e -> "!base" ^ show_exn e
     | Ok c -> show_res_cfg (copy (env_of imp) Model.fields c (parse_kwargs kw)))
  | ["merge"; imp; base; top; raw] ->
    (match mk_config (env_of imp) Model.fields (parse_kwargs base) with
     | Raise e -> "!base" ^ show_exn e
     | Ok c ->
       (match merge_file_level_gen (env_of imp) (raw = "1") Model.fields c (jv_of_field top) with
        | Raise e -> show_exn e
        | Ok st -> "ok " ^ show_cfg st.st_new ^ " # " ^ (if st.st_global = c then "same" else "CHANGED") ^ " # " ^
                   (match st.st_warn with [] -> "." | ws -> String.concat "/" (List.map show_warning ws))))
  | ["docutils"; imp; field; s; y] ->
    let opts = [((str_of_field field, str_of_field s), yaml_of y)] in
    (match decode_options optparse_rules Model.fields opts with
     | Raise _ -> "!opt"                    (* the option parser exits with an error *)
     | Ok _ -> show_res_cfg (docutils_config (env_of imp) optparse_rules Model.fields opts))
  | ["sphinx"; imp; conf] -> show_res_cfg (sphinx_config (env_of imp) Model.fields (parse_kwargs conf))
  | ["shares"; imp; base; kw] ->
    (* fields of base.copy( **kw) whose mutable container is the very object held by base *)
    (match mk_config (env_of imp) Model.fields (parse_kwargs base) with
     | Raise e -> "!base" ^ show_exn e
     | Ok c ->
       (match copy_o (env_of imp) Model.fields c (parse_kwargs kw) with
        | Raise e -> show_exn e
        | Ok r -> "ok " ^ String.concat ";" (List.filter_map (fun f ->
            if shares_field f.f_name r then Some (field_of_str f.f_name) else None) Model.fields)))
  | ["mdparser"; imp; kw; hl] ->
    (* the abstract description of the parser that create_md_parser builds for MdParserConfig( **kw) *)
    (match mk_config (env_of imp) Model.fields (parse_kwargs kw) with
     | Raise e -> show_exn e
     | Ok c ->
       let d = create_md_parser_src (hl = "1") c in
       let opts o = String.concat "," (List.map (fun (k, v) -> field_of_str k ^ "=" ^ show_jv v) o) in
       let step = function
         | PEnable r -> "enable(" ^ field_of_str r ^ ")"
         | PDisable r -> "disable(" ^ show_jv r ^ ")"
         | PUse (p, o) -> "use(" ^ field_of_str p ^ ":" ^ opts o ^ ")"
         | PLinkifySet o -> "linkify.set(" ^ opts o ^ ")" in
       "ok " ^ field_of_str d.pd_preset ^ " | " ^ String.concat " ; " (List.map step d.pd_steps) ^ " | " ^ opts d.pd_options)
  | ["reach"] ->
    (* rules of the option-string if-chain that decide no docutils-visible field; and per field its rule *)
    String.concat "," (List.map (fun i -> string_of_int (int_of_nat i)) (unused_rule_indices optparse_rules Model.fields))
    ^ " # " ^
    String.concat "," (List.map (fun f -> field_of_str f.f_name ^ ":" ^
                                          (if f.f_omit_docutils then "omit" else
                                             match rule_index optparse_rules f with
                                             | Some i -> string_of_int (int_of_nat i) | None -> "none")) Model.fields)
  | _ -> "!badcmd"

let () = main handle
