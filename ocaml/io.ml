(* Shared glue for the model runners: conversions between OCaml ints/strings and the
   extracted binary numbers, field splitting.  Compiled after the extracted model.ml
   of each property ("open Model" gives the constructors XH/XO/XI, N0/Npos). *)
open Model

let rec pos_of_int (i : int) : positive =
  if i <= 1 then XH
  else if i land 1 = 0 then XO (pos_of_int (i lsr 1))
  else XI (pos_of_int (i lsr 1))

let n_of_int (i : int) : n = if i <= 0 then N0 else Npos (pos_of_int i)

let rec int_of_pos (p : positive) : int =
  match p with XH -> 1 | XO q -> 2 * int_of_pos q | XI q -> 2 * int_of_pos q + 1

let int_of_n (x : n) : int = match x with N0 -> 0 | Npos p -> int_of_pos p

let rec nat_of_int (i : int) : nat = if i <= 0 then O else S (nat_of_int (i - 1))
let rec int_of_nat (x : nat) : int = match x with O -> 0 | S y -> 1 + int_of_nat y

(* a string field is "-" for empty, else code points in decimal separated by ',' *)
let str_of_field (f : string) : n list =
  if f = "-" || f = "" then []
  else List.map (fun t -> n_of_int (int_of_string t)) (String.split_on_char ',' f)

let field_of_str (s : n list) : string =
  match s with
  | [] -> "-"
  | _ -> String.concat "," (List.map (fun c -> string_of_int (int_of_n c)) s)

(* optional string: "~" = None *)
let ostr_of_field (f : string) : n list option =
  if f = "~" then None else Some (str_of_field f)

let field_of_ostr (o : n list option) : string =
  match o with None -> "~" | Some s -> field_of_str s

(* list of strings: fields joined by ';' ; "." for empty list *)
let strs_of_field (f : string) : n list list =
  if f = "." then [] else List.map str_of_field (String.split_on_char ';' f)

let field_of_strs (l : n list list) : string =
  match l with [] -> "." | _ -> String.concat ";" (List.map field_of_str l)

let fields (line : string) : string list = String.split_on_char '\t' line

let main (handle : string list -> string) : unit =
  (try
     while true do
       let line = input_line stdin in
       let out = (try handle (fields line) with
                  | Stack_overflow -> "!stack_overflow"
                  | Failure m -> "!failure " ^ m
                  | Not_found -> "!not_found"
                  | Invalid_argument m -> "!invalid " ^ m) in
       print_string out; print_char '\n'
     done
   with End_of_file -> ());
  flush stdout
