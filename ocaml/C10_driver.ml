open Model
open Io

(* headings:  "."  |  h;h;...   h = <level>/<child>+<child>...   child = <T|C|O>=<code points> *)
let parse_child (s : string) : ttype * n list =
  let ty = match s.[0] with 'T' -> TText | 'C' -> TCodeInline | _ -> TOther in
  (ty, str_of_field (String.sub s 2 (String.length s - 2)))

let parse_heading (s : string) : heading =
  match String.index_opt s '/' with
  | None -> failwith "bad heading"
  | Some k ->
      let lvl = int_of_string (String.sub s 0 k) in
      let rest = String.sub s (k + 1) (String.length s - k - 1) in
      let ch = if rest = "" then [] else List.map parse_child (String.split_on_char '+' rest) in
      { h_level = nat_of_int lvl; h_children = ch }

let parse_headings (s : string) : heading list =
  if s = "." then [] else List.map parse_heading (String.split_on_char ';' s)

let default_f (t : n list) : n list res = Ok (default_slugify py_lower py_is_word render_class t)
let plugin_f (t : n list) : n list = plugin_slugify py_lower py_is_space py_is_word plugin_class t

let c_b = n_of_int 98
let slug_func (name : string) : n list -> n list res =
  match name with
  | "default" -> default_f
  | "rev" -> (fun t -> Ok (rev t))
  | "const" -> (fun _ -> Ok [n_of_int 120])
  | "raiseb" -> (fun t -> if List.exists (fun c -> c = c_b) t then Raise ValueError else Ok t)
  | _ -> failwith "bad slug function"

let supported (hs : heading list) : bool =
  List.for_all (fun h -> py_supported (inline_title h.h_children)) hs

let show_out = function
  | SlugNone -> "N"
  | SlugWarn -> "W"
  | SlugOk s -> "=" ^ field_of_str s

let handle (fs : string list) : string =
  match fs with
  | ["render"; depth; func; hs] ->
      let hs = parse_headings hs in
      if func = "default" && not (supported hs) then "!unsupported" else
      let (outs, d) = render_slugs (nat_of_int (int_of_string depth)) (slug_func func) hs in
      let o = (match outs with [] -> "." | _ -> String.concat ";" (List.map show_out outs)) in
      let dd = (match d with [] -> "." | _ ->
        String.concat ";" (List.map (fun (k, v) -> field_of_str k ^ ":" ^ string_of_int (int_of_nat v)) d)) in
      o ^ "\t" ^ dd
  | ["cli"; level; hs] ->
      let hs = parse_headings hs in
      if not (supported hs) then "!unsupported" else
      (match print_anchors (nat_of_int (int_of_string level)) plugin_f hs with
       | Raise _ -> "!OutOfFuel"
       | Ok [] -> "."
       | Ok l -> String.concat ";" (List.map (fun (lv, id) ->
                   string_of_int (int_of_nat lv) ^ ":" ^ field_of_ostr id) l))
  | ["slugify"; which; title] ->
      let t = str_of_field title in
      if not (py_supported t) then "!unsupported" else
      (match which with
       | "render" -> (match default_f t with Ok s -> field_of_str s | Raise _ -> "!raise")
       | "plugin" -> field_of_str (plugin_f t)
       | _ -> "!badcmd")
  | ["setid"; nodes] ->
      (* nodes: base|tag;base|tag;...  (make_id(name), make_id(tagname)) *)
      let ns = if nodes = "." then [] else
        List.map (fun x -> match String.split_on_char '|' x with
                           | [b; t] -> (str_of_field b, str_of_field t)
                           | _ -> failwith "bad node") (String.split_on_char ';' nodes) in
      (match assign_ids ns [] [] with
       | Raise _ -> "!OutOfFuel"
       | Ok l -> field_of_strs l)
  | _ -> "!badcmd"

let () = main handle
