open Model
open Io

let b2s b = if b then "1" else "0"

let show_out (o : wout) : string =
  String.concat "|" [field_of_str o.wo_type; field_of_str o.wo_sub; field_of_str o.wo_msg]

let show_oout = function None -> "~" | Some o -> show_out o

let show_node = function
  | TSys o -> "S|" ^ show_out o
  | TOther x -> "O|" ^ field_of_str x
  | TRef (t, m, f, _) -> "R|" ^ field_of_ostr t ^ "|" ^ (match m with None -> "~" | Some o -> "[" ^ show_out o ^ "]") ^ "|" ^ field_of_ostr f

let fe_of = function "D" -> Docutils | "S" -> Sphinx | x -> failwith ("bad frontend " ^ x)

let rec parse_items (fs : string list) : item list =
  match fs with
  | [] -> []
  | "W" :: wt :: sub :: msg :: placed :: r ->
      IWarn { we_wtype = ostr_of_field wt; we_sub = str_of_field sub; we_msg = str_of_field msg;
              we_placed = (placed = "1") } :: parse_items r
  | "O" :: x :: r -> IOther (str_of_field x) :: parse_items r
  | "X" :: wt :: sub :: msg :: text :: target :: r ->
      IXrefMissing ({ we_wtype = ostr_of_field wt; we_sub = str_of_field sub; we_msg = str_of_field msg;
                      we_placed = true }, ostr_of_field text, str_of_field target) :: parse_items r
  | x :: _ -> failwith ("bad item " ^ x)

let show_result ((log, tree) : wout list * tnode list) : string =
  (match log with [] -> "." | _ -> String.concat " " (List.map show_out log)) ^ " # " ^
  (match tree with [] -> "." | _ -> String.concat " " (List.map show_node tree))

let handle (fs : string list) : string =
  match fs with
  | ["sup"; ty; sub; sl] ->
      let t = ostr_of_field ty and s = str_of_field sub and l = strs_of_field sl in
      b2s (is_suppressed t s l) ^ b2s (sphinx_is_suppressed t s l)
  | "run" :: fe :: sl :: items ->
      show_result (run (fe_of fe) (strs_of_field sl) (parse_items items))
  | "strip" :: fe :: sl :: items ->
      show_result (strip (strs_of_field sl) (run (fe_of fe) [] (parse_items items)))
  | _ -> "!badcmd"

let () = main handle
