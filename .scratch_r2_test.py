import sys, json
sys.path[:0]=['/verif','/repo']
from lib import common
for pid in ("C02",):
    r = common.build_runner(pid)
    print("runner", pid, r if not isinstance(r, tuple) else r[:1])
from gen import c02_model as M
from gen import c02_lib as L
cases=[]
texts=["# T\n\n```{note}\nhello *w*\n```\n\n{abbr}`x (y)` and {sub}`q`\n\n:::{tip}\nyo\n:::\n",
       "```{image} a.png\n:alt: x\n```\n\ntext {code}`a b`\n",
       "```{code-block} python\nx=1\n```\n",
       "---\na: b\n---\n\n# h\n\n{{ x }} and\n\n{{ x }}\n",
       "[a](index#x) <path:nofile.txt> <path:index.md> [b](index.md#q)\n",
       "[](#1){#1} [^1]\n\n> $$a$$ (1)\n",
       ]
for t in texts:
    for be in ("docutils","sphinx"):
        cases.append({"text":t,"mode":"myst","exts":list(L.STATIC_EXTS)+["colon_fence","substitution"],"backend":be,"kw":{}})
for stage in ("parse","xform"):
    res=M.correspond("C02",cases,stage)
    for c,r in zip(cases,res):
        print(stage,c["backend"],repr(c["text"][:30]),{k:v for k,v in r.items() if k!="oracle_tests"})
st=M.statement_check("C02",cases)
for c,r in zip(cases,st): print(c["backend"],repr(c["text"][:30]),r)
