import sys, json, random
sys.path[:0]=['/verif','/repo']
from gen import c02_lib as L
doc,w=L.docutils_parse("---\nsubstitutions:\n  key: \"val *x*\"\n---\n\n{{ key }}\n","myst",["substitution"])
print(doc.pformat()); print(w)
