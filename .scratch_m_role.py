import os
p=os.environ['MUTDIR']+'/myst_parser/mdit_to_docutils/base.py'
s=open(p).read(); old="        self.current_node += _nodes + messages2\n"; assert old in s
open(p,'w').write(s.replace(old,"        self.current_node += messages2 + _nodes + [n.deepcopy() for n in _nodes]\n"))
