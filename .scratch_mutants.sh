#!/bin/bash
# mutants for round 2 (scratch copy of /repo); prints one line per mutant
cd /verif
run() {  # name property
  out=$(VERIF_REPO=/verif/.scratch-mut ./check $2 2>&1)
  rc=$?
  line=$(echo "$out" | grep -m1 "^VIOLATION" | cut -c1-160)
  tie=$(echo "$out" | grep -m1 "tie-break" | cut -c1-260)
  echo "MUTANT $1 [$2] exit=$rc :: $line :: $tie"
}
fresh() { rm -rf /verif/.scratch-mut; cp -r /repo /verif/.scratch-mut; }
B=/verif/.scratch-mut/myst_parser/mdit_to_docutils/base.py
S=/verif/.scratch-mut/myst_parser/mdit_to_docutils/sphinx_.py
T=/verif/.scratch-mut/myst_parser/mdit_to_docutils/transforms.py
R=/verif/.scratch-mut/myst_parser/sphinx_ext/myst_refs.py

fresh; python3 - <<'P'
p='/verif/.scratch-mut/myst_parser/mdit_to_docutils/base.py'
s=open(p).read()
old="        self.current_node += nodes_list\n"
assert old in s
s=s.replace(old,"        self.current_node += nodes_list\n        self.current_node += [n.deepcopy() for n in nodes_list]\n")
open(p,'w').write(s)
P
run directive-output-twice C02

fresh; python3 - <<'P'
p='/verif/.scratch-mut/myst_parser/mdit_to_docutils/base.py'
s=open(p).read()
old="        self.current_node += nodes_list\n"
s=s.replace(old,"        self.current_node.insert(0, nodes_list)\n")
open(p,'w').write(s)
P
run directive-output-at-front C02

fresh; python3 - <<'P'
p='/verif/.scratch-mut/myst_parser/mdit_to_docutils/base.py'
s=open(p).read()
old="        self.current_node += _nodes + messages2\n"
assert old in s
s=s.replace(old,"        self.current_node += messages2 + _nodes + [n.deepcopy() for n in _nodes]\n")
open(p,'w').write(s)
P
run role-output-twice C02

fresh; python3 - <<'P'
p='/verif/.scratch-mut/myst_parser/mdit_to_docutils/sphinx_.py'
s=open(p).read()
old="        elif path_id is not None and ("
assert old in s
s=s.replace(old,"        elif False and path_id is not None and (")
open(p,'w').write(s)
P
run sphinx-docname-join-branch-off C02

fresh; (cd /verif/.scratch-mut && git revert --no-edit 21b92da >/dev/null 2>&1 || git checkout 21b92da^ -- myst_parser/mdit_to_docutils/base.py)
run revert-footnote-fix C02

fresh; (cd /verif/.scratch-mut && git checkout 027ec44^ -- myst_parser/sphinx_ext/myst_refs.py)
run revert-xref-id-fix C03

fresh; python3 - <<'P'
p='/verif/.scratch-mut/myst_parser/mdit_to_docutils/transforms.py'
s=open(p).read()
old='                or (isinstance(node, nodes.target) and "refuri" in node)\n'
assert old in s
s=s.replace(old,'                or "refuri" in node\n')
open(p,'w').write(s)
P
run anchors-skip-any-refuri C03

fresh; python3 - <<'P'
p='/verif/.scratch-mut/myst_parser/mdit_to_docutils/transforms.py'
s=open(p).read()
old='                refnode["refid"] = ref_id\n'
assert old in s
s=s.replace(old,'                refnode["refid"] = target\n',1)
open(p,'w').write(s)
P
run anchors-refid-is-name C03
rm -rf /verif/.scratch-mut
