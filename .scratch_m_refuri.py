import os
p=os.environ['MUTDIR']+'/myst_parser/mdit_to_docutils/transforms.py'
s=open(p).read(); old='                or (isinstance(node, nodes.target) and "refuri" in node)\n'; assert old in s
open(p,'w').write(s.replace(old,'                or "refuri" in node\n'))
