"""Model side of the C02/C03 correspondence: serialise a real markdown-it token tree for the extracted Coq
renderer (ocaml/C02_driver.ml), answer its oracle queries with the real library functions, decode its
doctree, and canonicalise a real docutils doctree to the same shape.

canonical node:  ("X", text)  |  ("E", tag, {attr: [str, ...]}, [children])
"""
from __future__ import annotations

import re

from lib.common import dec_str, dec_strs, enc_str, enc_strs, model_run_parallel

# attributes the model produces; everything else on a real node is ignored by the comparison
ATTR_WHITELIST = {
    "classes", "names", "dupnames", "ids", "bullet", "enumtype", "prefix", "suffix", "start", "format", "language",
    "level", "refuri", "refname", "refid", "id_link", "reftitle", "target", "rel", "uri", "alt", "title", "cols",
    "colwidth", "nowrap", "numbered", "label", "auto", "refdoc", "refdomain", "reftype", "reftarget", "reftargetid",
    "refexplicit", "backrefs",
}
UUID_RE = re.compile(r"[0-9a-f]{8}-[0-9a-f]{4}-[0-9a-f]{4}-[0-9a-f]{4}-[0-9a-f]{12}")
TAG_RE = re.compile(r"\[([a-z_]+\.[a-z_]+)\]\s*$")


def msg_tag(text: str) -> str:
    m = TAG_RE.search(text)
    if m:
        return m.group(1)
    if "Duplicate explicit target name" in text:
        return "docutils.duplicate-explicit-name"
    if "Duplicate implicit target name" in text:
        return "docutils.duplicate-implicit-name"
    if "Duplicate ID" in text:
        return "docutils.duplicate-id"
    if "Cannot analyze code" in text:
        return "docutils.lexer"
    if "Too many autonumbered footnote references" in text:
        return "docutils.too-many-autofootnote-refs"
    return "other:" + text[:40]


def _val(v):
    if isinstance(v, (list, tuple)):
        return [str(x) for x in v]
    return [str(v)]


def canon_node(n, backend="docutils"):
    """One real docutils node -> canonical tree."""
    return canon_doc(n, backend)


def enc_canon(t, out):
    """canonical tree -> the wire syntax of a node (allocation number 0)"""
    if t[0] == "X":
        out += ["X", "0", enc_str(t[1])]
        return
    out += ["E", "0", enc_str(t[1]), str(len(t[2]))]
    for k, vs in t[2].items():
        out += [enc_str(k), str(len(vs))] + [enc_str(v) for v in vs]
    out.append(str(len(t[3])))
    for c in t[3]:
        enc_canon(c, out)


def canon_doc(doc, backend="docutils"):
    """Real docutils document -> canonical tree."""
    from docutils import nodes
    uuids = {}

    def uu(s):
        def rep(m):
            return uuids.setdefault(m.group(0), "uuid-%d" % (len(uuids) + 1))
        return UUID_RE.sub(rep, s)

    def go(n):
        if isinstance(n, nodes.Text):
            return ("X", str(n))
        tag = n.tagname
        if tag == "system_message":
            return ("E", tag, {"level": [str(n["level"])], "msg": [msg_tag(n.astext())]}, [])
        a = {}
        for k, v in n.attributes.items():
            if k not in ATTR_WHITELIST:
                continue
            if isinstance(v, (list, tuple)) and not v:
                continue
            vv = _val(v)
            if backend == "sphinx":
                vv = [uu(x) for x in vv]
            a[k] = vv
        if tag == "document":
            a = {}
        return ("E", tag, a, [go(c) for c in n.children])

    return go(doc)


# ---------------------------------------------------------------- request encoding

def enc_tok(node, out):
    a = node.attrs or {}
    m = node.meta or {}
    out += [enc_str(node.type), enc_str(node.tag or ""), str(len(a))]
    for k, v in a.items():
        out += [enc_str(str(k)), enc_str(str(v))]
    out += [enc_str(node.content or ""), enc_str(node.markup or ""), enc_str(node.info or ""), str(len(m))]
    for k, v in m.items():
        out += [enc_str(str(k)), enc_str(str(v))]
    mp = node.map
    out.append("~" if not mp else "%d,%d" % (mp[0], mp[1]))
    ch = node.children or []
    out.append(str(len(ch)))
    for c in ch:
        enc_tok(c, out)


def enc_tokens(root):
    out = ["T", str(len(root.children))]
    for c in root.children:
        enc_tok(c, out)
    return out


def enc_tables(tb):
    out = ["O", str(len(tb))]
    for (name, key), val in tb.items():
        if name == "split":
            out += ["split", enc_str(key), enc_strs(val)]
        elif name == "isdigit":
            out += ["isdigit", enc_str(key), "1" if val else "0"]
        elif name == "lex":
            out += ["lex", enc_str(key[0]), enc_str(key[1])]
            if val is None:
                out.append("!")
            else:
                out.append(str(len(val)))
                for cls, v in val:
                    out += [enc_strs(cls), enc_str(v)]
        elif name == "split1":
            out += ["split1", enc_str(key), enc_strs(val)]
        elif name == "acc":
            out += ["acc", enc_str(key), "1" if val else "0"]
        elif name == "dj":
            out += ["dj", enc_str(key)] + (["~"] if val is None else ["D", enc_str(val)])
        elif name == "dyn":
            out += ["dyn", enc_strs(list(key))]
            if val is None:
                out.append("~")
            else:
                nodes, wtags = val
                out += ["N", str(len(nodes))]
                for n in nodes:
                    enc_canon(n, out)
                out.append(enc_strs(wtags))
        elif name == "p2r":
            out += ["p2r", enc_str(key)] + (["~"] if val is None else ["D", enc_str(val)])
        elif name == "p2d":
            out += ["p2d", enc_str(key)]
            if val is None:
                out.append("~")
            elif val == "":
                out.append("F")
            else:
                out += ["D", enc_str(val)]
        else:
            out += [name, enc_str(key), enc_str(val)]
    return out


DEFAULT_SCHEMES = ("http", "https", "mailto", "ftp")


def cfg_fields(case, dup_refs=0):
    """case: {"backend","mode","exts","kw"} -> the fixed request fields."""
    be = "S" if case.get("backend") == "sphinx" else "D"
    mode = {"commonmark": "C", "gfm": "G", "myst": "M"}[case.get("mode", "myst")]
    kw = case.get("kw") or {}
    exts = set(case.get("exts") or ()) if mode == "M" else set()
    flags = [
        bool(kw.get("all_links_external", False)),
        bool(kw.get("highlight_code_blocks", True)),
        be == "S" and "dollarmath" in exts and bool(kw.get("update_mathjax", True)),
        bool({"html_image", "html_admonition"} & exts),
        bool(kw.get("footnote_sort", True)),
        bool(kw.get("footnote_transition", True)),
    ]
    schemes = kw.get("url_schemes", DEFAULT_SCHEMES)
    return [be, mode, "".join("1" if f else "0" for f in flags), enc_strs(list(schemes)),
            enc_str("default"), enc_str("id" if be == "S" else "%"), str(dup_refs)]


def static_config(case):
    """True when the configuration is inside what the model's cfg record can express."""
    kw = case.get("kw") or {}
    allowed = {"all_links_external", "highlight_code_blocks", "footnote_sort", "footnote_transition", "update_mathjax"}
    return set(kw) <= allowed


# ---------------------------------------------------------------- oracle answers (the real library functions)

def _abs_path(env, key):
    try:
        return env.relfn2path(key, "index")[1]
    except ValueError:
        return None


def oracle_value(name, key, backend, dyn=None):
    if name == "split":
        return key.split()
    if name == "split1":
        return key.split(maxsplit=1)
    if name == "dyn":
        # the recorded result of the real run (gen.c02_lib.record_dynamic); unknown key = not answerable
        rec = (dyn or {}).get(tuple(key))
        if rec is None:
            return None
        nodes, wtext = rec
        return (nodes, MYST_TAG.findall(wtext))
    if name == "acc":
        import os
        from gen.c02_lib import SphinxDriver
        p = _abs_path(SphinxDriver.get().app.env, key)
        return bool(p is not None and os.access(p, os.R_OK))
    if name == "dj":
        from sphinx.util import docname_join
        from gen.c02_lib import SphinxDriver
        env = SphinxDriver.get().app.env
        d = docname_join("index", key)
        return d if d in env.found_docs else None
    if name == "strip":
        return key.strip()
    if name == "norm":
        from docutils import nodes
        return nodes.fully_normalize_name(key)
    if name == "mkid":
        from docutils import nodes
        return nodes.make_id(key)
    if name == "isdigit":
        return key.isdigit()
    if name == "nlt":
        from markdown_it.common.normalize_url import normalizeLinkText
        return normalizeLinkText(key)
    if name == "nl":
        from markdown_it.common.normalize_url import normalizeLink
        return normalizeLink(key)
    if name == "gfm":
        from myst_parser.mdit_to_docutils.html_to_nodes import RE_FLOW
        return RE_FLOW.subn(lambda s: s.group(0).replace("<", "&lt;"), key)[0]
    if name == "lex":
        from docutils.utils.code_analyzer import Lexer, LexerError
        lang, text = key
        try:
            return [(list(c), v) for c, v in Lexer(text, lang, "short")]
        except LexerError:
            return None
    if name == "p2r":
        from gen.c02_lib import SphinxDriver
        env = SphinxDriver.get().app.env
        p = _abs_path(env, key)
        return (env.path2doc(p) or None) if p else None
    if name == "p2d":
        from pathlib import Path
        from gen.c02_lib import SphinxDriver
        env = SphinxDriver.get().app.env
        p = _abs_path(env, key)
        try:
            isf = p is not None and Path(p).is_file()
        except (OSError, ValueError):
            isf = False
        if not isf:
            return None
        return env.path2doc(str(p)) or ""
    raise KeyError(name)


def parse_miss(item):
    name, _, rest = item.partition(":")
    if name == "lex":
        l, _, t = rest.partition(":")
        return name, (dec_str(l), dec_str(t))
    if name == "dyn":
        return name, tuple(dec_strs(rest))
    return name, dec_str(rest)


# ---------------------------------------------------------------- reply decoding

def dec_reply(line):
    """-> ("ok", tree, warnings) | ("err", text)"""
    if line.startswith("!"):
        return ("err", line)
    tree_s, _, warn_s = line.rpartition(" | ")
    toks = tree_s.split(" ")
    pos = 0

    def node():
        nonlocal pos
        k = toks[pos]
        if k == "X":
            s = dec_str(toks[pos + 2])
            pos += 3
            return ("X", s)
        tag = dec_str(toks[pos + 2])
        na = int(toks[pos + 3])
        pos += 4
        a = {}
        for _ in range(na):
            key = dec_str(toks[pos])
            nv = int(toks[pos + 1])
            a[key] = [dec_str(x) for x in toks[pos + 2:pos + 2 + nv]]
            pos += 2 + nv
        nc = int(toks[pos])
        pos += 1
        cs = [node() for _ in range(nc)]
        return ("E", tag, a, cs)

    t = node()
    return ("ok", t, dec_strs(warn_s))


def oids_of_reply(line):
    """allocation numbers in the model's reply, in document order (for the occurs-once sanity check)."""
    tree_s = line.rpartition(" | ")[0].split(" ")
    out = []
    for i, x in enumerate(tree_s):
        if x in ("E", "X") and i + 1 < len(tree_s) and tree_s[i + 1].isdigit():
            out.append(int(tree_s[i + 1]))
    return out


def model_render(pid, cmd, items, max_rounds=12):
    """items: list of (case, root SyntaxTreeNode, dup_refs).  Runs the extracted model, answering oracle queries
    from the real libraries until none is missing.  Returns (list of reply lines, number of oracle answers)."""
    n = len(items)
    tables = [dict() for _ in range(n)]
    fixed = [None] * n
    toks = [None] * n
    dyns = [None] * n
    for i, it in enumerate(items):
        case, root, dup = it[:3]
        dyns[i] = it[3] if len(it) > 3 else None
        fixed[i] = cfg_fields(case, dup)
        toks[i] = enc_tokens(root)
    replies = [None] * n
    todo = list(range(n))
    n_or = 0
    for _ in range(max_rounds):
        if not todo:
            break
        lines = ["\t".join([cmd] + fixed[i] + enc_tables(tables[i]) + toks[i]) for i in todo]
        outs = model_run_parallel(pid, lines)
        nxt = []
        for i, o in zip(todo, outs):
            if o.startswith("!miss "):
                be = "sphinx" if fixed[i][0] == "S" else "docutils"
                for item in o[6:].split(" "):
                    name, key = parse_miss(item)
                    tables[i][(name, key)] = oracle_value(name, key, be, dyns[i])
                    n_or += 1
                nxt.append(i)
            else:
                replies[i] = o
        todo = nxt
    for i in todo:
        replies[i] = "!oracle-loop"
    model_render.last_tables = tables
    return replies, n_or


# ---------------------------------------------------------------- comparison

def first_diff(a, b, path="/"):
    """first difference between two canonical trees, or None"""
    if a[0] != b[0]:
        return path, a[:2], b[:2]
    if a[0] == "X":
        return None if a[1] == b[1] else (path + "#text", a[1], b[1])
    if a[1] != b[1]:
        return path, "tag " + a[1], "tag " + b[1]
    here = path + a[1]
    if a[2] != b[2]:
        ks = sorted(set(a[2]) | set(b[2]))
        d = [(k, a[2].get(k), b[2].get(k)) for k in ks if a[2].get(k) != b[2].get(k)]
        return here + "@" + d[0][0], d[0][1], d[0][2]
    for i, (x, y) in enumerate(zip(a[3], b[3])):
        d = first_diff(x, y, "%s[%d]/" % (here, i))
        if d:
            return d
    if len(a[3]) != len(b[3]):
        return here + "#children", [c[:2] for c in a[3]], [c[:2] for c in b[3]]
    return None


MYST_TAG = re.compile(r"\[((?:myst|ref)\.[a-z_]+)\]")


def impl_warning_tags(text):
    """sorted MyST-typed warning tags of a docutils / sphinx warning stream"""
    return sorted(MYST_TAG.findall(text))


def model_warning_tags(ws):
    return sorted(w for w in ws if w.startswith(("myst.", "ref.")))


# ---------------------------------------------------------------- correspondence on a batch of cases

def impl_parse(case, stage="parse"):
    """Run the implementation. Returns (doc, warning_text, tokens_seen_by_renderer) or raises."""
    from gen import c02_lib as L
    text, mode, exts = case["text"], case.get("mode", "myst"), list(case.get("exts") or ())
    kw = dict(case.get("kw") or {})
    with L.capture_tokens() as cap, L.record_dynamic(canon_node) as rec:
        if case.get("backend") == "sphinx":
            cfg = L.make_config(mode, exts, **kw)
            doc, w = L.SphinxDriver.get().parse(text, cfg)
        else:
            doc, w = L.docutils_parse(text, mode, exts, **kw)
        if stage == "xform":
            L.apply_myst_transforms(doc)
            if case.get("backend") == "sphinx":
                w = L.SphinxDriver.get().warnings_text()
            else:
                w = doc.settings.warning_stream.getvalue()
    impl_parse.last_dynamic = rec.records
    impl_parse.last_violations = list(rec.violations)
    return doc, w, cap.tokens


DYNAMIC_TYPES = {"colon_fence", "myst_role", "substitution_inline", "substitution_block", "front_matter"}


def has_dynamic(root):
    """the token tree contains dynamic syntax (the model will ask the O_dyn oracle)"""
    for n in root.walk():
        if n.type in DYNAMIC_TYPES or (n.type == "fence" and (n.info or "").strip().startswith("{")):
            return True
    return False


def _strip_map(d):
    d = dict(d)
    d.pop("map", None)
    if d.get("children"):
        d["children"] = [_strip_map(c) for c in d["children"]]
    return d


def table_shape_ok(root):
    """O_table_shape: every body row of a markdown-it table has as many cells as the header row."""
    ok = True
    for n in root.walk():
        if n.type == "table" and n.children:
            head = n.children[0]
            ncols = len(head.children[0].children) if head.children else 0
            for sec in n.children:
                for row in sec.children or []:
                    if len(row.children or []) != ncols:
                        ok = False
    return ok


def statement_check(pid, cases):
    """Evaluate the STATEMENT of C02_faithful / C03_sections_ok / C03_rows_match_cols (extracted, executable) on real
    token trees: a counterexample search for the theorems.  Returns list of dicts {static, dropped, equal, sections,
    transitions, rows, lexer_ok} or None where the model does not render the case."""
    from gen import c02_lib as L
    items, idx, res = [], [], [None] * len(cases)
    for i, case in enumerate(cases):
        try:
            cfg = L.make_config(case.get("mode", "myst"), list(case.get("exts") or ()), **dict(case.get("kw") or {}))
            root, toks, env = L.token_tree(cfg, case["text"])
        except Exception:
            continue
        dyn = None
        if has_dynamic(root):
            try:
                impl_parse(case, "parse")
                dyn = impl_parse.last_dynamic
            except Exception:
                dyn = None
        items.append((case, root, len(env.get("duplicate_refs", [])), dyn))
        idx.append(i)
    replies, _ = model_render(pid, "skel", items) if items else ([], 0)
    tables = getattr(model_render, "last_tables", [])
    strip1 = lambda x: x[:-1] if x.endswith("\n") else x   # noqa: E731
    for j, i in enumerate(idx):
        r = replies[j]
        if not r.startswith("S "):
            continue
        b = [c == "1" for c in r[2:]]
        lex_ok = True
        for (name, key), val in (tables[j].items() if j < len(tables) else ()):
            if name == "lex" and val is not None and strip1("".join(v for _, v in val)) != strip1(key[1]):
                lex_ok = False
        res[i] = {"static": b[0], "dropped": b[1], "equal": b[2], "sections": b[3], "transitions": b[4], "rows": b[5],
                  "lexer_ok": lex_ok}
    return res


def correspond(pid, cases, stage="parse", check_tokens=False):
    """Model vs implementation on a batch. Returns list of dicts:
       {"status": agree|disagree|notmodelled|impl-exception|model-error, ..., "oracle_tests": {name: count}}"""
    from gen import c02_lib as L
    items, impl, res = [], [], [None] * len(cases)
    idx = []
    for i, case in enumerate(cases):
        try:
            cfg = L.make_config(case.get("mode", "myst"), list(case.get("exts") or ()), **dict(case.get("kw") or {}))
            root, toks, env = L.token_tree(cfg, case["text"])
        except Exception as e:
            res[i] = {"status": "impl-exception", "where": "markdown-it", "exc": type(e).__name__}
            continue
        try:
            doc, w, seen = impl_parse(case, stage)
        except Exception as e:
            res[i] = {"status": "impl-exception", "where": "render", "exc": type(e).__name__, "msg": str(e)[:200]}
            continue
        items.append((case, root, len(env.get("duplicate_refs", [])), impl_parse.last_dynamic))
        impl.append((doc, w, seen, toks, root, impl_parse.last_violations))
        idx.append(i)
    cmd = "render" if stage == "parse" else "xform"
    replies, n_or = model_render(pid, cmd, items) if items else ([], 0)
    tables = getattr(model_render, "last_tables", [])
    for j, i in enumerate(idx):
        case = cases[i]
        doc, w, seen, toks, root, viol = impl[j]
        ot = {}
        if viol:
            res[i] = {"status": "disagree", "what": "O_directive/O_role", "at": "render_directive / render_myst_role",
                      "impl": "the current node did not receive the run_directive / role result exactly once at its end, or the result is not a forest of fresh nodes (an object occurs twice / wrong parent): %r" % (viol[:2],),
                      "model": "self.current_node += nodes", "oracle_tests": ot}
            continue
        if check_tokens and seen is not None:
            # O_tree: the renderer received the token stream of the RendererHTML parser
            same = [_strip_map(t) for t in seen] == [_strip_map(t.as_dict()) for t in toks]
            ot["O_tree:" + ("same" if same else "DIFFERENT")] = 1
        ot["O_table_shape:" + ("ok" if table_shape_ok(root) else "VIOLATED")] = 1
        for (name, key), val in (tables[j].items() if j < len(tables) else ()):
            ot["answers:" + name] = ot.get("answers:" + name, 0) + 1
            if name == "lex" and val is not None:
                text = key[1]
                strip1 = lambda x: x[:-1] if x.endswith("\n") else x   # noqa: E731
                want = strip1(text)
                got = strip1("".join(v for _, v in val))
                ot["O_lexer_concat:" + ("ok" if got == want else "violated")] = \
                    ot.get("O_lexer_concat:" + ("ok" if got == want else "violated"), 0) + 1
        r = dec_reply(replies[j])
        if r[0] == "err":
            st = "notmodelled" if r[1] == "!notmodelled" else "model-error"
            res[i] = {"status": st, "model": r[1], "oracle_tests": ot}
            continue
        c = canon_doc(doc, case.get("backend", "docutils"))
        d = first_diff(c, r[1])
        wi, wm = impl_warning_tags(w), model_warning_tags(r[2])
        oids = oids_of_reply(replies[j])
        if ot.get("O_tree:DIFFERENT"):
            res[i] = {"status": "disagree", "what": "O_tree", "at": "tokens", "impl": "renderer tokens", "model": "RendererHTML tokens"}
        elif d:
            res[i] = {"status": "disagree", "what": "tree", "at": d[0], "impl": repr(d[1])[:300], "model": repr(d[2])[:300]}
        elif wi != wm:
            res[i] = {"status": "disagree", "what": "warnings", "at": "warnings", "impl": wi, "model": wm}
        elif len(set(oids)) != len(oids):
            res[i] = {"status": "disagree", "what": "model-oids", "at": "oids", "impl": "", "model": "duplicate allocation number"}
        else:
            res[i] = {"status": "agree", "nodes": len(oids)}
        res[i]["oracle_tests"] = ot
    return res


# ---------------------------------------------------------------- round 2: measured statements

def model_measure(pid, cmd, cases):
    """Evaluate an extracted check (driver commands total / xfchk / agree) on the real token trees of `cases`.
    Returns a list of dicts {"reply": str, "lexer_ok": bool} (None where markdown-it fails).  For `agree` the request is
    built for the Sphinx configuration and the O_dyn oracle holds the recorded runs of both back ends."""
    from gen import c02_lib as L
    items, idx, res = [], [], [None] * len(cases)
    for i, case in enumerate(cases):
        try:
            cfg = L.make_config(case.get("mode", "myst"), list(case.get("exts") or ()), **dict(case.get("kw") or {}))
            root, toks, env = L.token_tree(cfg, case["text"])
        except Exception:
            continue
        dyn = None
        if has_dynamic(root):
            dyn = {}
            for be in (("docutils", "sphinx") if cmd == "agree" else (case.get("backend", "docutils"),)):
                try:
                    impl_parse(dict(case, backend=be), "parse")
                    dyn.update(impl_parse.last_dynamic)
                except Exception:
                    pass
        c = dict(case, backend="sphinx") if cmd == "agree" else case
        items.append((c, root, len(env.get("duplicate_refs", [])), dyn))
        idx.append(i)
    replies, _ = model_render(pid, cmd, items) if items else ([], 0)
    tables = getattr(model_render, "last_tables", [])
    strip1 = lambda x: x[:-1] if x.endswith("\n") else x   # noqa: E731
    for j, i in enumerate(idx):
        lex_ok = True
        for (name, key), val in (tables[j].items() if j < len(tables) else ()):
            if name == "lex" and val is not None and strip1("".join(v for _, v in val)) != strip1(key[1]):
                lex_ok = False
        files = any(name in ("p2d", "dj", "p2r") and val is not None
                    for (name, key), val in (tables[j].items() if j < len(tables) else ()))
        res[i] = {"reply": replies[j], "lexer_ok": lex_ok, "no_files": not files}
    return res
