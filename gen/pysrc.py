"""A fail-closed walker from a restricted Python subset (methods with `self.` state, loops with
break / else, generators, fuel recursion) to Gallina in explicit state-passing style over the
exception monad `res`.  Shared by gen/c16_src.py and gen/c17_src.py; the *domain mapping* (which
Python expression is which Gallina primitive of coq/Html/SrcPrims.v) is supplied by the caller as
hook functions and is part of the trusted base.

Emitted shape: every statement becomes `do x <- e; K` / `let x := e in K`; the mutable state (`t` or
`st`) and the locals that a loop assigns are re-bound under their own names, so the Gallina text reads
like the Python text.  Anything not understood raises Untranslatable.
"""
from __future__ import annotations

import ast


class Untranslatable(Exception):
    pass


def bad(node, why=""):
    raise Untranslatable(f"line {getattr(node, 'lineno', '?')}: {why}: {ast.unparse(node)[:160] if isinstance(node, ast.AST) else node}")


def is_doc(s):
    return isinstance(s, ast.Expr) and isinstance(s.value, ast.Constant) and isinstance(s.value.value, str)


def assigned_names(stmts):
    """names assigned (Name targets) anywhere in the statements"""
    out = []
    for s in stmts:
        for n in ast.walk(s):
            if isinstance(n, (ast.Assign, ast.AugAssign, ast.AnnAssign)):
                tgts = n.targets if isinstance(n, ast.Assign) else [n.target]
                for t in tgts:
                    for x in ast.walk(t):
                        if isinstance(x, ast.Name) and x.id not in out:
                            out.append(x.id)
    return out


def own_break(stmts):
    """a `break` of this loop (not of a nested loop)"""
    for st in stmts:
        if isinstance(st, ast.Break):
            return True
        if isinstance(st, (ast.For, ast.While)):
            if own_break(st.orelse):
                return True
            continue
        for field in ("body", "orelse"):
            if own_break(getattr(st, field, []) or []):
                return True
    return False


class Fn:
    """Translation of one function body.

    hooks:
      expr(e, fn)  -> (binds: list[str], term: str)      value expressions (may read / allocate state)
      stmt(s, fn)  -> list[str] | None                    expression statements / special assignments
    `fn.state` is the name of the threaded state variable; `fn.gen` tells whether `yield` is allowed
    (generator: the output list is the local `__out`).
    """

    def __init__(self, node: ast.FunctionDef, state: str, expr, stmt, gen=False, ret_state=True, fuel=None, ret_type=None):
        self.node, self.state, self.expr_hook, self.stmt_hook = node, state, expr, stmt
        self.gen, self.ret_state, self.fuel = gen, ret_state, fuel
        self.ret_type = ret_type          # Coq type of the returned value: enables `return` inside a loop
        self.pure = False                 # pure function: `return e` is the bare term e
        self.extract = {}                 # loop variable -> name of a separate definition for the loop body
        self.extra_defs = []
        self.n = 0
        self.locals: list[str] = [a.arg for a in node.args.args if a.arg != "self"]

    def fresh(self, base="x"):
        self.n += 1
        return f"__{base}{self.n}"

    def expr(self, e):
        return self.expr_hook(e, self)

    # --- carried tuple of a loop: state + locals assigned in the loop that exist before it
    def carried(self, body):
        names = [n for n in assigned_names(body) if n in self.locals]
        if self.gen and any(isinstance(n, (ast.Yield, ast.YieldFrom)) for s in body for n in ast.walk(s)):
            names.append("__out")
        return [self.state] + names

    @staticmethod
    def tup(names):
        return names[0] if len(names) == 1 else "(" + ", ".join(names) + ")"

    @staticmethod
    def pat(names):
        return names[0] if len(names) == 1 else "'(" + ", ".join(names) + ")"

    def ret(self, value=None):
        """term for `return value` (None = fall off the end)"""
        if self.gen:
            return "Ok __out"
        if self.pure:
            return value
        if value is None:
            return f"Ok {self.state}" if self.ret_state else "Ok tt"
        return f"Ok ({value}, {self.state})" if self.ret_state else f"Ok {value}"

    # --- statements
    def block(self, stmts, k, loop=None):
        """`k()` gives the term for falling off the end; loop = (carried, kind) inside a loop body"""
        if not stmts:
            return k()
        s, rest = stmts[0], stmts[1:]
        cont = lambda: self.block(rest, k, loop)  # noqa: E731
        if is_doc(s) or isinstance(s, ast.Pass) or (isinstance(s, ast.AnnAssign) and s.value is None):
            return cont()
        if isinstance(s, ast.Assert):
            # isinstance assertions are type checks that the store typing makes true
            t = s.test
            if isinstance(t, ast.Call) and getattr(t.func, "id", None) == "isinstance":
                return cont()
            bad(s, "assert")
        special = self.stmt_hook(s, self)
        if special is not None:
            return "\n".join(special) + "\n" + cont()
        if isinstance(s, ast.Assign) and len(s.targets) == 1 and isinstance(s.targets[0], ast.Name):
            name = s.targets[0].id
            binds, term = self.expr(s.value)
            if name not in self.locals:
                self.locals.append(name)
            return "\n".join(binds + [f"let {name} := {term} in"]) + "\n" + cont()
        if isinstance(s, ast.If):
            binds, test = self.expr(s.test)
            before = list(self.locals)
            a = self.block(list(s.body) + rest, k, loop)
            self.locals = list(before)
            b = self.block(list(s.orelse) + rest, k, loop)
            return "\n".join(binds + [f"if {test} then (", a, ") else (", b, ")"])
        if isinstance(s, ast.Raise):
            exc = s.exc
            name = exc.func.id if isinstance(exc, ast.Call) and isinstance(exc.func, ast.Name) else getattr(exc, "id", None)
            if name not in ("AssertionError", "IndexError", "ValueError", "TypeError", "KeyError", "AttributeError"):
                bad(s, "raise")
            return f"Raise {name}"
        if isinstance(s, ast.Return) and loop is not None:
            if "__ret" not in loop[0] or s.value is None:
                bad(s, "return inside a loop")
            binds, term = self.expr(s.value)
            names_ = [n if n != "__ret" else f"(Some ({term}))" for n in loop[0]]
            return "\n".join(binds + [f"Ok (true, {self.tup(names_)})"])
        if isinstance(s, ast.Return):
            if s.value is None:
                return self.ret()
            binds, term = self.expr(s.value)
            return "\n".join(binds + [self.ret(term)])
        if isinstance(s, ast.Expr) and isinstance(s.value, ast.Yield) and self.gen:
            binds, term = self.expr(s.value.value)
            return "\n".join(binds + [f"let __out := __out ++ [{term}] in"]) + "\n" + cont()
        if isinstance(s, ast.Expr) and isinstance(s.value, ast.YieldFrom) and self.gen:
            binds, term = self.expr(s.value.value)
            return "\n".join(binds + [f"let __out := __out ++ {term} in"]) + "\n" + cont()
        if isinstance(s, ast.Break) and loop is not None and loop[1] == "break":
            return f"Ok (true, {self.tup(loop[0])})"
        if isinstance(s, ast.Continue) and loop is not None:
            return self.loop_end(loop)
        if isinstance(s, ast.For):
            return self.for_loop(s, cont)
        if isinstance(s, ast.Try) and len(s.handlers) == 1 and not s.orelse and not s.finalbody and loop is None \
                and getattr(s.handlers[0].type, "id", None) == "Exception" and s.handlers[0].name is None:
            new = [n for n in assigned_names(list(s.body)) if n not in self.locals]
            carried = [self.state] + [n for n in assigned_names(list(s.body))]
            before = list(self.locals)
            body_term = self.block(list(s.body), lambda: f"Ok {self.tup(carried)}")
            self.locals = list(before)
            handler = self.block(list(s.handlers[0].body), k)
            self.locals = before + new
            return "\n".join([f"match (", body_term, f") with", "| Raise _ => (", handler, ")",
                              f"| Ok {self.tup(carried)} => (", cont(), ")", "end"])
        bad(s, "statement")

    def loop_end(self, loop):
        carried, kind = loop
        return f"Ok (false, {self.tup(carried)})" if kind == "break" else f"Ok {self.tup(carried)}"

    def for_loop(self, s: ast.For, cont):
        body = list(s.body)
        has_break = own_break(body)
        if s.orelse and not has_break:
            bad(s, "for/else without break")
        carried = self.carried(body + list(s.orelse))
        has_ret = any(isinstance(n, ast.Return) for st_ in body for n in ast.walk(st_))
        if has_ret:
            if self.ret_type is None or has_break or s.orelse:
                bad(s, "return inside a loop")
            carried.append("__ret")
        kind = "break" if (has_break or has_ret) else "plain"
        # iteration variable(s)
        binds, seq, var_pat, bound = self.loop_iter(s)
        before = list(self.locals)
        self.locals = before + bound
        body_term = self.block(body, lambda: self.loop_end((carried, kind)), (carried, kind))
        self.locals = before
        acc = self.fresh("acc")
        if isinstance(s.target, ast.Name) and s.target.id in self.extract and has_ret:
            dname, types = self.extract[s.target.id]
            args = " ".join(f"({n} : {types[n]})" for n in carried if n != "__ret")
            self.extra_defs.append(
                f"Definition {dname} {self.extract_params} ({s.target.id} : nat) {args} :=\n"
                + (f"let __ret := (@None {self.ret_type}) in\n" if "__ret" in carried else "") + body_term + ".\n")
            call = f"{dname} {self.extract_args} {s.target.id} " + " ".join(n for n in carried if n != "__ret")
            body_term = call if "__ret" not in carried else \
                f"match __ret with Some _ => Ok (true, {self.tup(carried)}) | None => {call} end"
        if kind == "plain":
            if seq.startswith("range:"):
                loop = f"repeat_res {seq[6:]} (fun {acc} => let {self.pat(carried)} := {acc} in\n{body_term}) {self.tup(carried)}"
            else:
                loop = f"for_res {seq} (fun {var_pat} {acc} => let {self.pat(carried)} := {acc} in\n{body_term}) {self.tup(carried)}"
            out = binds + [f"do {acc} <- {loop};", f"let {self.pat(carried)} := {acc} in"]
            return "\n".join(out) + "\n" + cont()
        init = [n if n != "__ret" else f"(@None {self.ret_type})" for n in carried]
        loop = f"for_break {seq} (fun {var_pat} {acc} => let {self.pat(carried)} := {acc} in\n{body_term}) {self.tup(init)}"
        out = binds + [f"do {acc} <- {loop};", f"let {self.pat(carried)} := snd {acc} in"]
        if has_ret:
            return "\n".join(out + ["match __ret with", f"| Some __r => {self.ret('__r')}", "| None => (", cont(), ")", "end"])
        if s.orelse:
            before = list(self.locals)
            a = cont()
            self.locals = list(before)
            b = self.block(list(s.orelse), cont)
            return "\n".join(out + [f"if fst {acc} then (", a, ") else (", b, ")"])
        return "\n".join(out) + "\n" + cont()

    def loop_iter(self, s: ast.For):
        """-> (binds, sequence term | 'range:n', pattern for the loop variable, names bound)"""
        it = s.iter
        if isinstance(it, ast.Call) and getattr(it.func, "id", None) == "range" and len(it.args) == 1:
            binds, n = self.expr(it.args[0])
            return binds, "range:" + n, "_", []
        binds, seq = self.expr(it)
        if isinstance(s.target, ast.Name):
            return binds, seq, s.target.id, [s.target.id]
        if isinstance(s.target, ast.Tuple) and all(isinstance(x, ast.Name) for x in s.target.elts):
            names = [x.id for x in s.target.elts]
            return binds, seq, "'(" + ", ".join(names) + ")", names
        bad(s, "loop target")

    def body(self):
        stmts = list(self.node.body)
        term = self.block(stmts, lambda: self.ret())
        if self.gen:
            term = "let __out := [] in\n" + term
        if self.fuel:
            term = f"match {self.fuel} with O => Raise OutOfFuel | S {self.fuel} =>\n{term}\nend"
        return term
