"""Translator for C10: writes coq/Gen/PyUnicodeSlug.v

* Unicode tables of the running interpreter: re `\\w` (str patterns), str.isspace (what strip() removes),
  str.lower per character; the characters whose lower() depends on context (capital sigma) are listed as
  unsupported and checked to be the only ones.
* the cleaning class and the step sequence of `default_slugify` (myst_parser/mdit_to_docutils/base.py) and of
  `slugify` (installed mdit_py_plugins/anchors/index.py), read with `ast`; fail-closed on any other shape.
"""
from __future__ import annotations

import ast
import hashlib
import random
import re
import sys
from pathlib import Path


class GenError(Exception):
    pass


# ------------------------------------------------------------------ regex class parser

def parse_negated_class(pat: str):
    """'[^\\w\\u4e00-\\u9fff\\- ]' -> list of items ('w',) | ('r', lo, hi) | ('c', cp)"""
    if not (pat.startswith("[^") and pat.endswith("]")):
        raise GenError(f"regex is not a single negated class: {pat!r}")
    body = pat[2:-1]
    atoms = []
    i = 0
    while i < len(body):
        ch = body[i]
        if ch == "\\":
            if i + 1 >= len(body):
                raise GenError("dangling backslash")
            e = body[i + 1]
            if e == "w":
                atoms.append(("w",)); i += 2
            elif e == "u":
                atoms.append(("c", int(body[i + 2:i + 6], 16))); i += 6
            elif e in "-\\]^[ .":
                atoms.append(("c", ord(e))); i += 2
            else:
                raise GenError(f"unsupported escape \\{e} in {pat!r}")
        elif ch in "[]":
            raise GenError(f"unsupported character {ch!r} in class {pat!r}")
        elif ch == "-":
            atoms.append(("-",)); i += 1
        else:
            atoms.append(("c", ord(ch))); i += 1
    items = []
    j = 0
    while j < len(atoms):
        a = atoms[j]
        if a == ("-",):
            if j == 0 or j == len(atoms) - 1:
                items.append(("c", ord("-"))); j += 1; continue
            raise GenError(f"unexpected '-' in {pat!r}")
        if j + 2 < len(atoms) and atoms[j + 1] == ("-",) and atoms[j + 2] != ("-",):
            b = atoms[j + 2]
            if a[0] != "c" or b[0] != "c" or a[1] > b[1]:
                raise GenError(f"bad range in {pat!r}")
            items.append(("r", a[1], b[1])); j += 3
        else:
            items.append(a); j += 1
    return items


def class_to_coq(items):
    out = []
    for it in items:
        if it[0] == "w":
            out.append("CWord")
        elif it[0] == "r":
            out.append(f"CRange {it[1]} {it[2]}")
        else:
            out.append(f"CChar {it[1]}")
    return "[" + "; ".join(out) + "]"


# ------------------------------------------------------------------ slugify body shape

def _const_str(n):
    if isinstance(n, ast.Constant) and isinstance(n.value, str):
        return n.value
    raise GenError(f"expected a string literal, got {ast.dump(n)[:80]}")


def chain_steps(expr, argname):
    """title.strip().lower().replace(" ", "-") -> ['strip', 'lower', ('replace', ' ', '-')] (application order)"""
    steps = []
    while True:
        if isinstance(expr, ast.Name):
            if expr.id != argname:
                raise GenError(f"pipeline starts at {expr.id!r}, not at the argument {argname!r}")
            break
        if not (isinstance(expr, ast.Call) and isinstance(expr.func, ast.Attribute) and not expr.keywords):
            raise GenError(f"unsupported expression in slugify: {ast.dump(expr)[:120]}")
        m = expr.func.attr
        if m in ("strip", "lower") and not expr.args:
            steps.append(m)
        elif m == "replace" and len(expr.args) == 2:
            steps.append(("replace", _const_str(expr.args[0]), _const_str(expr.args[1])))
        else:
            raise GenError(f"unsupported method .{m}() in slugify")
        expr = expr.func.value
    steps.reverse()
    return steps


def find_func(tree, name):
    for n in tree.body:
        if isinstance(n, ast.FunctionDef) and n.name == name:
            return n
    raise GenError(f"function {name} not found")


def body_return(fn):
    stmts = [s for s in fn.body if not (isinstance(s, ast.Expr) and isinstance(s.value, ast.Constant))]
    if len(stmts) != 1 or not isinstance(stmts[0], ast.Return):
        raise GenError(f"{fn.name}: body is not a single return")
    return stmts[0].value


def render_side(src: str):
    tree = ast.parse(src)
    pat = None
    for n in tree.body:
        if isinstance(n, ast.Assign) and len(n.targets) == 1 and isinstance(n.targets[0], ast.Name) \
                and n.targets[0].id == "_SLUGIFY_CLEAN_REGEX":
            v = n.value
            if not (isinstance(v, ast.Call) and isinstance(v.func, ast.Attribute) and v.func.attr == "compile"
                    and isinstance(v.func.value, ast.Name) and v.func.value.id == "re" and len(v.args) == 1 and not v.keywords):
                raise GenError("_SLUGIFY_CLEAN_REGEX is not re.compile(<literal>)")
            pat = _const_str(v.args[0])
    if pat is None:
        raise GenError("_SLUGIFY_CLEAN_REGEX not found")
    fn = find_func(tree, "default_slugify")
    if [a.arg for a in fn.args.args] != ["title"]:
        raise GenError("default_slugify signature changed")
    r = body_return(fn)
    # _SLUGIFY_CLEAN_REGEX.sub("", <chain>)
    if not (isinstance(r, ast.Call) and isinstance(r.func, ast.Attribute) and r.func.attr == "sub"
            and isinstance(r.func.value, ast.Name) and r.func.value.id == "_SLUGIFY_CLEAN_REGEX"
            and len(r.args) == 2 and not r.keywords and _const_str(r.args[0]) == ""):
        raise GenError("default_slugify: return is not _SLUGIFY_CLEAN_REGEX.sub('', ...)")
    return pat, chain_steps(r.args[1], "title")


def plugin_side(src: str):
    tree = ast.parse(src)
    fn = find_func(tree, "slugify")
    if [a.arg for a in fn.args.args] != ["title"]:
        raise GenError("plug-in slugify signature changed")
    r = body_return(fn)
    if not (isinstance(r, ast.Call) and isinstance(r.func, ast.Attribute) and r.func.attr == "sub"
            and isinstance(r.func.value, ast.Name) and r.func.value.id == "re"
            and len(r.args) == 3 and not r.keywords and _const_str(r.args[1]) == ""):
        raise GenError("plug-in slugify: return is not re.sub(<pattern>, '', ...)")
    return _const_str(r.args[0]), chain_steps(r.args[2], "title")


def steps_to_coq(steps, cls_name):
    out = []
    for s in steps:
        if s == "strip":
            out.append("StStrip")
        elif s == "lower":
            out.append("StLower")
        else:
            a = "[" + "; ".join(str(ord(c)) for c in s[1]) + "]"
            b = "[" + "; ".join(str(ord(c)) for c in s[2]) + "]"
            out.append(f"StReplace {a} {b}")
    out.append(f"StSubNeg {cls_name}")
    return "[" + "; ".join(out) + "]"


# ------------------------------------------------------------------ unicode tables

def ranges_of(pred):
    out = []
    start = None
    for cp in range(0x110000):
        if pred(cp):
            if start is None:
                start = cp
        elif start is not None:
            out.append((start, cp - 1)); start = None
    if start is not None:
        out.append((start, 0x10FFFF))
    return out


def rtree(rs):
    if not rs:
        return "RLeaf"
    m = len(rs) // 2
    return f"(RNode {rtree(rs[:m])} {rs[m][0]} {rs[m][1]} {rtree(rs[m + 1:])})"


def ltree(kv):
    if not kv:
        return "LLeaf"
    m = len(kv) // 2
    v = "[" + "; ".join(str(x) for x in kv[m][1]) + "]"
    return f"(LNode {ltree(kv[:m])} {kv[m][0]} {v} {ltree(kv[m + 1:])})"


SIGMA = 0x3A3


def unicode_tables():
    wre = re.compile(r"\w")
    word = ranges_of(lambda cp: wre.match(chr(cp)) is not None)
    space = ranges_of(lambda cp: chr(cp).isspace())
    lower = []
    for cp in range(0x110000):
        lo = chr(cp).lower()
        if lo != chr(cp):
            lower.append((cp, [ord(c) for c in lo]))
    # fail closed: lower() must be character-wise except for the listed context-sensitive characters
    table = dict(lower)
    rng = random.Random(12345)
    pool = [cp for cp, _ in lower if cp != SIGMA] + list(range(32, 127)) + [0x301, 0x307, 0xAD, 0x2019, 0x345]
    for _ in range(20000):
        s = "".join(chr(rng.choice(pool)) for _ in range(rng.randint(1, 6)))
        want = "".join("".join(map(chr, table.get(ord(c), [ord(c)]))) for c in s)
        if s.lower() != want:
            raise GenError(f"str.lower is context sensitive on {s!r} (beyond capital sigma)")
    if "AΣ".lower() == "aσ":
        pass  # sigma not context sensitive in this interpreter: still listed, harmless
    return word, space, lower


def generate(repo: Path, plugin_file: Path):
    rpat, rsteps = render_side((repo / "myst_parser/mdit_to_docutils/base.py").read_text())
    ppat, psteps = plugin_side(plugin_file.read_text())
    rcls = parse_negated_class(rpat)
    pcls = parse_negated_class(ppat)
    word, space, lower = unicode_tables()
    lines = [
        "(* GENERATED by gen/c10_unicode.py - do not edit. *)",
        f"(* python {sys.version.split()[0]}, unicodedata {__import__('unicodedata').unidata_version} *)",
        "From Coq Require Import List NArith Bool.",
        "From MV Require Import Base.PyStr Sect.Slug Sect.SlugTables.",
        "Import ListNotations.",
        "Local Open Scope N_scope.",
        "",
        f"(* re \\w on str: {len(word)} ranges *)",
        f"Definition word_tree : rtree := {rtree(word)}.",
        f"(* str.isspace: {len(space)} ranges *)",
        f"Definition space_tree : rtree := {rtree(space)}.",
        f"(* str.lower per character, {len(lower)} characters that change *)",
        f"Definition lower_tree : ltree := {ltree(lower)}.",
        f"(* characters whose lower() depends on the context: not modelled *)",
        f"Definition py_unsupported : list N := [{SIGMA}].",
        "",
        "Definition py_is_word (c : N) : bool := rtree_mem word_tree c.",
        "Definition py_is_space (c : N) : bool := rtree_mem space_tree c.",
        "Definition py_lower (s : str) : str := lower_with lower_tree s.",
        "Definition py_supported (s : str) : bool := forallb (fun c => negb (mem_N c py_unsupported)) s.",
        "",
        f"(* base.py: _SLUGIFY_CLEAN_REGEX = re.compile({rpat!r}) *)",
        f"Definition render_class : list citem := {class_to_coq(rcls)}.",
        f"(* anchors plug-in: re.sub({ppat!r}, ...) *)",
        f"Definition plugin_class : list citem := {class_to_coq(pcls)}.",
        "(* default_slugify / slugify as read from the sources *)",
        f"Definition render_steps : list step := {steps_to_coq(rsteps, 'render_class')}.",
        f"Definition plugin_steps : list step := {steps_to_coq(psteps, 'plugin_class')}.",
        "",
    ]
    text = "\n".join(lines)
    info = {"render_regex": rpat, "plugin_regex": ppat, "render_steps": repr(rsteps), "plugin_steps": repr(psteps),
            "word_ranges": len(word), "space_ranges": len(space), "lower_entries": len(lower),
            "sha": hashlib.sha256(text.encode()).hexdigest()[:16]}
    return text, info
