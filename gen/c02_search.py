"""C02 direct property oracle: the doctree is a faithful image of the Markdown token tree.

Independent of any model.  A *skeleton* is computed from the REAL markdown-it token tree (`skel_tok`, the
specification side: reads only token fields) and from the REAL doctree (`skel_node`), and both are compared
(`compare`).  `backends_agree` compares the docutils and the Sphinx doctree of one text after erasing what is
Sphinx-specific.  `search(ctx)` / `replay(ctx, data)` are the entry points used by props/C02.py.

Skeleton items (nested tuples, children lists are Python lists, always the last element of a container):
 leaves      ("text", s) ("literal", s) ("code", langspec, s) ("raw", format, s) ("math", s) ("math_block", s)
             ("image", uri, alt, title|None) ("transition",) ("footnote_ref", label) ("target",) ("comment", s)
 containers  ("paragraph", k) ("heading", k) ("block_quote", k) ("bullet_list", bullet, k)
             ("enumerated_list", enumtype, start|None, suffix, k) ("list_item", k) ("emphasis", k) ("strong", k)
             ("span", k) ("link", dest, title|None, k) ("table", k) ("thead", rows) ("tbody", rows) ("row", cells)
             ("cell", align|None, k) ("definition_list", k) ("term", k) ("definition", k) ("field_list", k)
             ("field_name", k) ("field_body", k) ("footnote", label, k)
 node side only: ("dropped_footnote", label)  - the position of a "Duplicate footnote definition" system message
                 ("unknown-node", tag, k);   token side only: ("unknown", type)

Rules that differ from a naive reading (all documented in the functions below):
 * code `langspec` is a list: docutils = [lang]+classes copied from the token's `class` attribute (the node's
   classes after "code"); sphinx = [language].  This makes "extra classes come after the language" exact.
 * code text is canonicalised by removing at most ONE trailing newline on both sides.
 * gfm mode: the GFM tag filter (html_to_nodes.RE_FLOW) is applied on the token side as well (documented
   behaviour of gfm mode, not a violation).
 * link destinations are compared modulo percent-encoding only: canon(x) = markdown-it normalizeLinkText(x).
   When they are equal only after html.unescape as well, the failure is reported as `link:dest:html-escaped`
   (render_link_url stores escapeHtml(href) in refuri; the HTML writer escapes again -> broken `&` in URLs).
 * text is read with str(Text), not astext() (astext removes NUL characters); system_message nodes are dropped
   everywhere, also inside literal / math_block / table nodes (docutils attaches "Duplicate explicit target
   name" messages inside the offending node).
 * `compare_all` does not stop at the first difference: differences of a carried value are recorded and the walk
   continues (so an open finding early in a document does not mask a new defect behind it); a structural
   difference ends the walk of that child list only.  `compare` returns the first one as
   (signature, what, path, expected, observed).  run_case reports one failure per signature and case.
 * a "Duplicate footnote definition" system message is kept as ("dropped_footnote", label): documented behaviour
   when a footnote with that label was kept earlier, else `missing:footnote:label-clashes-with-name`.
 * Sphinx links whose destination is an existing file of the scratch project (refdomain "doc" / download
   reference) are Sphinx-specific: destination not compared (counted).
 * excluded and counted (outside "static" syntax): myst_role, front_matter, colon_fence, substitution tokens,
   directive fences (myst mode, info word `{...}`), inv:/path:/project: links, autolink anchors,
   lineno-start/emphasize-lines attributes, blockquote attribution, glossary deflists.
"""
from __future__ import annotations

import html
import os
import re
import sys
import time
import traceback

if "/verif" not in sys.path:
    sys.path.insert(0, "/verif")

from gen.c02_lib import MODES, STATIC_EXTS, SphinxDriver, docutils_parse, make_config, token_tree  # noqa: E402
from gen import c02_docgen  # noqa: E402

# ------------------------------------------------------------------------------------------ constants

STYLE_MAP = {"decimal": "arabic", "lower-alpha": "loweralpha", "upper-alpha": "upperalpha",
             "lower-roman": "lowerroman", "upper-roman": "upperroman"}
ALIGN_STYLE = {"text-align:left": "left", "text-align:right": "right", "text-align:center": "center"}
ALIGN_CLASS = {"text-left": "left", "text-right": "right", "text-center": "center"}
# GFM tag filter, copied from the specification (https://github.github.com/gfm/#disallowed-raw-html-extension-)
RE_GFM_TAGFILTER = re.compile(
    r"<(\/?)(iframe|noembed|noframes|plaintext|script|style|title|textarea|xmp)(?=[\t\n\f\r />])", re.IGNORECASE)
# token types that are not part of the static syntax (documents containing them are excluded and counted)
NONSTATIC_TYPES = {"myst_role", "front_matter", "colon_fence", "substitution_inline", "substitution_block"}
NONSTATIC_SCHEMES = ("inv", "path", "project")
RE_SCHEME = re.compile(r"^([a-zA-Z][a-zA-Z0-9+.-]*):")
SPHINX_FENCE_DEFAULT = "default"     # sphinx `highlight_language` default
SPHINX_CODEBLOCK_DEFAULT = "none"

CONTAINERS = {"paragraph", "heading", "block_quote", "bullet_list", "enumerated_list", "list_item", "emphasis",
              "strong", "span", "link", "table", "thead", "tbody", "row", "cell", "definition_list", "term",
              "definition", "field_list", "field_name", "field_body", "footnote", "unknown-node"}


class Excluded(Exception):
    """The input is outside the quantifier of the property (non-static syntax)."""


# ------------------------------------------------------------------------------------------ canon of URLs

def canon(dest: str) -> str:
    """Link destination modulo percent-encoding: markdown-it's normalizeLinkText (mdurl parse/format, punycode
    host to unicode, percent-decoding of everything except reserved characters and '%')."""
    from markdown_it.common.normalize_url import normalizeLinkText
    try:
        return normalizeLinkText(dest)
    except Exception:      # pragma: no cover - mdurl is total on str
        return dest


def canon_unescaped(dest: str) -> str:
    """canon of the HTML-unescaped destination.  render_link_url stores escapeHtml(href); html.unescape is the exact
    inverse of escapeHtml, so `canon(tok) == canon_unescaped(node)` identifies a destination that was HTML-escaped."""
    return canon(html.unescape(dest))


def canon_assumptions(href: str):
    """The assumptions the destination comparison rests on; returns a list of violated ones."""
    from markdown_it.common.normalize_url import normalizeLinkText
    from markdown_it.common.utils import escapeHtml
    bad = []
    if canon(normalizeLinkText(href)) != canon(href):
        bad.append("canon(normalizeLinkText(x)) != canon(x)")
    if html.unescape(escapeHtml(href)) != href:
        bad.append("html.unescape(escapeHtml(x)) != x")
    return bad


# ------------------------------------------------------------------------------------------ token side

def md_alt(children) -> str:
    """What markdown-it says the alt text of an image is (RendererHTML.renderInlineAsText on the flat token
    list): text -> content, softbreak -> newline, nested image -> recurse, nested containers contribute only
    through their text children, code_inline / html_inline contribute nothing."""
    out = []
    for ch in children or []:
        t = ch.type
        if t == "text":
            out.append(ch.content)
        elif t == "softbreak":
            out.append("\n")
        else:
            out.append(md_alt(ch.children))
    return "".join(out)


def _first_word(info):
    parts = (info or "").split()
    return parts[0] if parts else ""


def _classes_of(tok):
    v = tok.attrs.get("class")
    return str(v).split() if v is not None else []


def nonstatic_reasons(root, mode, kw=None):
    """Reasons why the token tree is outside the static syntax of the property's quantifier.
    `kw`: extra configuration of the run; `fence_as_directive` turns the listed languages into directives in myst
    mode ONLY (in the strict modes such a fence is ordinary static syntax: a literal block, content verbatim);
    `number_code_blocks` numbers the lines of the listed languages (like the lineno-start attribute)."""
    out = []
    as_directive = set((kw or {}).get("fence_as_directive") or ())
    numbered = set((kw or {}).get("number_code_blocks") or ())
    for n in root.walk():
        if n.type == "root":
            continue
        t = n.type
        if t in NONSTATIC_TYPES:
            out.append("nonstatic:" + t)
        elif t == "fence" and mode == "myst":
            name = _first_word(n.info)
            if name.startswith("{") and name.endswith("}"):
                out.append("nonstatic:directive-fence")
            elif name in as_directive:
                out.append("nonstatic:fence-as-directive")
        elif t == "link" and mode == "myst":
            href = str(n.attrs.get("href") or "")
            m = RE_SCHEME.match(href)
            if m and m.group(1) in NONSTATIC_SCHEMES and "external" not in _classes_of(n):
                out.append("nonstatic:link-scheme-" + m.group(1))
            elif n.info == "auto" and href.startswith("#"):
                out.append("excluded:autolink-anchor")
        if t in ("fence", "code_block") and ("lineno-start" in n.attrs or "emphasize-lines" in n.attrs):
            out.append("nonstatic:code-line-attrs")
        elif t == "fence" and numbered and _first_word(n.info) in numbered:
            out.append("nonstatic:code-line-attrs")
        if t == "blockquote" and "attribution" in n.attrs:
            out.append("nonstatic:attribution")
        if t == "dl" and "glossary" in _classes_of(n):
            out.append("nonstatic:glossary")
    return out


def skel_tok(node, backend="docutils", mode="myst"):
    """Specification side.  Reads only token fields: type, tag, attrs, content, markup, info, meta, children."""
    t = node.type

    def kids(n=node):
        out = []
        for ch in n.children or []:
            out.extend(skel_tok(ch, backend, mode))
        return out

    if t in ("root", "inline"):
        return kids()
    if t == "text":
        return [("text", node.content)]
    if t == "softbreak":
        return [("text", "\n")]
    if t == "hardbreak":
        return [("raw", "html", "<br />\n"), ("raw", "latex", "\\\\\n")]
    if t == "paragraph":
        return [("paragraph", kids())]
    if t == "heading":
        return [("heading", kids())]
    if t == "blockquote":
        return [("block_quote", kids())]
    if t == "bullet_list":
        return [("bullet_list", node.markup, kids())]
    if t == "ordered_list":
        enumtype = "arabic"
        if "style" in node.attrs:
            enumtype = STYLE_MAP.get(str(node.attrs["style"]), "arabic")
        start = str(node.attrs["start"]) if "start" in node.attrs else None
        return [("enumerated_list", enumtype, start, node.markup, kids())]
    if t == "list_item":
        return [("list_item", kids())]
    if t == "em":
        return [("emphasis", kids())]
    if t == "strong":
        return [("strong", kids())]
    if t == "span":
        return [("span", kids())]
    if t == "s":
        return [("raw", "html", "<s>")] + kids() + [("raw", "html", "</s>")]
    if t == "code_inline":
        return [("literal", node.content)]
    if t in ("code_block", "fence"):
        lang = _first_word(node.info)
        if not lang and backend == "sphinx":
            lang = SPHINX_CODEBLOCK_DEFAULT if t == "code_block" else SPHINX_FENCE_DEFAULT
        if backend == "sphinx":
            spec = [lang]
        else:
            spec = ([lang] if lang else []) + _classes_of(node)
        s = node.content
        if s.endswith("\n"):
            s = s[:-1]
        return [("code", spec, s)]
    if t in ("html_block", "html_inline"):
        s = node.content
        if mode == "gfm":
            s = RE_GFM_TAGFILTER.sub(lambda m: m.group(0).replace("<", "&lt;"), s)
        return [("raw", "html", s)]
    if t in ("math_inline", "math_single"):
        return [("math", node.content)]
    if t in ("math_inline_double", "math_block", "math_block_label", "amsmath"):
        return [("math_block", node.content)]
    if t == "image":
        title = node.attrs.get("title")
        return [("image", str(node.attrs.get("src") or ""), md_alt(node.children),
                 None if title is None else str(title))]
    if t == "hr":
        return [("transition",)]
    if t == "link":
        title = node.attrs.get("title")
        return [("link", str(node.attrs.get("href") or ""), None if title is None else str(title), kids())]
    if t == "table":
        return [("table", kids())]
    if t == "thead":
        return [("thead", kids())]
    if t == "tbody":
        return [("tbody", kids())]
    if t == "tr":
        return [("row", kids())]
    if t in ("th", "td"):
        return [("cell", ALIGN_STYLE.get(str(node.attrs.get("style") or "")), kids())]
    if t == "dl":
        return [("definition_list", kids())]
    if t == "dt":
        return [("term", kids())]
    if t == "dd":
        return [("definition", kids())]
    if t == "field_list":
        return [("field_list", kids())]
    if t == "fieldlist_name":
        return [("field_name", kids())]
    if t == "fieldlist_body":
        return [("field_body", kids())]
    if t == "footnote_ref":
        return [("footnote_ref", node.meta["label"])]
    if t == "footnote_reference":
        return [("footnote", node.meta["label"], kids())]
    if t == "myst_target":
        return [("target",)]
    if t == "myst_line_comment":
        return [("comment", node.content.strip())]
    if t == "myst_block_break":
        return [("comment", node.content)]
    return [("unknown", t)]


# ------------------------------------------------------------------------------------------ node side

RE_DUP_FOOTNOTE = re.compile(r"Duplicate footnote definition found for label: '(.*)' \[ref\.footnote\]\Z", re.S)


def raw_text(node) -> str:
    """Concatenated text of a node: str of every Text descendant that is not inside a system_message (docutils
    attaches e.g. "Duplicate explicit target name" messages INSIDE the offending literal / math_block; system
    messages are dropped everywhere).  Unlike astext it keeps NUL characters and inserts no separators."""
    from docutils import nodes
    if isinstance(node, nodes.Text):
        return str(node)
    out = []
    for ch in node.children:
        if isinstance(ch, nodes.system_message):
            continue
        out.append(raw_text(ch))
    return "".join(out)


def skel_node(node, backend="docutils", info=None):
    """Doctree side.  `info` (dict) receives counters: system_messages, sphinx_math_targets."""
    from docutils import nodes
    if info is None:
        info = {}

    def kids(n):
        out = []
        for ch in n.children:
            out.extend(skel_node(ch, backend, info))
        return out

    if isinstance(node, nodes.Text):
        return [("text", str(node))]
    tag = node.tagname
    if tag == "document":
        return kids(node)
    if tag == "section":
        return kids(node)            # transparent; its title child becomes the heading item
    if tag in ("title", "rubric"):
        return [("heading", kids(node))]
    if tag == "system_message":
        info["system_messages"] = info.get("system_messages", 0) + 1
        m = RE_DUP_FOOTNOTE.search(raw_text(node))
        if m:
            return [("dropped_footnote", m.group(1))]
        return []
    if tag == "paragraph":
        return [("paragraph", kids(node))]
    if tag == "block_quote":
        return [("block_quote", kids(node))]
    if tag == "bullet_list":
        return [("bullet_list", node.get("bullet", ""), kids(node))]
    if tag == "enumerated_list":
        return [("enumerated_list", node.get("enumtype"), str(node["start"]) if "start" in node else None,
                 node.get("suffix"), kids(node))]
    if tag == "list_item":
        return [("list_item", kids(node))]
    if tag == "emphasis":
        return [("emphasis", kids(node))]
    if tag == "strong":
        return [("strong", kids(node))]
    if tag == "inline":
        return [("span", kids(node))]
    if tag == "literal":
        return [("literal", raw_text(node))]
    if tag == "literal_block":
        s = raw_text(node)
        if s.endswith("\n"):
            s = s[:-1]
        if backend == "sphinx":
            spec = [node.get("language")]
        else:
            cl = list(node["classes"])
            spec = cl[1:] if cl[:1] == ["code"] else ["<no code class>"] + cl
        return [("code", spec, s)]
    if tag == "raw":
        return [("raw", node.get("format"), raw_text(node))]
    if tag == "math":
        return [("math", raw_text(node))]
    if tag == "math_block":
        return [("math_block", raw_text(node))]
    if tag == "image":
        return [("image", node.get("uri"), node.get("alt"), node.get("title"))]
    if tag == "transition":
        return [("transition",)]
    if tag == "reference":
        dest = node["refuri"] if "refuri" in node else node["refname"] if "refname" in node else ""
        return [("link", dest, node.get("reftitle"), kids(node))]
    if tag in ("pending_xref", "download_reference"):
        inner = [c for c in node.children if not isinstance(c, nodes.system_message)]
        if len(inner) == 1 and isinstance(inner[0], nodes.inline):
            k = kids(inner[0])
        elif len(inner) == 1 and isinstance(inner[0], nodes.literal) and not node.get("refexplicit"):
            k = []                   # sphinx-specific implicit text of a download link
        else:
            k = [("unknown-node", "xref-inner", kids(node))]
        if node.get("refdomain") == "doc" or tag == "download_reference":
            info["sphinx_doc_links"] = info.get("sphinx_doc_links", 0) + 1
            return [("link", ("sphinx-file", node.get("reftarget")), node.get("title"), k)]
        return [("link", node.get("reftarget"), node.get("title"), k)]
    if tag == "footnote_reference":
        return [("footnote_ref", node.get("refname"))]
    if tag == "footnote":
        names = list(node["names"]) + list(node.get("dupnames", []))
        out = []
        for ch in node.children:
            if isinstance(ch, nodes.label):
                continue
            out.extend(skel_node(ch, backend, info))
        return [("footnote", names[0] if names else None, out)]
    if tag == "target" and not node.children:
        ids = node.get("ids") or []
        if backend == "sphinx" and ids and ids[0].startswith("equation-") and not node.get("names") \
                and not node.get("dupnames"):
            info["sphinx_math_targets"] = info.get("sphinx_math_targets", 0) + 1
            return []
        return [("target",)]
    if tag == "comment":
        return [("comment", raw_text(node))]
    if tag == "table":
        # system messages ("Duplicate explicit target name" for an id from attrs_block) may sit next to tgroup
        def real(n):
            return [c for c in n.children if not isinstance(c, nodes.system_message)]

        info["system_messages"] = info.get("system_messages", 0) + (len(node.children) - len(real(node)))
        out = []
        if not (len(real(node)) == 1 and real(node)[0].tagname == "tgroup"):
            return [("unknown-node", "table", kids(node))]
        for part in real(real(node)[0]):
            if part.tagname == "colspec":
                continue
            if part.tagname in ("thead", "tbody"):
                rows = []
                for row in real(part):
                    if row.tagname != "row":
                        rows.append(("unknown-node", row.tagname, kids(row)))
                        continue
                    cells = []
                    for entry in real(row):
                        inner = real(entry)
                        if entry.tagname != "entry" or len(inner) != 1 or inner[0].tagname != "paragraph":
                            cells.append(("unknown-node", entry.tagname, kids(entry)))
                            continue
                        al = [ALIGN_CLASS[c] for c in entry["classes"] if c in ALIGN_CLASS]
                        cells.append(("cell", al[0] if len(al) == 1 else (None if not al else tuple(al)),
                                      kids(inner[0])))
                    rows.append(("row", cells))
                out.append((part.tagname, rows))
            else:
                out.append(("unknown-node", part.tagname, kids(part)))
        return [("table", out)]
    if tag == "definition_list":
        out = []
        for item in node.children:
            if item.tagname != "definition_list_item":
                out.extend(skel_node(item, backend, info))
                continue
            for ch in item.children:
                if ch.tagname == "term":
                    out.append(("term", kids(ch)))
                elif ch.tagname == "definition":
                    out.append(("definition", kids(ch)))
                else:
                    out.extend(skel_node(ch, backend, info))
        return [("definition_list", out)]
    if tag == "field_list":
        out = []
        for f in node.children:
            if f.tagname != "field":
                out.extend(skel_node(f, backend, info))
                continue
            for ch in f.children:
                if ch.tagname == "field_name":
                    out.append(("field_name", kids(ch)))
                elif ch.tagname == "field_body":
                    out.append(("field_body", kids(ch)))
                else:
                    out.extend(skel_node(ch, backend, info))
        return [("field_list", out)]
    return [("unknown-node", tag, kids(node))]


# ------------------------------------------------------------------------------------------ comparison

def _kind(item):
    return item[0]


def _short(x, n=160):
    r = repr(x)
    return r if len(r) <= n else r[:n] + "..."


class _Cmp:
    """Walks both skeletons in parallel.  Differences of a carried value (content, destination, alignment ...)
    are recorded and the walk goes on; a structural difference (other construct / missing / extra item) is
    recorded and ends the walk of that child list only (the rest of it cannot be aligned reliably)."""

    def __init__(self):
        self.kept_footnotes = set()
        self.notes = {}              # counters of documented behaviour met during the comparison
        self.diffs = []

    def note(self, k):
        self.notes[k] = self.notes.get(k, 0) + 1

    def lists(self, a, b, path):
        i = j = 0
        while i < len(a) or j < len(b):
            if i < len(a) and j < len(b) and _kind(b[j]) == "dropped_footnote" and _kind(a[i]) == "footnote" \
                    and a[i][1] == b[j][1]:
                label = a[i][1]
                if label in self.kept_footnotes:
                    self.note("documented:duplicate-footnote-definition-dropped")
                else:
                    self.diffs.append((
                        "missing:footnote:label-clashes-with-name",
                        f"footnote definition [^{label}] dropped as 'duplicate' although no footnote with this "
                        f"label was defined before (the label only clashes with another name in the document)",
                        path + (i,), _short(a[i]), _short(b[j])))
                i += 1
                j += 1
                continue
            if j < len(b) and _kind(b[j]) == "dropped_footnote":
                self.diffs.append(("extra:dropped_footnote", "duplicate-footnote warning without a footnote token here",
                                   path + (i,), _short(a[i]) if i < len(a) else None, _short(b[j])))
                return
            if i >= len(a):
                self.diffs.append(("extra:" + _kind(b[j]), "doctree has an item the token tree does not have",
                                   path + (i,), None, _short(b[j])))
                return
            if j >= len(b):
                self.diffs.append(("missing:" + _kind(a[i]), "token tree item has no image in the doctree",
                                   path + (i,), _short(a[i]), None))
                return
            x, y = a[i], b[j]
            if _kind(x) != _kind(y):
                ra, rb = len(a) - i, len(b) - j
                if _kind(x) == "unknown":
                    sig = "unknown-token:" + str(x[1])
                elif _kind(y) == "unknown-node":
                    sig = "unknown-node:" + str(y[1])
                elif ra > rb:
                    sig = "missing:" + _kind(x)
                elif ra < rb:
                    sig = "extra:" + _kind(y)
                elif _kind(x) in CONTAINERS or _kind(y) in CONTAINERS:
                    sig = f"container:{_kind(x)}-vs-{_kind(y)}"
                else:
                    sig = f"leaf:{_kind(x)}-vs-{_kind(y)}"
                self.diffs.append((sig, "different construct at this position", path + (i,), _short(x), _short(y)))
                return
            self.item(x, y, path + (i,))
            i += 1
            j += 1

    def item(self, x, y, path):
        k = _kind(x)

        def diff(sig, what, e, o):
            self.diffs.append((sig, what, path, _short(e), _short(o)))

        if k in ("text", "literal", "math", "math_block", "comment"):
            if x[1] != y[1]:
                name = "math" if k == "math_block" else k
                diff(f"leaf:{name}:content", f"{k} content differs", x[1], y[1])
            return
        if k == "code":
            if x[2] != y[2]:
                if x[2].strip("\n") == y[2].strip("\n"):
                    diff("code-verbatim:pygments-stripnl",
                         "code block text differs only by leading / trailing newlines (pygments stripnl)", x[2], y[2])
                else:
                    diff("leaf:code:content", "code block text differs", x[2], y[2])
            if list(x[1]) != list(y[1]):
                diff("leaf:code:lang", "code language (and class list) differs", x[1], y[1])
            return
        if k == "raw":
            if x[1] != y[1]:
                diff("leaf:raw:format", "raw format differs", x[1], y[1])
            elif x[2] != y[2]:
                diff("leaf:raw:content", "raw content differs", x[2], y[2])
            return
        if k == "image":
            if x[1] != y[1]:
                diff("image:uri", "image uri differs", x[1], y[1])
            if x[2] != y[2]:
                if y[2] is not None and x[2].replace("\n", "") == y[2]:
                    diff("image:alt:softbreak-dropped", "image alt lost its soft line breaks", x[2], y[2])
                else:
                    diff("image:alt", "image alt text differs", x[2], y[2])
            if x[3] != y[3]:
                diff("image:title", "image title differs", x[3], y[3])
            return
        if k in ("transition", "target"):
            return
        if k == "footnote_ref":
            if x[1] != y[1]:
                diff("leaf:footnote_ref:label", "footnote reference label differs", x[1], y[1])
            return
        if k == "link":
            if isinstance(y[1], tuple):            # sphinx resolved the destination to an existing file
                self.note("sphinx-specific:link-to-existing-file")
            elif x[1] != y[1] and canon(x[1]) != canon(y[1] or ""):
                if canon(x[1]) == canon_unescaped(y[1] or ""):
                    diff("link:dest:html-escaped",
                         "link destination is stored HTML-escaped (escapeHtml) in the doctree", x[1], y[1])
                else:
                    diff("link:dest", "link destination differs", x[1], y[1])
            if x[2] != y[2]:
                diff("link:title", "link title differs", x[2], y[2])
            return self.lists(x[3], y[3], path)
        if k == "bullet_list":
            if x[1] != y[1]:
                diff("list:bullet", "bullet differs", x[1], y[1])
            return self.lists(x[2], y[2], path)
        if k == "enumerated_list":
            if x[1] != y[1]:
                diff("list:enumtype", "enumtype differs", x[1], y[1])
            if x[2] != y[2]:
                diff("list:start", "list start differs", x[2], y[2])
            if x[3] != y[3]:
                diff("list:suffix", "list suffix differs", x[3], y[3])
            return self.lists(x[4], y[4], path)
        if k == "cell":
            if x[1] != y[1]:
                diff("cell:align", "cell alignment differs", x[1], y[1])
            return self.lists(x[2], y[2], path)
        if k == "footnote":
            if x[1] != y[1]:
                diff("footnote:label", "footnote label differs", x[1], y[1])
            self.kept_footnotes.add(x[1])
            return self.lists(x[2], y[2], path)
        if k == "unknown":
            diff("unknown-token:" + str(x[1]), "token type outside the rules", x, y)
            return
        # plain containers
        return self.lists(x[-1], y[-1], path)


def compare_all(sk_tok, sk_node, notes=None):
    """All differences found by the parallel walk, each (signature, what, path, expected, observed), in document
    order.  `notes` (dict) receives counters of documented behaviour met on the way."""
    c = _Cmp()
    c.lists(sk_tok, sk_node, ())
    if notes is not None:
        for k, v in c.notes.items():
            notes[k] = notes.get(k, 0) + v
    return c.diffs


def compare(sk_tok, sk_node, notes=None):
    """First difference as (signature, what, path, expected, observed) or None."""
    d = compare_all(sk_tok, sk_node, notes)
    return d[0] if d else None


# ------------------------------------------------------------------------------------------ backends agree

DROP_ATTRS = {"ids", "source", "backrefs", "xml:space"}
MATH_DROP = {"ids", "names", "dupnames", "label", "number", "docname", "numbered", "source", "backrefs", "xml:space"}


_SRC = [None]      # lower-cased source path of the document being canonicalised (erased from implicit names)


def _attrs_canon(node, drop):
    out = {}
    for k, v in node.attributes.items():
        if k in drop:
            continue
        if v in ([], None, "") and k in ("classes", "names", "dupnames", "ids", "backrefs"):
            continue
        out[k] = list(v) if isinstance(v, (list, tuple)) else v
        if k in ("names", "dupnames") and _SRC[0]:
            # a heading's implicit name is the text of its title INCLUDING system messages appended to the title
            # (e.g. the strikethrough warning), which quote the source path: erase the path, it is not syntax
            out[k] = [x.replace(_SRC[0], "<src>") for x in out[k]]
    return out


def canon_tree(node, backend):
    """(tag, attrs, children) after erasing what is Sphinx-specific / backend-specific:
    literal_block -> language + classes + text; pending_xref/download_reference -> reference[refname];
    math targets, label/number/docname/numbered of math blocks; tex2jax_ignore/mathjax_ignore section classes;
    auto ids (only their count is kept); system messages."""
    from docutils import nodes
    if isinstance(node, nodes.Text):
        return ("#text", str(node), [])
    tag = node.tagname
    if tag == "system_message":
        return None
    if tag == "target" and backend == "sphinx" and not node.children and not node.get("names") \
            and not node.get("dupnames") and (node.get("ids") or [""])[0].startswith("equation-"):
        return None

    def kids(n):
        return [c for c in (canon_tree(ch, backend) for ch in n.children) if c is not None]

    if tag == "literal_block":
        cl = list(node["classes"])
        if backend == "sphinx":
            spec = ("S", node.get("language"), cl)
        else:
            spec = ("D", cl[1:] if cl[:1] == ["code"] else ["<no code class>"] + cl)
        a = _attrs_canon(node, DROP_ATTRS | {"classes", "language", "highlight_args", "linenos"})
        a["#ids"] = len(node.get("ids", []))
        return (tag, a, [("#code", spec, raw_text(node))])
    if tag == "math_block":
        return (tag, _attrs_canon(node, MATH_DROP), [("#text", raw_text(node), [])])
    if tag in ("pending_xref", "download_reference"):
        inner = [c for c in node.children if not isinstance(c, nodes.system_message)]
        sub = kids(inner[0]) if len(inner) == 1 and isinstance(inner[0], nodes.inline) else \
            [] if len(inner) == 1 and isinstance(inner[0], nodes.literal) and not node.get("refexplicit") else kids(node)
        a = {"refname": canon(node.get("reftarget") or "")}
        if node.get("refdomain") == "doc" or tag == "download_reference":
            a["refname"] = ("sphinx-file",)
        if "title" in node:
            a["reftitle"] = node["title"]
        if node.get("classes"):
            a["classes"] = list(node["classes"])
        for k in ("names", "dupnames"):
            if node.get(k):
                a[k] = list(node[k])
        a["#ids"] = len(node.get("ids", []))
        return ("reference", a, sub)
    a = _attrs_canon(node, DROP_ATTRS)
    a["#ids"] = len(node.get("ids", []))
    if tag == "reference" and "refname" in a:
        a["refname"] = canon(a["refname"])
    if tag == "section" and "classes" in a:
        a["classes"] = [c for c in a["classes"] if c not in ("tex2jax_ignore", "mathjax_ignore")]
        if not a["classes"]:
            del a["classes"]
    if tag == "document":
        a = {}
    return (tag, a, kids(node))


def _diff_trees(d, s, path):
    if d[0] != s[0]:
        return (f"backends:{d[0]}-vs-{s[0]}", path, _short(d), _short(s))
    if d[0] == "#text":
        if d[1] != s[1]:
            return ("backends:text", path, _short(d[1]), _short(s[1]))
        return None
    if d[0] == "#code":
        (_, dcl), (_, lang, scl) = d[1], s[1]
        if not (dcl == [lang] + scl or (lang in (SPHINX_CODEBLOCK_DEFAULT, SPHINX_FENCE_DEFAULT) and dcl == scl)):
            return ("backends:literal_block:lang", path, _short(dcl), _short((lang, scl)))
        dt = d[2][:-1] if d[2].endswith("\n") else d[2]
        st = s[2][:-1] if s[2].endswith("\n") else s[2]
        if dt != st:
            if dt.strip("\n") == st.strip("\n"):
                return ("backends:literal_block:pygments-stripnl", path, _short(dt), _short(st))
            return ("backends:literal_block:text", path, _short(dt), _short(st))
        return None
    if d[1] != s[1]:
        keys = sorted(k for k in set(d[1]) | set(s[1]) if d[1].get(k) != s[1].get(k))
        if d[0] == "reference" and keys == ["refname"] and s[1].get("refname") == ("sphinx-file",):
            pass                     # sphinx found an existing file for the destination: Sphinx-specific
        else:
            return (f"backends:{d[0]}:attr:{keys[0]}", path, _short({k: d[1].get(k) for k in keys}),
                    _short({k: s[1].get(k) for k in keys}))
    dk, sk = d[2], s[2]
    for i in range(max(len(dk), len(sk))):
        if i >= len(dk):
            return (f"backends:{d[0]}:extra-in-sphinx:{sk[i][0]}", path + (i,), None, _short(sk[i]))
        if i >= len(sk):
            return (f"backends:{d[0]}:missing-in-sphinx:{dk[i][0]}", path + (i,), _short(dk[i]), None)
        r = _diff_trees(dk[i], sk[i], path + (i,))
        if r is not None:
            return r
    return None


def backends_agree(text, mode="myst", exts=()):
    """None, or (signature, path, docutils side, sphinx side) for the first difference between the docutils and
    the Sphinx doctree of `text` after erasing what is Sphinx-specific."""
    from docutils.nodes import fully_normalize_name
    d, _ = docutils_parse(text, mode, exts)
    s, _ = SphinxDriver.get().parse(text, make_config(mode, exts))
    _SRC[0] = fully_normalize_name(str(d["source"]))
    cd = canon_tree(d, "docutils")
    _SRC[0] = fully_normalize_name(str(s["source"]))
    cs = canon_tree(s, "sphinx")
    _SRC[0] = None
    return _diff_trees(cd, cs, ())


# ------------------------------------------------------------------------------------------ one case

def _exception_site(exc):
    """module.function of the innermost myst_parser / docutils / sphinx / markdown_it frame."""
    site = None
    for fs in traceback.extract_tb(exc.__traceback__):
        fn = fs.filename.replace(os.sep, "/")
        for pkg in ("myst_parser", "docutils", "sphinx", "markdown_it", "mdit_py_plugins", "pygments"):
            m = re.search(r"/(" + pkg + r"(?:/[^/]+)*)\.py$", fn)
            if m:
                site = m.group(1).replace("/", ".") + "." + fs.name
    return site or "unknown"


def norm_case(case):
    if isinstance(case, str):
        case = {"text": case}
    c = {"text": case.get("text", ""), "mode": case.get("mode", "myst"),
         "exts": sorted(case.get("exts", ()) or ()), "backend": case.get("backend", "docutils")}
    if case.get("agree"):
        c["agree"] = True
    kw = case.get("kw")
    if isinstance(kw, dict) and kw:          # extra myst_* configuration of the run (round 5: options that affect
        c["kw"] = {k: (sorted(v) if isinstance(v, (list, tuple, set)) else v) for k, v in kw.items()}   # fences)
    if c["mode"] not in MODES:
        c["mode"] = "myst"
    if c["backend"] not in ("docutils", "sphinx"):
        c["backend"] = "docutils"
    return c


def _fail(sig, what, expected=None, observed=None, path=None):
    return {"signature": sig, "what": what, "expected": expected, "observed": observed, "path": list(path or ())}


def run_case(case, info=None):
    """Evaluate the property on one case {"text","mode","exts","backend"[,"agree"]}.  Returns the list of failures
    (dicts with signature / what / expected / observed / path).  `info` (dict) receives statistics."""
    case = norm_case(case)
    if info is None:
        info = {}
    text, mode, exts, backend = case["text"], case["mode"], case["exts"], case["backend"]
    fails = []
    kw = case.get("kw") or {}
    config = make_config(mode, exts, **kw)
    try:
        root, tokens, _env = token_tree(config, text)
    except Exception as e:               # the parser itself failing is outside C02 but must not be silent
        return [_fail(f"exception:{type(e).__name__}:{_exception_site(e)}", "markdown-it parse raised",
                      observed=repr(e)[:300])]
    types = set()
    ntok = 0
    depth = 0
    for n in root.walk():
        if n.type == "root":
            continue
        ntok += 1
        types.add(n.type)
    stack = [(root, 0)]
    while stack:
        n, d = stack.pop()
        depth = max(depth, d)
        for ch in n.children or []:
            stack.append((ch, d + (0 if ch.type == "inline" else 1)))
    info["ntokens"] = ntok
    info["types"] = types
    info["depth"] = depth
    reasons = nonstatic_reasons(root, mode, kw)
    if reasons:
        info["excluded"] = sorted(set(reasons))
        return []
    try:
        if backend == "sphinx":
            doc, warn = SphinxDriver.get().parse(text, config)
        else:
            doc, warn = docutils_parse(text, mode, exts, **kw)
    except Exception as e:
        return [_fail(f"exception:{type(e).__name__}:{_exception_site(e)}", f"{backend} parse raised",
                      observed=(repr(e)[:300] + " | " + "".join(traceback.format_tb(e.__traceback__)[-2:])[-400:]))]
    sk_t = skel_tok(root, backend, mode)
    ninfo = {}
    sk_n = skel_node(doc, backend, ninfo)
    info.update(ninfo)
    notes = {}
    seen = set()
    for sig, what, path, exp, obs in compare_all(sk_t, sk_n, notes):
        if sig not in seen:          # one failure per signature and case (the first in document order)
            seen.add(sig)
            fails.append(_fail(sig, what, exp, obs, path))
    info["notes"] = notes
    # oracle assumptions of the destination comparison, on the hrefs of this document
    for n in root.walk():
        if n.type == "link":
            bad = canon_assumptions(str(n.attrs.get("href") or ""))
            if bad:
                fails.append(_fail("oracle:canon", "; ".join(bad), observed=str(n.attrs.get("href"))))
                break
    if case.get("agree") and not kw:
        try:
            r2 = backends_agree(text, mode, exts)
        except Exception as e:
            r2 = (f"exception:{type(e).__name__}:{_exception_site(e)}", (), None, repr(e)[:300])
        if r2 is not None:
            fails.append(_fail(r2[0], "docutils and sphinx doctrees differ on syntax that is not Sphinx-specific"
                               if r2[0].startswith("backends:") else "backend raised", r2[2], r2[3], r2[1]))
    return fails


# ------------------------------------------------------------------------------------------ search

FIXED_WITNESSES = [
    # (case, signature that must be reproduced while the defect exists)
    ({"text": "```python\n\n\nx = 1\n```\n", "mode": "myst", "exts": [], "backend": "docutils"},
     "code-verbatim:pygments-stripnl"),
    ({"text": "![a\nb](x)\n", "mode": "myst", "exts": [], "backend": "docutils"}, "image:alt:softbreak-dropped"),
    ({"text": "# a\n\n[^a]\n\n[^a]: note\n", "mode": "myst", "exts": [], "backend": "docutils"},
     "missing:footnote:label-clashes-with-name"),
    ({"text": "[a](http://x.org/?a=1&b=2)\n", "mode": "myst", "exts": [], "backend": "docutils"},
     "link:dest:html-escaped"),
    ({"text": "```python\n\n\nx = 1\n```\n", "mode": "myst", "exts": [], "backend": "docutils", "agree": True},
     "backends:literal_block:pygments-stripnl"),
]

CONSTRUCT_OF_TYPE = {
    "paragraph": "paragraph", "heading": "heading", "blockquote": "blockquote", "bullet_list": "bullet_list",
    "ordered_list": "ordered_list", "fence": "fence", "code_block": "code_block", "html_block": "html_block",
    "html_inline": "html_inline", "hr": "hr", "table": "table", "math_block": "math_block",
    "math_block_label": "math_block", "math_inline": "math_inline", "amsmath": "amsmath", "dl": "deflist",
    "field_list": "fieldlist", "footnote_reference": "footnote_def", "footnote_ref": "footnote_ref",
    "myst_target": "target", "myst_line_comment": "comment", "myst_block_break": "block_break", "em": "em",
    "strong": "strong", "link": "link", "image": "image", "code_inline": "code_inline", "softbreak": "softbreak",
    "hardbreak": "hardbreak", "s": "strike", "span": "span", "text": "text",
}


class _Recorder:
    """Bookkeeping shared by search() and the command line driver."""

    def __init__(self, ctx):
        self.ctx = ctx
        self.per_sig = {}
        self.ncases = 0
        self.tok_sum = 0
        self.max_depth = 0
        self.construct_docs = {}
        self.generated = 0

    def run(self, case, generated=False):
        case = norm_case(case)
        info = {}
        fails = run_case(case, info)
        ctx = self.ctx
        ctx.search_cases += 1
        self.ncases += 1
        ctx.count("mode:" + case["mode"])
        ctx.count("backend:" + case["backend"])
        if case.get("agree"):
            ctx.count("backends_agree")
        for r in info.get("excluded", []):
            ctx.count(r)
        if "excluded" in info:
            ctx.count("excluded-documents")
        for k, v in (info.get("notes") or {}).items():
            ctx.count(k, v)
        if info.get("system_messages"):
            ctx.count("system_messages", info["system_messages"])
        for t in info.get("types", ()):
            c = CONSTRUCT_OF_TYPE.get(t)
            if c:
                ctx.count("has:" + c)
                if generated:
                    self.construct_docs[c] = self.construct_docs.get(c, 0) + 1
        if generated:
            self.generated += 1
            self.tok_sum += info.get("ntokens", 0)
            self.max_depth = max(self.max_depth, info.get("depth", 0))
        if info.get("ntokens", 0) > 3:
            ctx.nontriv((case["mode"], case["backend"], hash(case["text"])))
        for f in fails:
            n = self.per_sig.get(f["signature"], 0)
            self.per_sig[f["signature"]] = n + 1
            ctx.count("fail:" + f["signature"])
            if n < 3:
                ctx.fail(f["signature"], case, f["what"] + (f" at {f['path']}" if f.get("path") else ""),
                         f.get("expected"), f.get("observed"))
        return fails


def gen_case(rng, max_depth):
    mode = rng.choice(MODES)
    exts = []
    if mode == "myst":
        r = rng.random()
        if r < 0.3:
            exts = list(STATIC_EXTS)
        elif r < 0.4:
            exts = []
        else:
            exts = [e for e in STATIC_EXTS if rng.random() < 0.5]
    backend = "sphinx" if rng.random() < 0.35 else "docutils"
    depth = rng.randint(2, max_depth)
    size = rng.choice((3, 6, 12, 12, 20, 30))
    text, stats, nest = c02_docgen.gen_doc_stats(rng, depth, size, mode, exts)
    case = {"text": text, "mode": mode, "exts": sorted(exts), "backend": backend}
    if rng.random() < 0.3:
        case["agree"] = True
    return case


FENCE_LANGS = ["note", "mermaid", "python", "warning", "tip"]
FENCE_BODIES = [["This *is* code,", "", "    kept verbatim."], ["x = 1"], ["# not a heading", "- not a list"],
                ["  indented", "\ttab", ""], ["[^1]: not a footnote", "{ref}`x`"], [":class: k", "", "body"]]


def gen_fence_option_case(rng):
    """Options that affect fences, combined with every mode: in the strict modes a fence whose language is listed in
    fence_as_directive is still a literal block with verbatim content and its language."""
    mode = rng.choice(("commonmark", "commonmark", "gfm", "gfm", "myst"))
    exts = [e for e in STATIC_EXTS if rng.random() < 0.5] if mode == "myst" else []
    kw = {"fence_as_directive": sorted(rng.sample(FENCE_LANGS, rng.choice((1, 1, 2, 3))))}
    if rng.random() < 0.4:
        kw["number_code_blocks"] = sorted(rng.sample(FENCE_LANGS, rng.choice((1, 2))))
    if rng.random() < 0.4:
        kw["highlight_code_blocks"] = rng.random() < 0.5
    text, _stats, _nest = c02_docgen.gen_doc_stats(rng, rng.randint(2, 4), rng.choice((2, 3, 6)), mode, exts)
    blocks = [text.rstrip("\n")] if text.strip() else []
    for _ in range(rng.choice((1, 2, 3))):
        fence = rng.choice(("```", "~~~", "````"))
        lang = rng.choice(FENCE_LANGS + ["", "c"]) + rng.choice(("", "", " extra words"))
        b = [fence + lang] + list(rng.choice(FENCE_BODIES)) + [fence]
        w = rng.randrange(5)
        if w == 0:
            b = [("> " + l) if l else ">" for l in b]
        elif w == 1:
            b = [("- " if i == 0 else ("  " if l else "")) + l for i, l in enumerate(b)]
        elif w == 2:
            b = [("1. " if i == 0 else ("   " if l else "")) + l for i, l in enumerate(b)]
        blocks.insert(rng.randrange(len(blocks) + 1), "\n".join(b))
    return {"text": "\n\n".join(blocks) + "\n", "mode": mode, "exts": sorted(exts),
            "backend": "sphinx" if rng.random() < 0.3 else "docutils", "kw": kw}


FENCE_OPTION_WITNESSES = [
    {"text": "```note\nThis *is* code,\n\n    kept verbatim.\n```\n\n- item\n\n  ```note\n  nested code\n  ```\n\n"
             "```python\nx = 1\n```\n", "mode": m, "exts": [], "backend": b, "kw": kw}
    for m in ("commonmark", "gfm", "myst") for b in ("docutils", "sphinx")
    for kw in ({"fence_as_directive": ["note"]}, {"fence_as_directive": ["mermaid", "note"], "highlight_code_blocks": False},
               {"fence_as_directive": ["note"], "number_code_blocks": ["python"]})
]


def corpus_cases():
    """SEED_DOCS + CommonMark spec inputs: all three modes on docutils, a third of them on sphinx as well."""
    docs = list(c02_docgen.SEED_DOCS) + c02_docgen.commonmark_spec_inputs()
    out = []
    for i, text in enumerate(docs):
        for mode in MODES:
            exts = list(STATIC_EXTS) if (mode == "myst" and (i % 2 == 1 or i < len(c02_docgen.SEED_DOCS))) else []
            out.append({"text": text, "mode": mode, "exts": exts, "backend": "docutils"})
            if i % 3 == 0:
                out.append({"text": text, "mode": mode, "exts": exts, "backend": "sphinx",
                            "agree": mode == "myst"})
    return out


def search(ctx, n_generated=None):
    rec = _Recorder(ctx)
    # 1. suspects from the correspondence stage
    for s in list(getattr(ctx, "suspects", []) or []):
        try:
            if isinstance(s, (dict, str)):
                rec.run(s)
        except Exception:
            pass
    # 2. fixed witnesses of the known candidates: reproduced on every run while they exist
    for case, sig in FIXED_WITNESSES:
        fails = rec.run(case)
        ctx.count("fixed-witness:" + sig + (":reproduced" if any(f["signature"] == sig for f in fails) else ":gone"))
    # 3. seed corpus
    for case in corpus_cases():
        rec.run(case)
    # 4. generated documents
    n = n_generated if n_generated is not None else ctx.budget(600, 8000, 8000)
    max_depth = 6 if (ctx.tier != "thorough" and not ctx.deep) else 10
    for i in range(n):
        case = gen_case(ctx.rng, max_depth)
        rec.run(case, generated=True)
        if i < 200 and i % 20 == 0:
            ctx.sample({"mode": case["mode"], "backend": case["backend"], "exts": case["exts"],
                        "text": case["text"][:400]})
    # 5. options that affect fences x modes (own share of the budget, drawn after the main loop)
    for case in FENCE_OPTION_WITNESSES:
        ctx.count("source:fence-options:fixed")
        rec.run(case)
    for i in range(ctx.budget(60, 800, 800)):
        ctx.count("source:fence-options:generated")
        rec.run(gen_fence_option_case(ctx.rng))
    if rec.generated:
        ctx.count("generated:avg-tokens", 0)
        ctx.counts["generated:avg-tokens"] = round(rec.tok_sum / rec.generated, 1)
        ctx.counts["generated:max-token-depth"] = rec.max_depth
        for c, v in rec.construct_docs.items():
            ctx.counts["generated:share:" + c] = round(v / rec.generated, 3)
    return rec


def replay(ctx, data):
    w = data.get("witness", data)
    fails = run_case(w)
    for f in fails:
        print(f"[C02 replay] {f['signature']}: {f['what']} path={f.get('path')}\n   expected={f.get('expected')}\n"
              f"   observed={f.get('observed')}")
    if not fails:
        print("[C02 replay] no failure on this input")
    return 1 if fails else 0


# ------------------------------------------------------------------------------------------ command line

def minimise(case, signature, budget_s=6.0):
    """Greedy delta-minimisation of case["text"] keeping `signature` (reporting aid only)."""
    case = dict(norm_case(case))
    t0 = time.time()

    def still(text):
        c = dict(case)
        c["text"] = text
        try:
            return any(f["signature"] == signature for f in run_case(c))
        except Exception:
            return False

    text = case["text"]
    for unit in ("lines", "chars"):
        chunk = None
        parts = text.split("\n") if unit == "lines" else list(text)
        sep = "\n" if unit == "lines" else ""
        size = max(1, len(parts) // 2)
        while size >= 1 and time.time() - t0 < budget_s:
            i = 0
            changed = False
            while i < len(parts) and time.time() - t0 < budget_s:
                cand = parts[:i] + parts[i + size:]
                if cand != parts and still(sep.join(cand)):
                    parts = cand
                    changed = True
                else:
                    i += size
            if not changed or size > 1:
                size //= 2
            if size == 0:
                break
        text = sep.join(parts)
    case["text"] = text
    if case["exts"] and time.time() - t0 < budget_s + 3:
        for e in list(case["exts"]):
            c2 = dict(case)
            c2["exts"] = [x for x in case["exts"] if x != e]
            try:
                if any(f["signature"] == signature for f in run_case(c2)):
                    case = c2
            except Exception:
                pass
    return case


class _DummyCtx:
    def __init__(self, tier="quick", seed=0):
        import random
        self.tier = tier
        self.deep = False
        self.rng = random.Random(seed)
        self.suspects = []
        self.failures = []
        self.counts = {}
        self.search_cases = 0
        self.samples = []
        self.nontrivial = set()

    def budget(self, quick, thorough, deep=None):
        return thorough if self.tier == "thorough" else quick

    def count(self, k, n=1):
        self.counts[k] = self.counts.get(k, 0) + n

    def sample(self, x, limit=12):
        if len(self.samples) < limit:
            self.samples.append(x)

    def nontriv(self, k):
        self.nontrivial.add(k)

    def fail(self, signature, witness, what, expected=None, observed=None):
        self.failures.append({"signature": signature, "witness": witness, "what": what, "expected": expected,
                              "observed": observed})


def main(argv):
    n = int(argv[1]) if len(argv) > 1 else 600
    seed = int(argv[2]) if len(argv) > 2 else int(os.environ.get("VERIF_SEED", "0"))
    ctx = _DummyCtx("thorough" if n > 2000 else "quick", seed)
    t0 = time.time()
    rec = search(ctx, n_generated=n)
    wall = time.time() - t0
    print(f"cases={ctx.search_cases} generated={rec.generated} wall={wall:.1f}s")
    print("signature -> count")
    for sig, c in sorted(rec.per_sig.items()):
        print(f"  {sig}: {c}")
    by_sig = {}
    for f in ctx.failures:
        cur = by_sig.get(f["signature"])
        if cur is None or len(f["witness"]["text"]) < len(cur["witness"]["text"]):
            by_sig[f["signature"]] = f
    print("one minimised witness per signature")
    for sig, f in sorted(by_sig.items()):
        w = minimise(f["witness"], sig)
        ff = [x for x in run_case(w) if x["signature"] == sig]
        print(f"  {sig}\n     witness={w!r}\n     what={f['what']}\n     expected={ff[0]['expected'] if ff else f['expected']}"
              f"\n     observed={ff[0]['observed'] if ff else f['observed']}")
    print("counts")
    for k in sorted(ctx.counts):
        print(f"  {k}: {ctx.counts[k]}")
    SphinxDriver.get().close() if SphinxDriver._inst is not None else None
    return 0


if __name__ == "__main__":
    sys.exit(main(sys.argv))
