"""Shared harness code of the C02 / C03 checks (owned by the C02/C03 builder): driving the real
implementation (docutils front end, in-process Sphinx renderer), parser configurations for the three
modes, access to the real markdown-it token tree.

Nothing here is a translator; the module lives in gen/ only because that is a directory this property owns.
"""
from __future__ import annotations

import atexit
import copy
import io
import os
import re
import shutil
import tempfile

try:  # optional dependency of the gfm mode / linkify extension
    import linkify_it  # noqa: F401
    HAVE_LINKIFY = True
except Exception:  # pragma: no cover
    HAVE_LINKIFY = False

MODES = ("commonmark", "gfm", "myst")

# extensions whose syntax is static (no directives / substitutions / html conversion)
STATIC_EXTS = ("dollarmath", "amsmath", "deflist", "fieldlist", "strikethrough", "attrs_inline",
               "attrs_block", "tasklist", "smartquotes", "replacements")
ALL_EXTS = STATIC_EXTS + ("colon_fence", "html_image", "html_admonition", "substitution")

_PATCHED = False


def patch_linkify():
    """gfm mode enables the `linkify` rule, which needs the optional linkify-it-py package.  When it is not
    installed the parser is built by the real create_md_parser and only the linkify rule is switched off again
    (everything else of the gfm configuration is the real one)."""
    global _PATCHED
    if _PATCHED or HAVE_LINKIFY:
        return
    import myst_parser.parsers.mdit as M
    import myst_parser.parsers.docutils_ as D
    import myst_parser.parsers.sphinx_ as S
    orig = M.create_md_parser

    def create_md_parser(config, renderer):
        md = orig(config, renderer)
        if config.gfm_only or "linkify" in config.enable_extensions:
            md.disable("linkify")
            md.options["linkify"] = False
        return md

    create_md_parser.__wrapped__ = orig
    M.create_md_parser = create_md_parser
    D.create_md_parser = create_md_parser
    S.create_md_parser = create_md_parser
    _PATCHED = True


def mode_kwargs(mode):
    return {"commonmark": {"commonmark_only": True}, "gfm": {"gfm_only": True}, "myst": {}}[mode]


def make_config(mode="myst", exts=(), **kw):
    from myst_parser.config.main import MdParserConfig
    d = dict(mode_kwargs(mode))
    if mode == "myst":
        d["enable_extensions"] = set(exts)
    d.update(kw)
    return MdParserConfig(**d)


def settings_for(mode="myst", exts=(), **kw):
    """docutils settings_overrides for a mode / extension subset / extra myst_* config."""
    so = {}
    for k, v in mode_kwargs(mode).items():
        so["myst_" + k] = v
    if mode == "myst":
        so["myst_enable_extensions"] = list(exts)
    for k, v in kw.items():
        so["myst_" + k] = v
    return so


def token_tree(config, text):
    """The real markdown-it token tree (RendererHTML parser built by create_md_parser), with the same map+1
    adjustment _render_tokens applies.  Returns (SyntaxTreeNode root, tokens, env)."""
    patch_linkify()
    from markdown_it.renderer import RendererHTML
    from markdown_it.tree import SyntaxTreeNode
    import myst_parser.parsers.mdit as M
    md = M.create_md_parser(config, RendererHTML)
    env = {}
    tokens = md.parse(text, env)
    for token in tokens:
        if not token.map:
            continue
        token.map = [token.map[0] + 1, token.map[1] + 1]
        for ch in token.children or []:
            ch.map = token.map
    return SyntaxTreeNode(tokens), tokens, env


class capture_tokens:
    """Context manager recording the token list the docutils/sphinx renderer receives (before it mutates maps)."""

    def __enter__(self):
        from myst_parser.mdit_to_docutils.base import DocutilsRenderer
        self.cls = DocutilsRenderer
        self.orig = DocutilsRenderer.render
        self.tokens = None
        me = self

        def render(rself, tokens, options, md_env):
            if me.tokens is None:
                me.tokens = [t.as_dict() for t in copy.deepcopy(list(tokens))]
            return me.orig(rself, tokens, options, md_env)

        DocutilsRenderer.render = render
        return self

    def __exit__(self, *a):
        self.cls.render = self.orig


class record_dynamic:
    """Context manager recording every run of the dynamic syntax (directive, role, substitution, front matter)
    during a parse: the answers of the model's O_dyn oracle.

    records[(backend, kind, ...)] = (nodes, warning_text) | None
      ("directive", name, arguments, content) / ("role", name, content) /
      ("substitution", "True"|"False", content) / ("front_matter", content)
          the children the render method appended to the current node (for a directive: the warnings run_directive
          appends itself, then the node list it returns)
    None = the run is outside the fragment the model covers: it changed a document registry the model tracks
    (ids, names, footnotes, section levels, current node), raised, or the same key gave two different results.
    `nodes` are kept as live node objects together with a canonical snapshot taken at the time of the run."""

    METHODS = ("render_directive", "render_myst_role", "render_substitution", "render_front_matter")

    def __init__(self, canon):
        self.canon = canon            # node, backend -> canonical tree
        self.records = {}
        self.calls = 0

    @staticmethod
    def _snap(r):
        d = r.document
        return (tuple(d.ids), tuple(d.nameids.items()), tuple(d.nametypes.items()),
                tuple(sorted(d.id_counter.items())), len(d.footnotes), len(d.autofootnotes),
                len(d.autofootnote_refs), tuple((k, len(v)) for k, v in d.footnote_refs.items()),
                len(d.symbol_footnotes), len(d.symbol_footnote_refs), len(d.citations),
                tuple((k, id(v)) for k, v in r._level_to_section.items()), id(r.current_node),
                getattr(r, "_generated_labels", 0), len(r.md_env.get("duplicate_refs", []) or []))

    def _with_role_hook(self, call):
        """run `call` with docutils' roles.role wrapped so that the (nodes, messages) a role function returns
        are recorded in self.returned"""
        from docutils.parsers.rst import roles as RR
        orig_role, me = RR.role, self

        def role(*a, **k):
            fn, msgs = orig_role(*a, **k)
            if not fn:
                return fn, msgs

            def fn2(*a2, **k2):
                res = fn(*a2, **k2)
                me.returned.append(list(res[0]) + list(res[1]))
                return res
            return fn2, msgs
        RR.role = role
        try:
            return call()
        finally:
            RR.role = orig_role

    @staticmethod
    def _wtext(r):
        if r.sphinx_env is not None and SphinxDriver._inst is not None:
            return SphinxDriver._inst.warnings_text()
        ws = getattr(r.document.settings, "warning_stream", None)
        return ws.getvalue() if hasattr(ws, "getvalue") else ""

    def _note(self, r, key, nodes, before, wbefore, ok):
        be = "sphinx" if r.sphinx_env is not None else "docutils"
        key = (be,) + key
        self.calls += 1
        val = None
        if ok and self._snap(r) == before:
            val = ([self.canon(n, be) for n in nodes], self._wtext(r)[len(wbefore):])
        if key in self.records and self.records[key] != val:
            val = None
        self.records[key] = val

    def __enter__(self):
        from myst_parser.mdit_to_docutils.base import DocutilsRenderer as R
        self.R = R
        self.orig = {n: R.__dict__[n] for n in self.METHODS}
        self.orig["run_directive"] = orig_run = R.__dict__["run_directive"]
        self.returned, self.violations = [], []
        me, orig = self, self.orig

        def by_children(meth, keyf):
            def f(r, token, *a, **k):
                before, wb = me._snap(r), me._wtext(r)
                cur = r.current_node
                old = list(cur.children)
                key = keyf(token, *a, **k)
                depth = len(me.returned)
                try:
                    if meth == "render_myst_role":
                        res = me._with_role_hook(lambda: orig[meth](r, token, *a, **k))
                    else:
                        res = orig[meth](r, token, *a, **k)
                except BaseException:
                    if key is not None:
                        me._note(r, key, [], before, wb, False)
                    raise
                now = list(cur.children)
                ok = r.current_node is cur
                # the call may only append: what was there before is still there, in place
                if [id(x) for x in now[:len(old)]] != [id(x) for x in old]:
                    ok = False                      # the run placed nodes elsewhere itself ({header}, {footer} ...): outside the model
                new = now[len(old):] if ok else []
                if ok and meth in ("render_myst_role", "render_directive") and len(me.returned) > depth:
                    # O_directive / O_role: the current node receives the list run_directive / the role function returned
                    # exactly once, at its end; before it only what the run appended itself (its own warnings; other
                    # nodes: outside the model)
                    ret = me.returned[depth]
                    head = new[:len(new) - len(ret)] if len(ret) <= len(new) else None
                    if head is None or [id(x) for x in new[len(head):]] != [id(x) for x in ret]:
                        me.violations.append((meth[7:], key))
                    elif any(x.tagname != "system_message" for x in head):
                        ok = False
                del me.returned[depth:]
                # "the oracle returns fresh nodes": every object of the result occurs once, under its parent
                seen = set()
                stack = [(cur, x) for x in new]
                while stack:
                    par, x = stack.pop()
                    if id(x) in seen or x.parent is not par:
                        me.violations.append(("not-fresh:" + getattr(x, "tagname", "#text"), key))
                        break
                    seen.add(id(x))
                    stack.extend((x, c) for c in getattr(x, "children", ()))
                if key is not None:
                    me._note(r, key, new, before, wb, ok)
                return res
            return f

        def run_directive(r, *a, **k):
            res = orig_run(r, *a, **k)
            me.returned.append(list(res))
            return res

        # render_directive = run_directive + `self.current_node += nodes`; run_directive also appends its own
        # warnings (unknown options ...) to the current node, so the run's result is read off the current node
        R.run_directive = run_directive
        R.render_directive = by_children(
            "render_directive",
            lambda t, name, arguments, additional_options=None, prepended_lines=0:
                ("directive", name, arguments, t.content) if not additional_options else None)
        R.render_myst_role = by_children(
            "render_myst_role", lambda t: ("role", str(t.meta["name"]), t.content))
        R.render_substitution = by_children(
            "render_substitution", lambda t, inline: ("substitution", "True" if inline else "False", t.content))
        R.render_front_matter = by_children(
            "render_front_matter", lambda t: ("front_matter", t.content) if isinstance(t.content, str) else None)
        return self

    def __exit__(self, *a):
        for n, f in self.orig.items():
            setattr(self.R, n, f)


# ---------------------------------------------------------------- docutils front end

class pristine_docutils:
    """While the in-process Sphinx application exists, its directives and roles are registered in docutils' global
    registries; a docutils-only parse must not see them.  Swap the registries back for the duration of the parse."""

    def __enter__(self):
        from docutils.parsers.rst import directives, roles
        self.saved = None
        inst = SphinxDriver._inst
        if inst is not None and getattr(inst, "pristine", None):
            self.saved = (directives._directives, roles._roles)
            directives._directives = dict(inst.pristine[0])
            roles._roles = dict(inst.pristine[1])
        return self

    def __exit__(self, *a):
        if self.saved:
            from docutils.parsers.rst import directives, roles
            directives._directives, roles._roles = self.saved


def docutils_parse(text, mode="myst", exts=(), extra=None, **kw):
    """Doctree directly after Parser.parse (no transforms). Returns (document, warning text)."""
    patch_linkify()
    from lib.impl import parse_only
    so = settings_for(mode, exts, **kw)
    if extra:
        so.update(extra)
    with pristine_docutils():
        return parse_only(text, so)


def docutils_publish(text, mode="myst", exts=(), extra=None, **kw):
    """Doctree after the full docutils transform pipeline. Returns (document, warning text)."""
    patch_linkify()
    from lib.impl import publish
    so = settings_for(mode, exts, **kw)
    if extra:
        so.update(extra)
    with pristine_docutils():
        return publish(text, so)


def apply_myst_transforms(document):
    """Apply, on a freshly parsed document, exactly the transforms the Coq model covers, in priority order:
    SortFootnotes, docutils Footnotes, UnreferencedFootnotesDetector, CollectFootnotes, ResolveAnchorIds."""
    from docutils.transforms.references import Footnotes
    from myst_parser.mdit_to_docutils import transforms as T
    from docutils.transforms import Transformer
    tr = Transformer(document)
    trs = [T.SortFootnotes, Footnotes, T.UnreferencedFootnotesDetector, T.CollectFootnotes, T.ResolveAnchorIds]
    if hasattr(document.settings, "env"):      # the Sphinx parser does not register the detector
        trs.remove(T.UnreferencedFootnotesDetector)
    tr.add_transforms(trs)
    tr.apply_transforms()
    return document


# ---------------------------------------------------------------- in-process Sphinx renderer

class SphinxDriver:
    """One Sphinx application in a scratch directory; documents are parsed in-process with SphinxRenderer by
    giving a fresh docutils document the application's environment (7-30 ms per document)."""

    _inst = None

    @classmethod
    def get(cls):
        if cls._inst is None:
            cls._inst = cls()
        return cls._inst

    def __init__(self):
        patch_linkify()
        from sphinx.application import Sphinx
        from sphinx.util.docutils import docutils_namespace, patch_docutils
        self.dir = tempfile.mkdtemp(prefix="mystverif-c02-")
        atexit.register(self.close)
        self.src = os.path.join(self.dir, "src")
        os.makedirs(self.src)
        with open(os.path.join(self.src, "conf.py"), "w") as f:
            f.write("extensions = ['myst_parser']\nexclude_patterns=['_build']\n")
        with open(os.path.join(self.src, "index.md"), "w") as f:
            f.write("# index\n")
        from docutils.parsers.rst import directives as _d, roles as _r
        self.pristine = (dict(_d._directives), dict(_r._roles))
        self._ns = docutils_namespace()
        self._ns.__enter__()
        self._pd = patch_docutils()
        self._pd.__enter__()
        self.status, self.warning = io.StringIO(), io.StringIO()
        self.app = Sphinx(self.src, self.src, os.path.join(self.dir, "out"), os.path.join(self.dir, "doctrees"),
                          "html", status=self.status, warning=self.warning, freshenv=True)
        self.closed = False

    def close(self):
        if getattr(self, "closed", True):
            return
        self.closed = True
        try:
            self._pd.__exit__(None, None, None)
            self._ns.__exit__(None, None, None)
        except Exception:
            pass
        shutil.rmtree(self.dir, ignore_errors=True)

    def _reset(self, config):
        env = self.app.env
        env.myst_config = config
        env.current_document.docname = "index"
        # forget per-document state of previous parses (labels, equations, footnotes ...)
        env.domains._clear_doc("index")
        env.temp_data.clear()
        env.current_document.docname = "index"
        env.metadata.pop("index", None)
        self.warning.seek(0)
        self.warning.truncate()

    def warnings_text(self):
        return re.sub(r"\x1b\[[0-9;]*m", "", self.warning.getvalue()).replace(self.src + os.sep, "")

    def parse(self, text, config):
        """Doctree directly after MystParser.parse (SphinxRenderer), no transforms.
        Returns (document, sphinx warning text)."""
        from docutils.frontend import get_default_settings
        from docutils.utils import new_document
        from sphinx.util.docutils import sphinx_domains
        from myst_parser.parsers.sphinx_ import MystParser
        self._reset(config)
        st = get_default_settings(MystParser)
        for k, v in self.app.env.settings.items():   # what a real build passes (auto_id_prefix, halt_level 5 ...)
            setattr(st, k, v)
        st.env = self.app.env
        st.warning_stream = io.StringIO()
        st.report_level = 1
        st.halt_level = 5
        doc = new_document(os.path.join(self.src, "index.md"), st)
        parser = MystParser()
        with sphinx_domains(self.app.env):
            parser.parse(text, doc)
        # env.docname stays "index": transforms applied to the document afterwards read it
        return doc, self.warnings_text()

    def publish(self, text, config, post=True):
        """Doctree after Sphinx's read pipeline (all registered transforms) and, if post, the post-transforms
        (reference resolution).  Returns (document, sphinx warning text)."""
        from docutils.core import publish_doctree
        from sphinx.io import SphinxStandaloneReader
        from sphinx.util.docutils import sphinx_domains
        from myst_parser.parsers.sphinx_ import MystParser
        self._reset(config)
        app, env = self.app, self.app.env
        try:
            reader = SphinxStandaloneReader()
            reader.setup(app)
            parser = MystParser()
            parser.set_application(app)
            with sphinx_domains(env):
                doc = publish_doctree(text, os.path.join(self.src, "index.md"), reader=reader, parser=parser,
                                      settings_overrides={**env.settings, "env": env, "gettext_compact": True,
                                                          "input_encoding": "utf-8", "output_encoding": "unicode",
                                                          "traceback": True, "warning_stream": io.StringIO()})
            if post:
                env.apply_post_transforms(doc, "index")
        finally:
            env.current_document.docname = ""
        return doc, self.warnings_text()
