"""Round 3 source-translation tie for myst_parser/inventory.py (C18; reused by gen/c19_filters.py).

A fail-closed walker from a restricted subset of Python *statements* to Gallina, on top of the conventions
of gen/py2coq.py (Untranslatable, continuation duplicated into both branches of an `if`), extended with what
InventoryFileReader and the loaders need:

  * methods with `self.` state: `self` is a Gallina value (the reader record) that is re-bound by `let`;
  * `while` loops: one top-level `Fixpoint <fn>_whileN (K : env -> R) (fuel : nat) env` per loop, written in
    tail form: the exit branch calls the continuation K with the variables in scope, the body ends in the
    recursive call; the fuel term for every loop is supplied by the caller (table FUEL);
  * `for` loops over `d.items()`, over a dict, over a tuple literal and over a generator call: one
    `Fixpoint <fn>_forN (K) (items : list _) env {struct items}` per loop; a generator is the pair
    (items yielded, optional exception) and its exception is raised after the last item;
  * generators: `yield v; rest` is `gcons v rest` (or `v :: rest` for a generator that cannot raise);
  * calls that can raise or that change state (x.decode(), reader.readline(), stream.read, decompress, tuple
    unpacking of split) are hoisted out of the expression they occur in and bound before the statement;
  * `continue`, `return`, `raise ValueError(...)`, `if not m: continue` on an optional value (a `match`).

Everything else raises Untranslatable.  The expression-level DOMAIN MAPPING (which Python operation becomes which
Gallina primitive) is in `Walker.call`, `Walker.compare`, `Walker.subscript`, `Walker.dict_path`; the primitives
are defined in coq/InvLoad/SrcPrims.v, coq/InvLoad/PyText.v and coq/InvLoad/Load.v (al_* operations).
"""
from __future__ import annotations

import ast

from gen.py2coq import Untranslatable, coq_str

U = Untranslatable

INV_FIELDS = {"name": "inv_name", "version": "inv_version", "base_url": "inv_base", "objects": "inv_objects"}
ITEM_FIELDS = {"loc": "it_loc", "text": "it_text"}
INVMATCH_FIELDS = {"inv": "m_inv", "domain": "m_domain", "otype": "m_otype", "name": "m_name", "project": "m_project",
                   "version": "m_version", "base_url": "m_base", "loc": "m_loc", "text": "m_text"}
SEQ = ("str", "bytes")
# Gallina globals that the emitted code refers to: a Python variable of the same name is renamed (suffix _)
RESERVED = set(INV_FIELDS.values()) | set(ITEM_FIELDS.values()) | set(INVMATCH_FIELDS.values()) | {
    "stream", "buffer", "eof", "dec", "decode", "dstep", "dflush", "derr", "dinit", "match_line", "rstrip", "contains", "join",
    "length", "fst", "snd", "app", "nil", "cons", "None", "Some", "negb", "andb", "orb", "skipn", "firstn", "removelast",
    "match", "end", "with", "fun", "let", "fix", "forall", "exists", "Type", "Set", "Prop"}


class _Rename(ast.NodeTransformer):
    def visit_Name(self, node):
        if node.id in RESERVED:
            node.id = node.id + "_"
        return node

    def visit_arg(self, node):
        if node.arg in RESERVED:
            node.arg = node.arg + "_"
        return node


def rn(name: str) -> str:
    return name + "_" if name in RESERVED else name


def lit(s) -> str:
    if isinstance(s, bytes):
        s = s.decode("latin-1")
    return coq_str(s) if s else "[]"


class Walker:
    """spec keys: coq_name, params [(py name, coq type)], types {py name: type tag}, mode, rtype, fuel [terms],
    reader (name of the variable holding the reader, if any), returns_self (bool), structs {var: [keys]}."""

    def __init__(self, fn: ast.FunctionDef, spec: dict, known: dict):
        import copy
        fn = _Rename().visit(copy.deepcopy(fn))
        spec = dict(spec)
        spec["params"] = [(rn(p), t) for p, t in spec["params"]]
        spec["types"] = {rn(k): v for k, v in spec["types"].items()}
        if spec.get("reader"):
            spec["reader"] = rn(spec["reader"])
        self.fn = fn
        self.spec = spec
        self.known = known            # python callee name -> (coq name, arg count, kind)
        self.types = dict(spec["types"])
        self.mode = spec["mode"]
        self.R = spec["rtype"]
        self.reader = spec.get("reader")
        self.defs: list[str] = []
        self.n_while = 0
        self.n_for = 0
        self.n_tmp = 0
        self.eff: list = []
        self.some: dict[str, str] = {}        # option variable known to be Some -> payload variable
        self.structs: dict[str, dict] = {}     # variable holding a dict literal -> {key: bound variable}
        self.dictval: dict[tuple, str] = {}    # (dict var, key var) -> variable bound to d[key] by a for loop
        self.consumed: set[str] = set()
        self.cont_stack: list = []

    # ------------------------------------------------------------------ result constructors
    def RAISE(self, e: str) -> str:
        if self.mode == "gen":
            return f"(nil, Some {e})"
        if self.mode == "fun-ires":
            return f"(IRaise {e})"
        raise U(f"{self.fn.name}: an exception in a function translated as total")

    def END(self, env) -> str:
        if self.mode == "gen":
            return "(nil, None)"
        if self.mode == "gen-list":
            return "nil"
        if self.mode == "proc":
            return self.reader
        raise U(f"{self.fn.name}: may fall off the end")

    def RET(self, v: str) -> str:
        if self.mode == "fun-ires":
            return f"(IOk ({v}, {self.reader}))" if self.spec.get("returns_self") else f"(IOk {v})"
        if self.mode == "fun-pure":
            return v
        raise U(f"{self.fn.name}: return in a {self.mode}")

    def YIELD(self, v: str, rest: str) -> str:
        if self.mode == "gen":
            return f"(gcons {v}\n({rest}))"
        if self.mode == "gen-list":
            return f"({v} ::\n({rest}))"
        raise U(f"{self.fn.name}: yield outside a generator")

    # ------------------------------------------------------------------ helpers
    def tmp(self, p="c") -> str:
        self.n_tmp += 1
        return f"__{p}{self.n_tmp}"

    def ctype(self, tag: str) -> str:
        table = self.spec.get("ctypes", {})
        if tag in table:
            return table[tag]
        base = {"str": "str", "bytes": "bytes", "Z": "Z", "bool": "bool", "reader": "reader", "ostr": "(option str)",
                "dstate": "dstate", "objs": "objs_t", "sinv": "sinv_t", "item": "item", "inventory": "inventory",
                "strs": "(list str)", "m5": "(option (str * str * str * str * str))", "sitem": "sitem",
                "types": "(list (str * list (str * item)))", "refs": "(list (str * item))", "sdata": "(list (str * sitem))",
                "invs": "(list (str * inventory))", "sinvs": "(list (str * sinv_t))"}
        if tag not in base:
            raise U(f"no Gallina type for tag {tag}")
        return base[tag]

    def vtype(self, name: str) -> str:
        if name not in self.types:
            raise U(f"{self.fn.name}: no type given for variable {name}")
        return self.types[name]

    ITEMS = {"objs": ("str", "types"), "types": ("str", "refs"), "refs": ("str", "item"), "sinv": ("str", "sdata"),
             "sdata": ("str", "sitem"), "invs": ("str", "inventory"), "sinvs": ("str", "sinv")}

    def declare(self, name: str, tag: str):
        """type of a variable at its binding site: the table given by the caller wins, else what is inferred"""
        if name in self.types or name == "__u":
            return
        if tag in ("?", "none"):
            raise U(f"{self.fn.name}: cannot infer the type of {name}; add it to the type table")
        self.types[name] = tag

    def use(self, name: str) -> str:
        if name in self.consumed:
            raise U(f"{self.fn.name}: {name} is used after a generator consumed it")
        return name

    def guarded(self, build):
        saved, self.eff = self.eff, []
        val = build()
        effs, self.eff = self.eff, saved

        def wrap(inner: str) -> str:
            for e in reversed(effs):
                inner = e(inner)
            return inner
        return val, wrap

    # ------------------------------------------------------------------ types (best effort, for dispatch only)
    def ty(self, e: ast.expr) -> str:
        if isinstance(e, ast.Dict) and not e.keys:
            return self.spec.get("empty_dict", "?")        # `x = {}`: which dict it is comes from the caller
        if isinstance(e, ast.List) and not e.elts:
            return self.spec.get("empty_list", "?")
        if isinstance(e, ast.Constant):
            v = e.value
            return "str" if isinstance(v, str) else "bytes" if isinstance(v, bytes) else "bool" if isinstance(v, bool) \
                else "Z" if isinstance(v, int) else "none" if v is None else "?"
        if isinstance(e, ast.Name):
            return self.types.get(e.id, "?")
        if isinstance(e, ast.Attribute) and isinstance(e.value, ast.Name) and e.value.id == self.reader:
            return {"buffer": "bytes", "eof": "bool"}.get(e.attr, "?")
        if isinstance(e, ast.JoinedStr):
            return "str"
        if isinstance(e, ast.BinOp):
            return self.ty(e.left)
        if isinstance(e, ast.Subscript):
            if isinstance(e.slice, ast.Slice):
                return self.ty(e.value)
            k = e.slice.value if isinstance(e.slice, ast.Constant) else None
            bt = self.ty(e.value)
            if isinstance(e.value, ast.Name) and e.value.id in self.structs and k in self.structs[e.value.id]:
                return self.types.get(self.structs[e.value.id][k], "?")
            if bt == "inventory":
                return {"name": "str", "version": "str", "base_url": "ostr", "objects": "objs"}.get(k, "?")
            if bt == "item":
                return {"loc": "str", "text": "ostr"}.get(k, "?")
            if bt == "objs":
                return "types"
            if bt == "types":
                return "refs"
            return "?"
        if isinstance(e, ast.Call):
            src = ast.unparse(e.func)
            if src == "zlib.decompressobj":
                return "dstate"
            if src == "re.match":
                return "m5"
            if src == "InventoryFileReader":
                return "reader"
            if src in self.known and self.known[src][2] == "pure" and src == "match_with_wildcard":
                return "bool"
        if isinstance(e, ast.Call) and isinstance(e.func, ast.Attribute):
            if e.func.attr in ("rstrip", "decode", "readline"):
                return "str"
            if e.func.attr in ("read", "decompress", "flush"):
                return "bytes"
            if e.func.attr == "find":
                return "Z"
            if e.func.attr == "get":
                bt = self.ty(e.func.value)
                return {"objs": "types", "types": "refs"}.get(bt, "?")
        return "?"

    # ------------------------------------------------------------------ expressions
    def ex(self, e: ast.expr) -> str:
        if isinstance(e, ast.Constant):
            v = e.value
            if isinstance(v, bool):
                return "true" if v else "false"
            if isinstance(v, (str, bytes)):
                return lit(v)
            if v is None:
                return "None"
            if isinstance(v, int):
                return f"({v})%Z"
            raise U(f"constant {v!r}")
        if isinstance(e, ast.UnaryOp) and isinstance(e.op, ast.USub) and isinstance(e.operand, ast.Constant) \
                and type(e.operand.value) is int:
            return f"(-{e.operand.value})%Z"
        if isinstance(e, ast.Name):
            return self.use(e.id)
        if isinstance(e, ast.Attribute):
            if isinstance(e.value, ast.Name) and e.value.id == self.reader and e.attr in ("buffer", "eof"):
                return f"({e.attr} {self.use(self.reader)})"
            raise U(f"attribute {ast.unparse(e)}")
        if isinstance(e, ast.JoinedStr):
            parts = []
            for v in e.values:
                if isinstance(v, ast.Constant):
                    parts.append(lit(v.value))
                elif isinstance(v, ast.FormattedValue) and v.conversion == -1 and v.format_spec is None \
                        and isinstance(v.value, (ast.Name, ast.Attribute)) and self.ty(v.value) == "str":
                    parts.append(self.ex(v.value))
                else:
                    raise U(f"f-string part {ast.dump(v)[:80]}")
            return "(" + " ++ ".join(parts) + ")" if parts else "[]"
        if isinstance(e, ast.BinOp) and isinstance(e.op, ast.Add):
            if self.ty(e.left) == "Z" or self.ty(e.right) == "Z":
                return f"({self.ex(e.left)} + {self.ex(e.right)})%Z"
            if self.ty(e.left) in SEQ or self.ty(e.right) in SEQ:
                return f"({self.ex(e.left)} ++ {self.ex(e.right)})"
            raise U(f"+ on {ast.unparse(e)}")
        if isinstance(e, ast.IfExp):
            a, b = e.body, e.orelse
            ta, tb = self.ex(a), self.ex(b)
            if self.ty(a) == "none" and self.ty(b) in SEQ:
                tb = f"(Some {tb})"
            elif self.ty(b) == "none" and self.ty(a) in SEQ:
                ta = f"(Some {ta})"
            return f"(if {self.test(e.test)} then {ta} else {tb})"
        if isinstance(e, ast.BoolOp) and isinstance(e.op, ast.Or) and len(e.values) == 2 and self.ty(e.values[0]) == "ostr" \
                and self.ty(e.values[1]) == "str":
            a, b = self.ex(e.values[0]), self.ex(e.values[1])
            return f"(match {a} with Some __s => if is_nil __s then {b} else __s | None => {b} end)"
        if isinstance(e, ast.Tuple):
            return "(" + ", ".join(self.ex(x) for x in e.elts) + ")"
        if isinstance(e, ast.Dict):
            keys = [k.value if isinstance(k, ast.Constant) else None for k in e.keys]
            if keys == ["loc", "text"]:
                tx = self.ex(e.values[1])
                if self.ty(e.values[1]) in SEQ:
                    tx = f"(Some {tx})"
                return f"{{| it_loc := {self.ex(e.values[0])}; it_text := {tx} |}}"
            if keys == ["name", "version", "base_url", "objects"]:
                return "(mk_inv " + " ".join(self.ex(v) for v in e.values) + ")"
            if not keys:
                return "[]"
            raise U(f"dict literal with keys {keys}")
        if isinstance(e, ast.List) and not e.elts:
            return "[]"
        if isinstance(e, ast.Subscript):
            return self.subscript(e)
        if isinstance(e, ast.Call):
            return self.call(e)
        if isinstance(e, (ast.Compare, ast.BoolOp, ast.UnaryOp)):
            return self.test(e)
        raise U(f"expression {ast.dump(e)[:120]}")

    def subscript(self, e: ast.Subscript) -> str:
        sl = e.slice
        if isinstance(sl, ast.Slice):
            if sl.step is not None:
                raise U("slice step")
            base = self.ex(e.value)
            if sl.lower is not None and sl.upper is None:
                if isinstance(sl.lower, ast.Constant) and type(sl.lower.value) is int and sl.lower.value >= 0:
                    return f"(skipn {sl.lower.value} {base})"
                return f"(zslice_from {base} {self.ex(sl.lower)})"
            if sl.lower is None and sl.upper is not None:
                if isinstance(sl.upper, ast.UnaryOp) and isinstance(sl.upper.op, ast.USub) \
                        and isinstance(sl.upper.operand, ast.Constant) and sl.upper.operand.value == 1:
                    return f"(removelast {base})"
                return f"(zslice_to {base} {self.ex(sl.upper)})"
            raise U(f"slice {ast.unparse(e)}")
        if isinstance(e.value, ast.Name) and isinstance(sl, ast.Name) and (e.value.id, sl.id) in self.dictval:
            return self.dictval[(e.value.id, sl.id)]                       # d[k] inside `for k in d`
        if isinstance(sl, ast.Constant) and isinstance(sl.value, str):
            k = sl.value
            if isinstance(e.value, ast.Name) and e.value.id in self.structs:
                if k not in self.structs[e.value.id]:
                    raise U(f"{e.value.id}[{k!r}]")
                return self.structs[e.value.id][k]
            bt = self.ty(e.value)
            if bt == "inventory" and k in INV_FIELDS:
                return f"({INV_FIELDS[k]} {self.ex(e.value)})"
            if bt == "item" and k in ITEM_FIELDS:
                return f"({ITEM_FIELDS[k]} {self.ex(e.value)})"
        if self.ty(e.value) in ("objs", "types"):
            # d[k] in read position: guarded in the source by a membership test; KeyError is not modelled
            return f"(al_get_or_empty {self.ex(sl)} {self.ex(e.value)})"
        raise U(f"subscript {ast.unparse(e)}")

    def call(self, e: ast.Call) -> str:
        f = e.func
        src = ast.unparse(f)
        if e.keywords and src != "InvMatch":
            raise U(f"keyword arguments in {ast.unparse(e)}")
        a = e.args
        R = self.reader
        if src == f"{R}.stream.read" and len(a) == 1 and ast.unparse(a[0]) == "_BUFSIZE":
            c, s = self.tmp("c"), self.tmp("s")
            self.eff.append(lambda inner, c=c, s=s: f"let '({c}, {s}) := stream_read (stream {R}) in\nlet {R} := set_stream {R} {s} in\n{inner}")
            return c
        if isinstance(f, ast.Attribute):
            m, recv = f.attr, f.value
            if m == "decode" and not a and self.ty(recv) == "bytes":
                x, c = self.ex(recv), self.tmp("c")
                self.eff.append(lambda inner, x=x, c=c: f"match dec decode {x} with\n| IRaise __e => {self.RAISE('__e')}\n| IOk {c} =>\n{inner}\nend")
                return c
            if m == "readline" and not a and isinstance(recv, ast.Name) and recv.id == R:
                c = self.tmp("c")
                self.use(R)
                self.eff.append(lambda inner, c=c: f"match readline_src {R} with\n| IRaise __e => {self.RAISE('__e')}\n| IOk ({c}, {R}) =>\n{inner}\nend")
                return c
            if m == "rstrip" and not a and self.ty(recv) == "str":
                return f"(rstrip {self.ex(recv)})"
            if m == "find" and len(a) == 1 and isinstance(a[0], ast.Constant) and isinstance(a[0].value, bytes) \
                    and len(a[0].value) == 1 and self.ty(recv) == "bytes":
                return f"(zfind {a[0].value[0]} {self.ex(recv)})"
            if m == "endswith" and len(a) == 1 and isinstance(a[0], ast.Constant) and isinstance(a[0].value, str) \
                    and self.ty(recv) == "str":
                return f"(endswith {self.ex(recv)} {lit(a[0].value)})"
            if m == "decompress" and len(a) == 1 and self.ty(recv) == "dstate" and isinstance(recv, ast.Name):
                d, x, c = recv.id, self.ex(a[0]), self.tmp("c")
                self.eff.append(lambda inner, d=d, x=x, c=c: f"let '({d}, {c}) := dstep {d} {x} in\nif derr {d} then {self.RAISE('ZlibErr')} else\n{inner}")
                return c
            if m == "flush" and not a and self.ty(recv) == "dstate":
                return f"(dflush {self.ex(recv)})"
            if m == "get" and len(a) == 2 and isinstance(a[1], ast.Dict) and not a[1].keys and self.ty(recv) in ("objs", "types"):
                return f"(al_get_or_empty {self.ex(a[0])} {self.ex(recv)})"
            if m == "join" and len(a) == 1 and self.ty(recv) == "str" and self.ty(a[0]) == "strs":
                return f"(join {self.ex(recv)} {self.ex(a[0])})"
        if src == "zlib.decompressobj" and not a:
            return "dinit"
        if src == "InventoryFileReader" and len(a) == 1:
            return f"(new_reader {self.ex(a[0])})"
        if src == "re.match" and len(a) == 2 and isinstance(a[0], ast.Constant) and isinstance(a[0].value, str):
            return f"(match_line {self.ex(a[1])})"
        if src == "InvMatch" and not a:
            kws = {k.arg: k.value for k in e.keywords}
            if set(kws) != set(INVMATCH_FIELDS):
                raise U(f"InvMatch fields {sorted(kws)}")
            return "{| " + "; ".join(f"{INVMATCH_FIELDS[k]} := {self.ex(kws[k])}" for k in INVMATCH_FIELDS) + " |}"
        if src in self.known:
            coq, n, kind = self.known[src]
            if len(a) != n:
                raise U(f"{src} called with {len(a)} arguments")
            t = f"({coq} " + " ".join(self.ex(x) for x in a) + ")"
            if kind == "pure":
                return t
            if kind == "ires":
                c = self.tmp("c")
                self.eff.append(lambda inner, t=t, c=c: f"match {t} with\n| IRaise __e => {self.RAISE('__e')}\n| IOk {c} =>\n{inner}\nend")
                return c
        raise U(f"call {ast.unparse(e)}")

    # ------------------------------------------------------------------ tests
    def truth(self, e: ast.expr) -> str:
        t = self.ty(e)
        if t == "bool":
            return self.ex(e)
        if t in SEQ:
            return f"(negb (is_nil {self.ex(e)}))"
        if t in ("ostr", "m5"):
            return f"(negb (is_none {self.ex(e)}))"
        raise U(f"truth value of {ast.unparse(e)} : {t}")

    def test(self, t: ast.expr) -> str:
        if isinstance(t, ast.UnaryOp) and isinstance(t.op, ast.Not):
            return f"(negb {self.test(t.operand)})"
        if isinstance(t, ast.BoolOp):
            op = "andb" if isinstance(t.op, ast.And) else "orb"
            out = self.test(t.values[0])
            for v in t.values[1:]:
                out = f"({op} {out} {self.test(v)})"
            return out
        if isinstance(t, ast.Compare) and len(t.ops) == 1:
            return self.compare(t.left, t.ops[0], t.comparators[0])
        if isinstance(t, ast.Call) and ast.unparse(t.func) in self.known and self.known[ast.unparse(t.func)][2] == "pure":
            return self.call(t)
        if isinstance(t, ast.Call) and isinstance(t.func, ast.Attribute) and t.func.attr == "endswith":
            return self.call(t)
        return self.truth(t)

    def compare(self, l, op, r) -> str:
        if isinstance(op, (ast.Eq, ast.NotEq)):
            if self.ty(l) == "Z" or self.ty(r) == "Z":
                c = f"(Z.eqb {self.ex(l)} {self.ex(r)})"
            elif self.ty(l) in SEQ and self.ty(r) in SEQ:
                c = f"(str_eqb {self.ex(l)} {self.ex(r)})"
            else:
                raise U(f"== on {ast.unparse(l)} : {self.ty(l)}, {ast.unparse(r)} : {self.ty(r)}")
            return c if isinstance(op, ast.Eq) else f"(negb {c})"
        if isinstance(op, (ast.In, ast.NotIn)):
            rt = self.ty(r)
            if rt == "str" and isinstance(l, ast.Constant) and isinstance(l.value, str) and len(l.value) == 1:
                c = f"(mem_N {ord(l.value)} {self.ex(r)})"
            elif rt == "str" and self.ty(l) == "str":
                c = f"(contains {self.ex(l)} {self.ex(r)})"
            elif rt in ("objs", "types", "refs") and self.ty(l) == "str":
                c = f"(al_mem {self.ex(l)} {self.ex(r)})"
            else:
                raise U(f"in on {ast.unparse(l)}, {ast.unparse(r)} : {rt}")
            return c if isinstance(op, ast.In) else f"(negb {c})"
        if isinstance(op, (ast.Is, ast.IsNot)) and isinstance(r, ast.Constant) and r.value is None and self.ty(l) in ("ostr", "m5"):
            c = f"(is_none {self.ex(l)})"
            return c if isinstance(op, ast.Is) else f"(negb {c})"
        raise U(f"comparison {ast.dump(op)}")

    # ------------------------------------------------------------------ dict updates
    def dict_path(self, target: ast.expr):
        """a[k1]...[kn] / a.setdefault(k1, {})...  -> (base variable, [(op, key term)]) with op in {'idx', 'sd'}"""
        path = []
        e = target
        while True:
            if isinstance(e, ast.Subscript) and not isinstance(e.slice, ast.Slice):
                if isinstance(e.value, ast.Name) and e.value.id in self.structs and isinstance(e.slice, ast.Constant):
                    return self.structs[e.value.id][e.slice.value], list(reversed(path))
                path.append(("idx", self.ex(e.slice)))
                e = e.value
            elif isinstance(e, ast.Call) and isinstance(e.func, ast.Attribute) and e.func.attr == "setdefault" \
                    and len(e.args) == 2 and isinstance(e.args[1], ast.Dict) and not e.args[1].keys and not e.keywords:
                path.append(("sd", self.ex(e.args[0])))
                e = e.func.value
            elif isinstance(e, ast.Name):
                return self.use(e.id), list(reversed(path))
            else:
                raise U(f"dict path {ast.unparse(target)}")

    def path_update(self, base: str, path, leaf) -> str:
        """the new value of the dict `base` after following `path` and applying `leaf` (a function term -> term) at the end"""
        def go(d: str, p) -> str:
            if not p:
                return leaf(d)
            (op, k), rest = p[0], p[1:]
            d1 = f"(al_setdefault {k} [] {d})" if op == "sd" else d
            if not rest and leaf is None:
                return d1
            v = self.tmp("d")
            inner = go(v, rest)
            return f"(al_update {k} (fun {v} => {inner}) {d1})"
        return go(base, path)

    # ------------------------------------------------------------------ statements
    def stmts(self, body, env, k) -> str:
        if not body:
            return k(env)
        s, rest = body[0], list(body[1:])

        def cont(env2):
            return self.stmts(rest, env2, k)

        def bind(name, term, env_):
            return f"let {name} := {term} in\n" + cont(env_ if name in env_ else env_ + [name])

        if isinstance(s, ast.Expr) and isinstance(s.value, ast.Constant):
            return cont(env)
        if isinstance(s, ast.Pass) or (isinstance(s, ast.AnnAssign) and s.value is None):
            return cont(env)
        if isinstance(s, (ast.Assign, ast.AnnAssign)):
            if isinstance(s, ast.Assign):
                if len(s.targets) != 1:
                    raise U("chained assignment")
                tgt = s.targets[0]
            else:
                tgt = s.target
            return self.assign(tgt, s.value, env, cont)
        if isinstance(s, ast.AugAssign) and isinstance(s.op, ast.Add):
            if isinstance(s.target, ast.Name) and self.vtype(s.target.id) in SEQ:
                n = s.target.id
                v, wrap = self.guarded(lambda: self.ex(s.value))
                return wrap(bind(n, f"({n} ++ {v})", env))
            if isinstance(s.target, ast.Attribute) and ast.unparse(s.target) == f"{self.reader}.buffer":
                R = self.reader
                v, wrap = self.guarded(lambda: self.ex(s.value))
                return wrap(bind(R, f"set_buffer {R} (buffer {R} ++ {v})", env))
            raise U(f"+= {ast.unparse(s.target)}")
        if isinstance(s, ast.Expr) and isinstance(s.value, ast.Yield) and s.value.value is not None:
            v, wrap = self.guarded(lambda: self.ex(s.value.value))
            return wrap(self.YIELD(v, cont(env)))
        if isinstance(s, ast.Expr) and isinstance(s.value, ast.Call):
            c = s.value
            src = ast.unparse(c.func)
            if src == f"{self.reader}.read_buffer" and not c.args:
                return bind(self.reader, f"read_buffer_src {self.use(self.reader)}", env)
            if isinstance(c.func, ast.Attribute) and c.func.attr == "append" and len(c.args) == 1 \
                    and isinstance(c.func.value, ast.Name) and self.vtype(c.func.value.id) == "strs":
                n = c.func.value.id
                v, wrap = self.guarded(lambda: self.ex(c.args[0]))
                return wrap(bind(n, f"({n} ++ [{v}])", env))
            if isinstance(c.func, ast.Attribute) and c.func.attr == "setdefault":
                base, path = self.dict_path(c)
                return bind(base, self.path_update(base, path, None), env)
            raise U(f"expression statement {ast.unparse(s)[:80]}")
        if isinstance(s, ast.If):
            return self.if_(s, rest, env, k)
        if isinstance(s, ast.While):
            return self.while_(s, env, cont)
        if isinstance(s, ast.For):
            return self.for_(s, env, cont)
        if isinstance(s, ast.Continue):
            if not self.cont_stack:
                raise U("continue outside a loop")
            return self.cont_stack[-1](env)
        if isinstance(s, ast.Return) and s.value is not None:
            if isinstance(s.value, ast.Name) and s.value.id in self.structs:
                st = self.structs[s.value.id]
                if list(st) != ["name", "version", "base_url", "objects"]:
                    raise U("returned dict is not an inventory")
                return self.RET("(mk_inv " + " ".join(st[x] for x in st) + ")")
            v, wrap = self.guarded(lambda: self.ex(s.value))
            return wrap(self.RET(v))
        if isinstance(s, ast.Raise) and isinstance(s.exc, ast.Call) and ast.unparse(s.exc.func) == "ValueError" and s.cause is None:
            return self.RAISE("ValueErr")
        raise U(f"{self.fn.name}: statement {ast.unparse(s)[:100]}")

    def assign(self, tgt, value, env, cont) -> str:
        def bind(name, term, env_):
            return f"let {name} := {term} in\n" + cont(env_ if name in env_ else env_ + [name])
        if isinstance(tgt, ast.Name) and isinstance(value, ast.Dict) and tgt.id in self.spec.get("structs", {}):
            keys = [k.value if isinstance(k, ast.Constant) else None for k in value.keys]
            if keys != self.spec["structs"][tgt.id]:
                raise U(f"{tgt.id} = dict with keys {keys}")
            names = {k: f"{tgt.id}__{k}" for k in keys}
            for k, v in zip(keys, value.values):
                self.declare(names[k], {"objects": "objs"}.get(k, self.ty(v)))
            vals, wrap = self.guarded(lambda: [self.ex(v) for v in value.values])
            self.structs[tgt.id] = names
            out = ""
            env2 = list(env)
            for k, v in zip(keys, vals):
                out += f"let {names[k]} := {v} in\n"
                if names[k] not in env2:
                    env2.append(names[k])
            return wrap(out + cont(env2))
        if isinstance(tgt, ast.Name):
            self.declare(tgt.id, self.ty(value))
            v, wrap = self.guarded(lambda: self.ex(value))
            if self.vtype(tgt.id) == "ostr" and self.ty(value) in SEQ:
                v = f"(Some {v})"
            if self.vtype(tgt.id) == "str" and isinstance(value, ast.Constant) and value.value is None:
                self.types[tgt.id] = "ostr"          # x = None on a string variable: from here on x is optional
                v = "(@None str)"
            self.some.pop(tgt.id, None)
            return wrap(bind(tgt.id, v, env))
        if isinstance(tgt, ast.Attribute) and isinstance(tgt.value, ast.Name) and tgt.value.id == self.reader \
                and tgt.attr in ("buffer", "eof"):
            R = self.reader
            v, wrap = self.guarded(lambda: self.ex(value))
            return wrap(bind(R, f"set_{tgt.attr} {R} {v}", env))
        if isinstance(tgt, ast.Tuple) and all(isinstance(x, ast.Name) for x in tgt.elts):
            names = [x.id if x.id != "_" else "__u" for x in tgt.elts]
            for n in names:
                if n != "__u":
                    self.declare(n, "str")           # split / groups / an item of Sphinx's 4-tuple: strings
                    self.some.pop(n, None)
            env2 = env + [n for n in names if n not in env and n != "__u"]
            pat = "'(" + ", ".join(names) + ")"
            if isinstance(value, ast.Call) and isinstance(value.func, ast.Attribute) and value.func.attr == "split":
                a = value.args
                if len(a) == 2 and isinstance(a[0], ast.Constant) and a[0].value is None and isinstance(a[1], ast.Constant) \
                        and a[1].value == len(names) - 1:
                    x, wrap = self.guarded(lambda: self.ex(value.func.value))
                    return wrap(f"match split_ws {a[1].value} {x} with\n| [" + "; ".join(names) + f"] =>\n{cont(env2)}\n| _ => {self.RAISE('ValueErr')}\nend")
                if len(a) == 2 and isinstance(a[0], ast.Constant) and isinstance(a[0].value, str) and len(a[0].value) == 1 \
                        and isinstance(a[1], ast.Constant) and a[1].value == 1 and len(names) == 2:
                    x, wrap = self.guarded(lambda: self.ex(value.func.value))
                    return wrap(f"let {pat} := split_at {ord(a[0].value)} {x} in\n{cont(env2)}")
                raise U(f"split {ast.unparse(value)}")
            if isinstance(value, ast.Call) and isinstance(value.func, ast.Attribute) and value.func.attr == "groups" \
                    and not value.args and isinstance(value.func.value, ast.Name):
                m = value.func.value.id
                if m not in self.some:
                    raise U(f"{m}.groups() where {m} is not known to be a match")
                return f"let {pat} := {self.some[m]} in\n{cont(env2)}"
            if isinstance(value, (ast.Name, ast.Subscript)) and (self.ty(value) == "sitem" or isinstance(value, ast.Subscript)):
                v = self.ex(value)
                return f"let {pat} := {v} in\n{cont(env2)}"
            raise U(f"tuple assignment from {ast.unparse(value)}")
        if isinstance(tgt, ast.Subscript):
            base, path = self.dict_path(tgt.value)
            key = self.ex(tgt.slice)
            v, wrap = self.guarded(lambda: self.ex(value))
            return wrap(bind(base, self.path_update(base, path, lambda d: f"(al_set {key} {v} {d})"), env))
        raise U(f"assignment target {ast.unparse(tgt)}")

    def if_(self, s: ast.If, rest, env, k) -> str:
        t = s.test
        neg = False
        if isinstance(t, ast.UnaryOp) and isinstance(t.op, ast.Not):
            t, neg = t.operand, True
        opt = None
        if isinstance(t, ast.Name) and self.ty(t) in ("m5", "ostr"):
            opt, some_branch = t.id, (s.orelse if neg else s.body)
            none_branch = s.body if neg else s.orelse
        elif isinstance(t, ast.Compare) and len(t.ops) == 1 and isinstance(t.ops[0], (ast.Is, ast.IsNot)) and not neg \
                and isinstance(t.left, ast.Name) and self.ty(t.left) in ("m5", "ostr") \
                and isinstance(t.comparators[0], ast.Constant) and t.comparators[0].value is None:
            opt = t.left.id
            none_branch, some_branch = (s.body, s.orelse) if isinstance(t.ops[0], ast.Is) else (s.orelse, s.body)
        if opt is not None and self.ty(ast.Name(id=opt)) == "m5":
            p = self.tmp("m")
            saved = dict(self.some)
            a = self.stmts(list(none_branch) + rest, env, k)
            self.some[opt] = p
            b = self.stmts(list(some_branch) + rest, env, k)
            self.some = saved
            return f"match {self.use(opt)} with\n| None =>\n{a}\n| Some {p} =>\n{b}\nend"
        if opt is not None and self.ty(ast.Name(id=opt)) == "ostr" and isinstance(s.test, ast.Compare):
            # `x is None` on an optional string: a match that re-binds x to the string in the other branch
            saved_t = self.types[opt]
            a = self.stmts(list(none_branch) + rest, env, k)
            self.types[opt] = "str"
            b = self.stmts(list(some_branch) + rest, env, k)
            self.types[opt] = saved_t
            return f"match {self.use(opt)} with\n| None =>\n{a}\n| Some {opt} =>\n{b}\nend"
        cond = self.test(s.test)
        saved_types = dict(self.types)
        a = self.stmts(list(s.body) + rest, env, k)
        self.types = dict(saved_types)
        b = self.stmts(list(s.orelse) + rest, env, k)
        self.types = saved_types
        return f"if {cond} then\n({a})\nelse\n({b})"

    def params(self, env) -> str:
        return " ".join(f"({v} : {self.ctype(self.vtype(v))})" for v in env)

    def ktype(self, env) -> str:
        return " -> ".join([self.ctype(self.vtype(v)) for v in env] + [self.R])

    def while_(self, s: ast.While, env, cont) -> str:
        if s.orelse:
            raise U("while ... else")
        fuels = self.spec.get("fuel", [])
        if self.n_while >= len(fuels):
            raise U(f"{self.fn.name}: no fuel term for while loop {self.n_while + 1}")
        fuel = fuels[self.n_while]
        self.n_while += 1
        name = f"{self.spec['coq_name']}_while{self.n_while}"
        args = " ".join(env)
        test = self.test(s.test)
        self.cont_stack.append(lambda env2: f"({name} __K __fuel {args})")
        saved = dict(self.some)
        body = self.stmts(list(s.body), list(env), lambda env2: f"({name} __K __fuel {args})")
        self.some = saved
        self.cont_stack.pop()
        oof = self.RAISE("OutOfFuelErr")
        self.defs.append(
            f"Fixpoint {name} (__K : {self.ktype(env)}) (__fuel : nat) {self.params(env)} {{struct __fuel}} : {self.R} :=\n"
            f"if {test} then\nmatch __fuel with\n| O => {oof}\n| S __fuel =>\n{body}\nend\nelse __K {args}.\n")
        return f"({name} (fun {args} =>\n{cont(list(env))}) ({fuel}) {args})"

    def for_(self, s: ast.For, env, cont) -> str:
        if s.orelse:
            raise U("for ... else")
        self.n_for += 1
        name = f"{self.spec['coq_name']}_for{self.n_for}"
        it = s.iter
        args = " ".join(env)
        pre = post = ""
        gen_exc = None
        extra_env = []
        if isinstance(it, ast.Call) and isinstance(it.func, ast.Attribute) and it.func.attr == "items" and not it.args \
                and isinstance(s.target, ast.Tuple) and len(s.target.elts) == 2 and all(isinstance(x, ast.Name) for x in s.target.elts):
            a, b = (x.id for x in s.target.elts)
            dt = self.ty(it.func.value)
            if dt in self.ITEMS:
                self.declare(a, self.ITEMS[dt][0])
                self.declare(b, self.ITEMS[dt][1])
            items = self.ex(it.func.value)
            pat, ety = f"({a}, {b})", f"({self.ctype(self.vtype(a))} * {self.ctype(self.vtype(b))})"
            extra_env = [a, b]
        elif isinstance(it, ast.Name) and self.ty(it) == "sdata" and isinstance(s.target, ast.Name):
            a = s.target.id
            self.declare(a, "str")
            b = f"__val_{it.id}"
            self.types[b] = "sitem"
            self.dictval[(it.id, a)] = b
            items = self.use(it.id)
            pat, ety = f"({a}, {b})", f"({self.ctype(self.vtype(a))} * sitem)"
            extra_env = [a, b]
        elif isinstance(it, ast.Tuple) and isinstance(s.target, ast.Name):
            a = s.target.id
            self.declare(a, self.ty(it.elts[0]) if it.elts else "?")
            items = "[" + "; ".join(self.ex(x) for x in it.elts) + "]"
            pat, ety = a, self.ctype(self.vtype(a))
            extra_env = [a]
        elif isinstance(it, ast.Call) and isinstance(it.func, ast.Attribute) and isinstance(it.func.value, ast.Name) \
                and it.func.value.id == self.reader and not it.args and it.func.attr in self.spec.get("generators", {}) \
                and isinstance(s.target, ast.Name):
            a = s.target.id
            g, ety = self.spec["generators"][it.func.attr]
            self.declare(a, ety)
            gi, ge = self.tmp("items"), self.tmp("exc")
            pre = f"let '({gi}, {ge}) := {g} {self.use(self.reader)} in\n"
            items = gi
            gen_exc = ge
            pat = a
            extra_env = [a]
            self.vtype(a)
        else:
            raise U(f"for loop over {ast.unparse(it)}")
        if gen_exc is not None:
            self.consumed.add(self.reader)       # the generator owns the reader from here on
            env = [v for v in env if v != self.reader]
            args = " ".join(env)
        # a loop variable that re-uses the name of a variable in scope: the old value is dead from here on
        # (after the loop Python holds the last item; the name is simply not in scope in the emitted code)
        env = [v for v in env if v not in extra_env]
        args = " ".join(env)
        body_env = env + extra_env
        rec = lambda env2: f"({name} __K __items {args})" if env else f"({name} __K __items)"
        self.cont_stack.append(rec)
        saved = dict(self.some)
        body = self.stmts(list(s.body), body_env, rec)
        self.some = saved
        self.cont_stack.pop()
        kcall = f"__K {args}" if env else "__K"
        ktype = self.ktype(env) if env else self.R
        self.defs.append(
            f"Fixpoint {name} (__K : {ktype}) (__items : list {ety}) {self.params(env)} {{struct __items}} : {self.R} :=\n"
            f"match __items with\n| [] => {kcall}\n| {pat} :: __items =>\n{body}\nend.\n")
        after = cont(list(env))
        if gen_exc is not None:
            after = f"match {gen_exc} with\n| Some __e => {self.RAISE('__e')}\n| None =>\n{after}\nend"
        kfun = f"(fun {args} =>\n{after})" if env else f"({after})"
        return f"{pre}({name} {kfun} {items} {args})"

    # ------------------------------------------------------------------ whole function
    def function(self) -> str:
        sp = self.spec
        want = [p for p, _ in sp["params"]]
        got = [a.arg for a in self.fn.args.args] + [a.arg for a in self.fn.args.kwonlyargs]
        if got != want:
            raise U(f"{self.fn.name}: parameters {got}, expected {want}")
        if self.fn.args.vararg or self.fn.args.kwarg:
            raise U(f"{self.fn.name}: *args/**kwargs")
        for p, t in sp["params"]:
            self.types[p] = t
        is_gen = any(isinstance(n, (ast.Yield, ast.YieldFrom)) for n in ast.walk(self.fn))
        if is_gen != (self.mode in ("gen", "gen-list")):
            raise U(f"{self.fn.name}: generator-ness changed")
        env = [p for p, _ in sp["params"]]
        term = self.stmts(list(self.fn.body), env, self.END)
        head = f"Definition {sp['coq_name']} {self.params(env)} : {self.R} :=\n{term}.\n"
        return "\n".join(self.defs) + "\n" + head


def find_def(tree: ast.Module, name: str, cls: str | None = None) -> ast.FunctionDef:
    scope = tree.body
    if cls:
        cs = [n for n in tree.body if isinstance(n, ast.ClassDef) and n.name == cls]
        if len(cs) != 1:
            raise U(f"class {cls} not found exactly once")
        scope = cs[0].body
    fs = [n for n in scope if isinstance(n, ast.FunctionDef) and n.name == name]
    if len(fs) != 1:
        raise U(f"function {name} not found exactly once")
    if fs[0].decorator_list:
        raise U(f"{name}: decorators")
    return fs[0]


# ====================================================================== inventory.py (C18)

HEADER = """(* GENERATED by gen/c18_src.py from myst_parser/inventory.py - do not edit.
   InventoryFileReader's methods, load/_load_v1/_load_v2 and from_sphinx/to_sphinx translated statement by
   statement; coq/InvLoad/SrcProofs.v proves each definition equal to the hand-written model. *)
From Coq Require Import List NArith ZArith Bool.
From MV Require Import Base.PyStr Inv.WildModel InvLoad.Basics InvLoad.PyText InvLoad.Reader InvLoad.Load InvLoad.SrcPrims.
Import ListNotations.

Section Src.

Variable dstate : Type.
Variable dinit : dstate.
Variable dstep : dstate -> bytes -> dstate * bytes.
Variable dflush : dstate -> bytes.
Variable derr : dstate -> bool.
Variable decode : bytes -> option str.
Variable match_line : str -> option (str * str * str * str * str).

"""

INV_STRUCT = ["name", "version", "base_url", "objects"]
CTYPES = {"chunks": "(list bytes)"}

SPECS = [
    dict(py="read_buffer", cls="InventoryFileReader", coq_name="read_buffer_src", params=[("self", "reader")], reader="self",
         mode="proc", rtype="reader", types={}),
    dict(py="readline", cls="InventoryFileReader", coq_name="readline_src", params=[("self", "reader")], reader="self",
         mode="fun-ires", returns_self=True, rtype="ires (str * reader)", types={},
         fuel=["readline_fuel self"]),
    dict(py="readlines", cls="InventoryFileReader", coq_name="readlines_src", params=[("self", "reader")], reader="self",
         mode="gen", rtype="lseq", types={}, fuel=["S (pending_len self)"]),
    dict(py="read_compressed_chunks", cls="InventoryFileReader", coq_name="read_compressed_chunks_src",
         params=[("self", "reader")], reader="self", mode="gen", rtype="(list bytes * option iexn)",
         types={}, fuel=["readline_fuel self"]),
    dict(py="read_compressed_lines", cls="InventoryFileReader", coq_name="read_compressed_lines_src",
         params=[("self", "reader")], reader="self", mode="gen", rtype="lseq",
         types={}, fuel=["length buf"],
         generators={"read_compressed_chunks": ("read_compressed_chunks_src", "bytes")}),
    dict(py="_load_v1", coq_name="load_v1_src", params=[("stream", "reader"), ("base_url", "ostr")], reader="stream",
         mode="fun-ires", rtype="ires inventory", structs={"invdata": INV_STRUCT},
         types={},
         generators={"readlines": ("readlines_src", "str")}),
    dict(py="_load_v2", coq_name="load_v2_src", params=[("stream", "reader"), ("base_url", "ostr")], reader="stream",
         mode="fun-ires", rtype="ires inventory", structs={"invdata": INV_STRUCT},
         types={},
         generators={"read_compressed_lines": ("read_compressed_lines_src", "str")}),
    dict(py="load", coq_name="load_src", params=[("stream", "chunks"), ("base_url", "ostr")], reader="reader",
         mode="fun-ires", rtype="ires inventory", types={}),
    dict(py="from_sphinx", coq_name="from_sphinx_src", params=[("inv", "sinv")], mode="fun-pure", rtype="inventory",
         types={}, empty_dict="objs"),
    dict(py="to_sphinx", coq_name="to_sphinx_src", params=[("inv", "inventory")], mode="fun-pure", rtype="sinv_t",
         types={}, empty_dict="sinv"),
]

KNOWN = {"_load_v1": ("load_v1_src", 2, "ires"), "_load_v2": ("load_v2_src", 2, "ires")}


def translate(tree: ast.Module, spec: dict, known: dict) -> str:
    sp = dict(spec)
    sp.setdefault("ctypes", CTYPES)
    fn = find_def(tree, sp["py"], sp.get("cls"))
    return f"(* ---- {sp.get('cls', '') + '.' if sp.get('cls') else ''}{sp['py']} ---- *)\n" + Walker(fn, sp, known).function()


def generate(repo) -> str:
    tree = ast.parse((repo / "myst_parser" / "inventory.py").read_text())
    parts = [translate(tree, sp, KNOWN) for sp in SPECS]
    return HEADER + "\n".join(parts) + "\nEnd Src.\n"


def run(ctx=None):
    import hashlib
    from lib import common
    text = generate(common.REPO)
    common.write_if_changed(common.COQ / "Gen" / "InventorySrc.v", text)
    return hashlib.sha256(text.encode()).hexdigest()[:16]


if __name__ == "__main__":
    import sys
    from pathlib import Path
    sys.path.insert(0, str(Path(__file__).resolve().parent.parent))
    print(run())
