"""Runner for the C15 (history independence) checks on the implementation.

``run_history(cases)`` parses the given cases one after the other IN THIS PROCESS and returns the observation of each
(``pformat()`` of the doctree + the warning stream, scratch paths masked).  The harness (props/C15.py) calls it in
worker processes forked from a multiprocessing *forkserver* that has only imported the libraries (module
``gen.c15_preload``): every history therefore starts from the state of a fresh interpreter after import, and the
"fresh" reference of a case is the history of length one.
"""
from __future__ import annotations

import copy
import io
import os
import re
import signal
import traceback

ADDR = re.compile(r" at 0x[0-9a-fA-F]+")
SCRATCH = re.compile(r"mystverif-(?:c15-|sphinx-)?[A-Za-z0-9_]{8}")


class _Timeout(BaseException):
    pass


def _alarm(signum, frame):
    raise _Timeout()


def mask(s: str, root: str) -> str:
    s = s.replace(root, "<ROOT>")
    real = os.path.realpath(root)
    if real != root:
        s = s.replace(real, "<ROOT>")
    # ids derived from text that contains the scratch path (make_id lower-cases and hyphenates it)
    base = os.path.basename(root.rstrip(os.sep))
    try:
        from docutils.nodes import make_id
        variants = {base, base.lower(), make_id(base)}
    except Exception:  # pragma: no cover
        variants = {base, base.lower()}
    for v in sorted(variants, key=len, reverse=True):
        if v:
            s = s.replace(v, "mystverif-x")
    s = SCRATCH.sub("mystverif-x", s)
    return ADDR.sub(" at 0x?", s)


def run_one(case):
    from gen.c01_run import subst, write_files
    from lib.impl import publish, scratch_dir
    kind = case.get("kind", "parse")
    with scratch_dir() as root:
        try:
            if kind == "merge":
                return run_merge(case)
            write_files(root, case)
            name = case.get("name", "index.md")
            text = case["text"].replace("__SELF__", name)
            src = os.path.join(root, name)
            with open(src, "w", encoding="utf8", errors="surrogatepass", newline="") as f:
                f.write(text)
            settings = subst(dict(case.get("settings", {})), root)
            for k in ("myst_enable_extensions", "myst_fence_as_directive"):
                if k in settings and isinstance(settings[k], list):
                    settings[k] = set(settings[k])
            # docutils' default report level: INFO messages (e.g. docutils' own, cached, directive / role / language
            # lookup notices) are not part of the produced doctree or warning stream
            settings.setdefault("report_level", 2)
            snap = copy.deepcopy(settings)
            doc, ws = publish(text, settings, source_path=src, writer=case.get("writer"))
            out = doc if isinstance(doc, str) else doc.pformat()
            res = {"doc": mask(out, root), "warn": mask(ws, root)}
            if settings != snap:
                res["settings_mutated"] = True
            return res
        except _Timeout:
            raise
        except BaseException as e:  # noqa: BLE001
            tb = traceback.extract_tb(e.__traceback__)
            inner = [f for f in tb if "/myst_parser/" in f.filename]
            where = f"{inner[-1].filename.split('/myst_parser/')[-1]}:{inner[-1].name}" if inner else ""
            return {"doc": f"EXC:{type(e).__name__}:{where}", "warn": ""}


def run_merge(case):
    """merge_file_level must not modify the global config object."""
    import dataclasses as dc

    from myst_parser.config.main import MdParserConfig, merge_file_level
    cfg = MdParserConfig(**case.get("config", {}))
    before = copy.deepcopy(dc.asdict(cfg))
    ids = {k: id(v) for k, v in vars(cfg).items()}
    msgs = []
    new = merge_file_level(cfg, copy.deepcopy(case["topmatter"]), lambda t, m: msgs.append(m))
    after = dc.asdict(cfg)
    shared = sorted(k for k, v in vars(new).items() if isinstance(v, (dict, set, list)) and id(v) == ids.get(k)
                    and case["topmatter"].get("myst", {}).get(k) is not None) if isinstance(case["topmatter"].get("myst"), dict) else []
    return {"doc": "MERGE", "warn": "", "config_changed": before != after, "returned_same_object": new is cfg,
            "before": repr(before)[:600], "after": repr(after)[:600], "shared_mutable": shared}


def run_history(cases, timeout=120):
    old = signal.signal(signal.SIGALRM, _alarm)
    signal.alarm(timeout)
    out = []
    try:
        for c in cases:
            out.append(run_one(c))
    except _Timeout:
        while len(out) < len(cases):
            out.append({"doc": "TIMEOUT", "warn": ""})
    finally:
        signal.alarm(0)
        signal.signal(signal.SIGALRM, old)
    return out


# ------------------------------------------------------------------------------------------------ Sphinx builds

TIMESTAMP = re.compile(r"(Last updated on|Created using|&#169; Copyright|\?v=[0-9a-f]{8}|\?digest=[0-9a-f]+)[^<\n]*")


def run_sphinx_build(job):
    """Build a generated project; returns {'html': {file: text}, 'warnings': sorted list, 'config': repr}."""
    import dataclasses as dc
    import shutil
    import tempfile

    from sphinx.application import Sphinx
    from sphinx.util.docutils import docutils_namespace, patch_docutils
    files, conf, parallel, order = job["files"], job.get("conf", ""), job.get("parallel", 0), job.get("order")
    d = tempfile.mkdtemp(prefix="mystverif-c15-")
    try:
        src = os.path.join(d, "src")
        os.makedirs(src)
        names = list(files) if order is None else order
        for name in names:
            p = os.path.join(src, name)
            os.makedirs(os.path.dirname(p), exist_ok=True)
            with open(p, "w", encoding="utf8") as f:
                f.write(files[name])
        with open(os.path.join(src, "conf.py"), "w") as f:
            f.write("extensions = ['myst_parser']\nexclude_patterns = ['_build', 'inc_*']\nhtml_theme = 'basic'\n"
                    "html_last_updated_fmt = None\nhtml_copy_source = False\nhtml_show_sourcelink = False\n" + conf)
        status, warning = io.StringIO(), io.StringIO()
        try:
            with docutils_namespace(), patch_docutils():
                app = Sphinx(src, src, os.path.join(d, "out"), os.path.join(d, "doctrees"), "html", status=status, warning=warning,
                             freshenv=True, parallel=parallel)
                cfg_before = repr(sorted(dc.asdict(app.env.myst_config).items(), key=lambda kv: kv[0]))
                app.build()
                cfg_after = repr(sorted(dc.asdict(app.env.myst_config).items(), key=lambda kv: kv[0]))
        except BaseException as e:  # noqa: BLE001
            return {"error": f"{type(e).__name__}: {e}"[:300], "html": {}, "warnings": [], "config_changed": False}
        html = {}
        out = os.path.join(d, "out")
        for root, _, fs in os.walk(out):
            for fn in fs:
                if fn.endswith(".html") and fn not in ("search.html", "genindex.html"):
                    p = os.path.join(root, fn)
                    t = open(p, encoding="utf8", errors="replace").read()
                    html[os.path.relpath(p, out)] = TIMESTAMP.sub(r"\1", t.replace(src, "<SRC>"))
        warns = sorted(ln.replace(src + os.sep, "").replace(src, "<SRC>") for ln in ADDR.sub(" at 0x?", warning.getvalue()).splitlines() if ln.strip())
        return {"html": html, "warnings": warns, "config_changed": cfg_before != cfg_after,
                "config": ADDR.sub(" at 0x?", cfg_after)[:2000]}
    finally:
        shutil.rmtree(d, ignore_errors=True)
