"""Runner for the C15 (history independence) checks on the implementation.

``run_history(cases)`` parses the given cases one after the other IN THIS PROCESS and returns the observation of each
(``pformat()`` of the doctree + the warning stream, scratch paths masked).  The harness (props/C15.py) calls it in
worker processes forked from a multiprocessing *forkserver* that has only imported the libraries (module
``gen.c15_preload``): every history therefore starts from the state of a fresh interpreter after import, and the
"fresh" reference of a case is the history of length one.
"""
from __future__ import annotations

import copy
import io
import os
import re
import signal
import traceback

ADDR = re.compile(r" at 0x[0-9a-fA-F]+")
SCRATCH = re.compile(r"mystverif-(?:c15-|sphinx-)?[A-Za-z0-9_]{8}")


class _Timeout(BaseException):
    pass


def _alarm(signum, frame):
    raise _Timeout()


def mask(s: str, root: str) -> str:
    """root = the directory of the case (inside the scratch directory of the history)."""
    real = os.path.realpath(root)
    for r in (root, real):
        s = s.replace(r, "<ROOT>")
    # ids derived from text that contains the path (make_id lower-cases and hyphenates it)
    try:
        from docutils.nodes import make_id
        for r in (root, real):
            s = s.replace(make_id(r), "root-x")
    except Exception:  # pragma: no cover
        pass
    s = SCRATCH.sub("mystverif-x", s)
    return ADDR.sub(" at 0x?", s)


def run_one(case, hist_root, index):
    """Parse one case.  Its files live in <hist_root>/<dir_key> when the case has a "dir_key" (cases of one history that
    share the key see the same absolute paths: needed to expose state keyed by a path), else in a directory of its own."""
    from gen.c01_run import subst, write_files
    from lib.impl import publish
    kind = case.get("kind", "parse")
    root = os.path.join(hist_root, case.get("dir_key") or f"w{index}")
    os.makedirs(root, exist_ok=True)
    try:
        if kind == "merge":
            return run_merge(case)
        write_files(root, case)
        name = case.get("name", "index.md")
        text = case["text"].replace("__SELF__", name)
        src = os.path.join(root, name)
        with open(src, "w", encoding="utf8", errors="surrogatepass", newline="") as f:
            f.write(text)
        settings = subst(dict(case.get("settings", {})), root)
        for k in ("myst_enable_extensions", "myst_fence_as_directive"):
            if k in settings and isinstance(settings[k], list):
                settings[k] = set(settings[k])
        # docutils' default report level: INFO messages (e.g. docutils' own, cached, directive / role / language
        # lookup notices) are not part of the produced doctree or warning stream
        settings.setdefault("report_level", 2)
        snap = copy.deepcopy(settings)
        doc, ws = publish(text, settings, source_path=src, writer=case.get("writer"))
        out = doc if isinstance(doc, str) else doc.pformat()
        res = {"doc": mask(out, root), "warn": mask(ws, root)}
        if settings != snap:
            res["settings_mutated"] = True
        if case.get("dump_cells"):
            res["cells"] = dump_cells()
        return res
    except _Timeout:
        raise
    except BaseException as e:  # noqa: BLE001
        tb = traceback.extract_tb(e.__traceback__)
        inner = [f for f in tb if "/myst_parser/" in f.filename]
        where = f"{inner[-1].filename.split('/myst_parser/')[-1]}:{inner[-1].name}" if inner else ""
        return {"doc": f"EXC:{type(e).__name__}:{where}", "warn": ""}


def run_md_reuse(case):
    """ONE MarkdownIt object from create_md_parser(config, DocutilsRenderer) renders several texts in turn (the public
    helper; md.options['document'] is replaced before each render).  Returns one observation per text."""
    import io as _io

    from myst_parser.config.main import MdParserConfig
    from myst_parser.mdit_to_docutils.base import DocutilsRenderer, make_document
    from myst_parser.parsers.docutils_ import Parser
    from myst_parser.parsers.mdit import create_md_parser
    cfg = dict(case.get("config", {}))
    if "enable_extensions" in cfg:
        cfg["enable_extensions"] = set(cfg["enable_extensions"])
    md = create_md_parser(MdParserConfig(**cfg), DocutilsRenderer)
    outs = []
    for text in case["texts"]:
        try:
            doc = make_document("<md-reuse>", parser_cls=Parser)
            ws = _io.StringIO()
            doc.settings.warning_stream = ws
            doc.reporter.stream = ws
            doc.settings.report_level = 2
            doc.reporter.report_level = 2
            md.options["document"] = doc
            md.render(text)
            slugs = sorted(getattr(doc, "myst_slugs", {}))
            outs.append({"doc": ADDR.sub(" at 0x?", doc.pformat()) + "\nSLUGS " + repr(slugs), "warn": ADDR.sub(" at 0x?", ws.getvalue())})
        except BaseException as e:  # noqa: BLE001
            outs.append({"doc": f"EXC:{type(e).__name__}:{e}"[:200], "warn": ""})
    return outs


def run_settings_values(case, hist_root):
    """publish calls that reuse ONE docutils settings object S (and S.copy(), a shallow copy) while the myst_* VALUES on it
    are changed between the calls with setattr; one observation per step."""
    import io as _io

    from docutils.core import publish_doctree
    from docutils.frontend import OptionParser
    from docutils.readers.standalone import Reader
    from docutils.writers.null import Writer

    from gen.c01_run import subst, write_files
    from myst_parser.parsers.docutils_ import Parser
    root = os.path.join(hist_root, "sv")
    os.makedirs(root, exist_ok=True)
    write_files(root, {"files": case.get("files", {}), "name": "index.md"})
    S = OptionParser(components=(Parser, Reader, Writer)).get_default_values()
    S.report_level = 2
    S.halt_level = 5
    outs = []
    for step in case["steps"]:
        for k, v in subst(dict(step["values"]), root).items():
            setattr(S, k, set(v) if k in ("myst_enable_extensions", "myst_fence_as_directive") and isinstance(v, list) else v)
        target = S.copy() if step.get("copy") else S
        ws = _io.StringIO()
        target.warning_stream = ws
        try:
            doc = publish_doctree(step["text"], source_path=os.path.join(root, "index.md"), parser=Parser(), settings=target)
            outs.append({"doc": mask(doc.pformat(), root), "warn": mask(ws.getvalue(), root)})
        except BaseException as e:  # noqa: BLE001
            outs.append({"doc": f"EXC:{type(e).__name__}:{e}"[:200], "warn": ""})
    return outs


def run_shared_settings(case):
    """Several docutils publish calls that share ONE settings object (as Sphinx does for all documents of a process and
    as docutils users may): returns one observation per (text) of the case."""
    import io as _io

    from docutils.core import publish_doctree
    from docutils.frontend import OptionParser
    from docutils.readers.standalone import Reader
    from docutils.writers.null import Writer

    from myst_parser.parsers.docutils_ import Parser
    settings = OptionParser(components=(Parser, Reader, Writer)).get_default_values()
    for k, v in case.get("settings", {}).items():
        setattr(settings, k, set(v) if k == "myst_enable_extensions" else v)
    settings.report_level = 2
    settings.halt_level = 5
    outs = []
    for text in case["texts"]:
        ws = _io.StringIO()
        settings.warning_stream = ws
        try:
            doc = publish_doctree(text, source_path="<shared-settings>", parser=Parser(), settings=settings)
            outs.append({"doc": ADDR.sub(" at 0x?", doc.pformat()), "warn": ADDR.sub(" at 0x?", ws.getvalue())})
        except BaseException as e:  # noqa: BLE001
            outs.append({"doc": f"EXC:{type(e).__name__}:{e}"[:200], "warn": ""})
    return outs


def _fn_id(f):
    return f"{getattr(f, '__module__', '?')}.{getattr(f, '__qualname__', repr(f))}"


def dump_cells():
    """Observable content of the process-level cells of Gen/GlobalWrites (keyed by the write target text of the table)
    and of the third-party objects MyST has been seen to touch; values are comparable strings."""
    out = {}
    try:
        from docutils.writers._html_base import HTMLTranslator
        for a in ("visit_rubric", "depart_rubric", "visit_container", "depart_container"):
            out[f"HTMLTranslator.{a}"] = _fn_id(getattr(HTMLTranslator, a))
    except Exception as e:  # pragma: no cover
        out["HTMLTranslator.visit_rubric"] = "ERR" + repr(e)
    from docutils.parsers.rst import roles
    d = repr(_fn_id(roles._roles[""])) if "" in roles._roles else "absent"
    out["roles._roles['']"] = d
    out["roles._roles.pop"] = d
    from docutils.parsers.rst.directives.misc import Include
    out["Include.option_spec"] = repr(sorted(Include.option_spec))
    out["directive_class.option_spec['heading-offset']"] = out["Include.option_spec"]
    from myst_parser import inventory
    ci = inventory._create_regex.cache_info()
    out["functools.lru_cache"] = f"size={ci.currsize}"
    return out


def run_merge(case):
    """merge_file_level must not modify the global config object."""
    import dataclasses as dc

    from myst_parser.config.main import MdParserConfig, merge_file_level
    cfg = MdParserConfig(**case.get("config", {}))
    before = copy.deepcopy(dc.asdict(cfg))
    ids = {k: id(v) for k, v in vars(cfg).items()}
    msgs = []
    new = merge_file_level(cfg, copy.deepcopy(case["topmatter"]), lambda t, m: msgs.append(m))
    after = dc.asdict(cfg)
    shared = sorted(k for k, v in vars(new).items() if isinstance(v, (dict, set, list)) and id(v) == ids.get(k)
                    and case["topmatter"].get("myst", {}).get(k) is not None) if isinstance(case["topmatter"].get("myst"), dict) else []
    all_shared = sorted(k for k, v in vars(new).items() if isinstance(v, (dict, set, list)) and id(v) == ids.get(k))
    return {"doc": "MERGE", "warn": "", "all_shared_mutable": all_shared, "config_changed": before != after, "returned_same_object": new is cfg,
            "before": repr(before)[:600], "after": repr(after)[:600], "shared_mutable": shared}


def run_history(cases, timeout=120):
    from lib.impl import scratch_dir
    old = signal.signal(signal.SIGALRM, _alarm)
    signal.alarm(timeout)
    out = []
    try:
        with scratch_dir() as hist_root:
            if any(c.get("dump_cells") for c in cases):
                out_initial = dump_cells()
            else:
                out_initial = None
            if cases and cases[0].get("kind") == "settings_values":
                return run_settings_values(cases[0], hist_root)
            if cases and cases[0].get("kind") in ("md_reuse", "shared_settings"):
                # one case = one whole history at the level of a re-used parser object / a shared settings object
                fn = run_md_reuse if cases[0]["kind"] == "md_reuse" else run_shared_settings
                return fn(cases[0])
            for n, c in enumerate(cases):
                r = run_one(c, hist_root, n)
                if n == 0 and out_initial is not None:
                    r["cells_before"] = out_initial
                out.append(r)
    except _Timeout:
        while len(out) < len(cases):
            out.append({"doc": "TIMEOUT", "warn": ""})
    finally:
        signal.alarm(0)
        signal.signal(signal.SIGALRM, old)
    return out


# ------------------------------------------------------------------------------------------------ Sphinx builds

TIMESTAMP = re.compile(r"(Last updated on|Created using|&#169; Copyright|\?v=[0-9a-f]{8}|\?digest=[0-9a-f]+)[^<\n]*")


def run_sphinx_build(job):
    """Build a generated project; returns {'html': {file: text}, 'warnings': sorted list, 'config': repr}."""
    import dataclasses as dc
    import shutil
    import tempfile

    from sphinx.application import Sphinx
    from sphinx.util.docutils import docutils_namespace, patch_docutils
    files, conf, parallel, order = job["files"], job.get("conf", ""), job.get("parallel", 0), job.get("order")
    d = tempfile.mkdtemp(prefix="mystverif-c15-")
    try:
        src = os.path.join(d, "src")
        os.makedirs(src)
        names = list(files) if order is None else order
        for name in names:
            p = os.path.join(src, name)
            os.makedirs(os.path.dirname(p), exist_ok=True)
            with open(p, "w", encoding="utf8") as f:
                f.write(files[name])
        with open(os.path.join(src, "conf.py"), "w") as f:
            f.write("extensions = ['myst_parser']\nexclude_patterns = ['_build', 'inc_*']\nhtml_theme = 'basic'\n"
                    "html_last_updated_fmt = None\nhtml_copy_source = False\nhtml_show_sourcelink = False\n" + conf)
        status, warning = io.StringIO(), io.StringIO()
        try:
            with docutils_namespace(), patch_docutils():
                app = Sphinx(src, src, os.path.join(d, "out"), os.path.join(d, "doctrees"), "html", status=status, warning=warning,
                             freshenv=True, parallel=parallel)
                cfg_before = repr(sorted(dc.asdict(app.env.myst_config).items(), key=lambda kv: kv[0]))
                app.build()
                forked = bool(parallel > 1 and app.is_parallel_allowed("read") and len(app.env.found_docs) > 5)
                cfg_after = repr(sorted(dc.asdict(app.env.myst_config).items(), key=lambda kv: kv[0]))
        except BaseException as e:  # noqa: BLE001
            return {"error": f"{type(e).__name__}: {e}"[:300], "html": {}, "warnings": [], "config_changed": False}
        html = {}
        out = os.path.join(d, "out")
        for root, _, fs in os.walk(out):
            for fn in fs:
                if fn.endswith(".html") and fn not in ("search.html", "genindex.html"):
                    p = os.path.join(root, fn)
                    t = open(p, encoding="utf8", errors="replace").read()
                    html[os.path.relpath(p, out)] = TIMESTAMP.sub(r"\1", t.replace(src, "<SRC>"))
        warns = sorted(ln.replace(src + os.sep, "").replace(src, "<SRC>") for ln in ADDR.sub(" at 0x?", warning.getvalue()).splitlines() if ln.strip())
        return {"html": html, "warnings": warns, "config_changed": cfg_before != cfg_after, "parallel_read": forked,
                "config": ADDR.sub(" at 0x?", cfg_after)[:2000]}
    finally:
        shutil.rmtree(d, ignore_errors=True)


def run_sphinx_incremental(job):
    """Build the project, apply an edit to one source file, build again in the same directories with a new application
    (the environment is pickled by the first build and re-loaded by the second): returns the HTML after the second build."""
    import shutil
    import tempfile
    import time

    from sphinx.application import Sphinx
    from sphinx.util.docutils import docutils_namespace, patch_docutils
    files, conf, edit = job["files"], job.get("conf", ""), job["edit"]
    d = tempfile.mkdtemp(prefix="mystverif-c15-")
    try:
        src = os.path.join(d, "src")
        os.makedirs(src)
        for name, content in files.items():
            with open(os.path.join(src, name), "w", encoding="utf8") as f:
                f.write(content)
        with open(os.path.join(src, "conf.py"), "w") as f:
            f.write("extensions = ['myst_parser']\nexclude_patterns = ['_build', 'inc_*']\nhtml_theme = 'basic'\n"
                    "html_last_updated_fmt = None\nhtml_copy_source = False\nhtml_show_sourcelink = False\n" + conf)
        warns = []
        for phase in (0, 1):
            if phase == 1:
                p = os.path.join(src, edit["name"])
                if "content" in edit:
                    with open(p, "w", encoding="utf8") as f:
                        f.write(edit["content"])
                t = time.time() + 5
                os.utime(p, (t, t))
            status, warning = io.StringIO(), io.StringIO()
            try:
                with docutils_namespace(), patch_docutils():
                    app = Sphinx(src, src, os.path.join(d, "out"), os.path.join(d, "doctrees"), "html", status=status, warning=warning,
                                 freshenv=False, parallel=job.get("parallel", 0))
                    app.build()
            except BaseException as e:  # noqa: BLE001
                return {"error": f"phase {phase}: {type(e).__name__}: {e}"[:300], "html": {}, "warnings": []}
            warns.append(warning.getvalue())
        html = {}
        out = os.path.join(d, "out")
        for root, _, fs in os.walk(out):
            for fn in fs:
                if fn.endswith(".html") and fn not in ("search.html", "genindex.html"):
                    p = os.path.join(root, fn)
                    t = open(p, encoding="utf8", errors="replace").read()
                    html[os.path.relpath(p, out)] = TIMESTAMP.sub(r"\1", t.replace(src, "<SRC>"))
        return {"html": html, "warnings": sorted(ADDR.sub(" at 0x?", warns[1]).replace(src + os.sep, "").splitlines())}
    finally:
        shutil.rmtree(d, ignore_errors=True)
