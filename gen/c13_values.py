"""C13 helper (owned by C13): config value universe, independent documented-type oracle,
canonicalisation and the jv wire encoding used by the extracted model.

Nothing here imports the implementation's validators: the predicate `doc_type_ok` is written from
the documentation (docs/configuration.md tables = the dataclass annotations / doc_type strings, the
"List of syntax extensions", docs/syntax/optional.md) and is the direct oracle of props/C13.py."""
from __future__ import annotations

import json

# ---- documented facts (copied from the docs, NOT read from the implementation) ----
DOC_EXTENSIONS = {
    "amsmath", "attrs_inline", "attrs_block", "attrs_image", "colon_fence", "deflist", "dollarmath",
    "fieldlist", "html_admonition", "html_image", "linkify", "replacements", "smartquotes",
    "strikethrough", "substitution", "tasklist",
}

BOOL_FIELDS = {
    "commonmark_only", "gfm_only", "all_links_external", "links_external_new_tab", "title_to_header",
    "footnote_sort", "footnote_transition", "linkify_fuzzy_links", "dmath_allow_labels",
    "dmath_allow_space", "dmath_allow_digits", "dmath_double_inline", "update_mathjax",
    "enable_checkboxes", "highlight_code_blocks",
}
STRLIST_FIELDS = {"disable_syntax", "number_code_blocks", "suppress_warnings"}   # list/tuple of str
DOC_FIELDS = BOOL_FIELDS | STRLIST_FIELDS | {
    "enable_extensions", "url_schemes", "ref_domains", "fence_as_directive", "heading_anchors",
    "heading_slug_func", "html_meta", "words_per_minute", "substitutions", "sub_delimiters",
    "mathjax_classes", "inventories",
}
GLOBAL_ONLY = {"heading_slug_func", "update_mathjax", "mathjax_classes", "suppress_warnings", "inventories"}
MERGE_FIELDS = {"html_meta", "substitutions"}
OMIT_DOCUTILS = {"ref_domains", "sub_delimiters", "update_mathjax", "mathjax_classes"}
OMIT_SPHINX = {"suppress_warnings", "highlight_code_blocks", "inventories"}

# import strings used for heading_slug_func and what they denote in this interpreter
IMPORTS = {
    "myst_parser.config.main._test_slug_func": "callable",
    "os.path.basename": "callable",
    "os.path": "noncallable",
    "os.nonexist": "noattr",
    "nomod_zz.f": "nomodule",
    "nodot": "nodot",
}


def _is_str(v):
    return type(v) is str


def _seq_of_str(v, kinds):
    return type(v) in kinds and all(_is_str(x) for x in v)


def _url_val_ok(x):
    if x is None or _is_str(x):
        return True
    if type(x) is not dict:
        return False
    if not all(_is_str(k) for k in x):
        return False
    if "url" in x and not _is_str(x["url"]):
        return False
    if "title" in x and not _is_str(x["title"]):
        return False
    if "classes" in x and not (type(x["classes"]) is list and all(_is_str(c) for c in x["classes"])):
        return False
    return True


def doc_type_ok(name: str, v) -> bool:
    """Does v satisfy the documented type of option `name`?  (JSON/YAML typing: a bool is not an int,
    2.0 is not an int; list and tuple are the one sequence type.)"""
    if name in BOOL_FIELDS:
        return type(v) is bool
    if name in STRLIST_FIELDS:
        return _seq_of_str(v, (list, tuple))
    if name == "ref_domains":
        return v is None or _seq_of_str(v, (list, tuple))
    if name == "enable_extensions":
        return _seq_of_str(v, (list, tuple, set)) and all(x in DOC_EXTENSIONS for x in v)
    if name == "fence_as_directive":
        return _seq_of_str(v, (list, tuple, set))
    if name == "url_schemes":
        if type(v) in (list, tuple):
            return all(_is_str(x) for x in v)
        return type(v) is dict and all(_is_str(k) and _url_val_ok(x) for k, x in v.items())
    if name == "heading_anchors":
        return type(v) is int and 0 <= v <= 7
    if name == "words_per_minute":
        return type(v) is int and v > 0      # "a positive integer"
    if name == "mathjax_classes":
        return _is_str(v)
    if name == "heading_slug_func":
        if v is None or callable(v):
            return True
        return _is_str(v) and IMPORTS.get(v) == "callable"
    if name == "html_meta":
        return type(v) is dict and all(_is_str(k) and _is_str(x) for k, x in v.items())
    if name == "substitutions":
        return type(v) is dict and all(_is_str(k) for k in v)
    if name == "sub_delimiters":
        return type(v) in (list, tuple) and len(v) == 2 and all(_is_str(x) and len(x) == 1 for x in v)
    if name == "inventories":
        return type(v) is dict and all(
            _is_str(k) and type(x) in (list, tuple) and len(x) == 2 and _is_str(x[0]) and (x[1] is None or _is_str(x[1]))
            for k, x in v.items())
    raise KeyError(name)


def doc_canonical(name: str, v):
    """The documented canonical stored form of an accepted value."""
    if name in ("enable_extensions", "fence_as_directive"):
        return set(v)
    if name == "url_schemes":
        if type(v) in (list, tuple):
            return {k: None for k in v}
        return {k: ({"url": x} if _is_str(x) else x) for k, x in v.items()}
    if name == "heading_slug_func" and _is_str(v):
        import importlib
        mod, fn = v.rsplit(".", 1)
        return getattr(importlib.import_module(mod), fn)
    return v


# ---- canonicalisation of observed values (relation R: list == tuple, sets as sets, callables by name) ----

def canon(v):
    if v is None or type(v) in (bool, int, str):
        return [type(v).__name__, v]
    if type(v) is float:
        return ["float", repr(v)]
    if type(v) in (list, tuple):
        return ["seq", [canon(x) for x in v]]
    if type(v) in (set, frozenset):
        return ["set", sorted((canon(x) for x in v), key=lambda c: json.dumps(c, sort_keys=True))]
    if type(v) is dict:
        return ["dict", sorted(([canon(k), canon(x)] for k, x in v.items()), key=lambda c: json.dumps(c, sort_keys=True))]
    if callable(v):
        return ["callable", getattr(v, "__module__", "?") + "." + getattr(v, "__qualname__", repr(v))]
    return ["object", getattr(v, "__name__", type(v).__name__)]


def canon_cfg(cfg):
    import dataclasses as dc
    return {f.name: canon(getattr(cfg, f.name)) for f in dc.fields(cfg)}


# ---- value universe ----

def _fn():  # a callable config value
    return ""


def base_values():
    """Values of every JSON/YAML type + Python-only spellings (tuple, set, callable)."""
    vals = [None, True, False, 0, 1, 2, 7, 8, -1, 200, 2.0, 2.5, 0.0,
            "", "a", "ab", "deflist", "http", "{", "a,b", "1", "true",
            [], ["a"], ["a", "b"], ["deflist"], ["deflist", "tasklist", "deflist"], ["deflist", 1], ["nope"],
            [1], [None], [True], [["a"]], [{"a": 1}], ["{", "}"], ["{{", "}"], ["{", 1], ["a", "b", "c"],
            ["http", "mailto"], ["http", "http"], ["emphasis"], ["python"],
            (), ("a",), ("a", "b"), ("{", "}"), ("deflist",), ("a", 1),
            set(), {"a"}, {"deflist"}, {"deflist", "amsmath"}, {1}, {"a", 1},
            {}, {"a": "b"}, {"a": 1}, {1: "a"}, {"a": None}, {"deflist": 1}, {"a": "b", "c": "d"},
            {"a": {"url": "u"}}, {"a": {"url": 1}}, {"a": {"title": "t"}}, {"a": {"title": None}},
            {"a": {"classes": "abc"}}, {"a": {"classes": [1, 2]}}, {"a": {"classes": ["x", 1]}},
            {"a": {"classes": ["x"]}}, {"a": {"classes": ("x",)}}, {"a": {"classes": []}},
            {"a": {"url": "u", "title": "t", "classes": ["x"]}}, {"a": {"other": 1}}, {"a": {1: 2}},
            {"a": {}}, {"a": 1.5}, {"a": True}, {"a": ["x"]},
            {"http": None, "wiki": "https://w.org/{{path}}", "gh": {"url": "https://g/{{path}}", "title": "t", "classes": ["c"]}},
            {"a": ["u", None]}, {"a": ("u", "p")}, {"a": ["u"]}, {"a": [1, None]}, {"a": ["u", 1]},
            {"a": ["u", "p", "q"]}, {"a": "u"}, {"k": ["https://e.org", None], "j": ("u", "i.inv")},
            {"description": "d", "keywords": "k"}, {"x": [1, {"y": None}]},
            _fn] + list(IMPORTS)
    return vals


def rand_value(rng, depth=0):
    """Grammar-based random value (all JSON types, nested), mostly small."""
    r = rng.random()
    if depth >= 3 or r < 0.45:
        return rng.choice([None, True, False, 0, 1, 3, 7, 9, -2, 2.0, 1.5, "", "a", "b", "deflist", "tasklist",
                           "http", "url", "classes", "title", "x y", "é", "{", "}"])
    if r < 0.65:
        n = rng.choice([0, 1, 1, 2, 2, 3])
        l = [rand_value(rng, depth + 1) if rng.random() < 0.35 else rng.choice(["a", "b", "deflist", "amsmath", "http", "{", "}"])
             for _ in range(n)]
        k = rng.random()
        if k < 0.6:
            return l
        if k < 0.8:
            return tuple(l)
        try:
            return set(l)
        except TypeError:
            return l
    n = rng.choice([0, 1, 1, 2, 3])
    d = {}
    for _ in range(n):
        key = rng.choice(["a", "b", "http", "url", "title", "classes", "k", 1, None]) if rng.random() < 0.9 else rng.choice([2, True, 1.5])
        if rng.random() < 0.5:
            val = rng.choice([None, "u", "v", 1, ["x"], ["x", 1], "abc", ["u", None], ("u", "p"), {"url": "u"},
                              {"classes": ["c"]}, {"classes": "c"}, {"title": 1}])
        else:
            val = rand_value(rng, depth + 1)
        d[key] = val
    return d


def jsonable(v):
    """Can v be written in YAML front matter / JSON unchanged (no tuple/set/callable, str keys only
    at any depth is not required by YAML but keeps json.dumps usable)?"""
    if v is None or type(v) in (bool, int, str):
        return True
    if type(v) is float:
        return v == v and v not in (float("inf"), float("-inf"))
    if type(v) is list:
        return all(jsonable(x) for x in v)
    if type(v) is dict:
        return all(type(k) is str and jsonable(x) for k, x in v.items())
    return False


# ---- wire encoding of values for the extracted model (prefix form, space separated tokens) ----

def _enc_s(s):
    return ",".join(str(ord(c)) for c in s) if s else "-"


def enc_jv(v, out=None):
    top = out is None
    if top:
        out = []
    if v is None:
        out.append("N")
    elif v is True:
        out.append("T")
    elif v is False:
        out.append("F")
    elif type(v) is int:
        out.append("I%d" % v)
    elif type(v) is float:
        import math
        fl = math.floor(v)
        out.append("R%d:%d" % (fl, 0 if fl == v else 1))
    elif type(v) is str:
        out.append("S" + _enc_s(v))
    elif type(v) in (list, tuple, set, frozenset):
        items = list(v)
        if type(v) in (set, frozenset):
            items = sorted(items, key=lambda x: json.dumps(canon(x), sort_keys=True))
        out.append({list: "L", tuple: "U", set: "E", frozenset: "E"}[type(v)] + str(len(items)))
        for x in items:
            enc_jv(x, out)
    elif type(v) is dict:
        out.append("D%d" % len(v))
        for k, x in v.items():
            enc_jv(k, out)
            enc_jv(x, out)
    elif callable(v):
        out.append("C" + _enc_s(getattr(v, "__module__", "?") + "." + getattr(v, "__qualname__", "?")))
    else:
        out.append("O" + _enc_s(getattr(v, "__name__", type(v).__name__)))
    return " ".join(out) if top else None


def dec_jv(tokens, pos=0):
    """Decode the model's reply (same prefix form) into the canonical form used by `canon`."""
    t = tokens[pos]
    k, rest = t[0], t[1:]
    dec_s = lambda f: "" if f in ("-", "") else "".join(chr(int(x)) for x in f.split(","))
    if k == "N":
        return ["NoneType", None], pos + 1
    if k == "T":
        return ["bool", True], pos + 1
    if k == "F":
        return ["bool", False], pos + 1
    if k == "I":
        return ["int", int(rest)], pos + 1
    if k == "R":
        a, b = rest.split(":")
        return ["float", repr(float(int(a)) + (0.5 if b == "1" else 0.0))], pos + 1
    if k == "S":
        return ["str", dec_s(rest)], pos + 1
    if k == "C":
        return ["callable", dec_s(rest)], pos + 1
    if k == "O":
        return ["object", dec_s(rest)], pos + 1
    n = int(rest)
    pos += 1
    if k in "LUE":
        items = []
        for _ in range(n):
            x, pos = dec_jv(tokens, pos)
            items.append(x)
        if k == "E":
            return ["set", sorted(items, key=lambda c: json.dumps(c, sort_keys=True))], pos
        return ["seq", items], pos
    if k == "D":
        items = []
        for _ in range(n):
            a, pos = dec_jv(tokens, pos)
            b, pos = dec_jv(tokens, pos)
            items.append([a, b])
        return ["dict", sorted(items, key=lambda c: json.dumps(c, sort_keys=True))], pos
    raise ValueError("bad token " + t)
