"""Round 5: regenerate coq/Gen/MdParserSrc.v from myst_parser/parsers/mdit.py (fail-closed).

`create_md_parser` is translated statement by statement (gen/c13_pywalk.py) into a function
config -> abstract parser description (coq/Cfg/MdParserPrelude.v: preset, ordered steps enable / disable / use
with options, options.update).  Also emitted: the extension names tested in create_md_parser and the names used
anywhere else in the package ("x" in ...enable_extensions, ...enable_extensions.add("x"),
"x" in app.config["myst_enable_extensions"]).

Domain mapping (TRUSTED): `config.<field>` -> cfg_val / cfg_flag, `"x" in config.enable_extensions` -> ext_in,
`MarkdownIt("p", renderer_cls=renderer)` and the method chain .enable/.use -> mk_md + steps, plugin functions by
name, keyword arguments by name with values that are constants, config fields, `typographer`, or the two Boolean
expressions above; `md.linkify is not None` -> the parameter has_linkify (is linkify-it-py installed);
`"myst_config": config` -> JOpaque "config".
"""
from __future__ import annotations

import ast
import hashlib
import re
from pathlib import Path

from gen.c13_pywalk import Untranslatable, Walker, find_function

SRC = "myst_parser/parsers/mdit.py"


def cs(s: str) -> str:
    return "([] : str)" if not s else "[" + ";".join(str(ord(c)) for c in s) + "]"


class Mdit(Walker):
    def __init__(self):
        super().__init__(SRC + ":create_md_parser", {}, [], {}, pure=True, ret_type="pdesc")
        self.tested = []        # extension names tested, in order
        self.loops = {"for name in config.disable_syntax": dict(pat="name", seq=f"cfg_items {cs('disable_syntax')} config",
                                                                elem="jv", carried=[("md", "pdesc")])}

    # ---- values of keyword arguments / option dict entries
    def value(self, e):
        if isinstance(e, ast.Constant):
            v = e.value
            if v is None:
                return "JNull"
            if v is True or v is False:
                return f"(JBool {'true' if v else 'false'})"
            if type(v) is int:
                return f"(JInt ({v})%Z)"
            if type(v) is str:
                return f"(JStr {cs(v)})"
        if isinstance(e, ast.Tuple) and all(isinstance(x, ast.Constant) and isinstance(x.value, str) for x in e.elts):
            return "(JTuple [" + "; ".join(f"JStr {cs(x.value)}" for x in e.elts) + "])"
        if isinstance(e, ast.Attribute) and isinstance(e.value, ast.Name) and e.value.id == "config":
            return f"(cfg_val {cs(e.attr)} config)"
        if isinstance(e, ast.Name) and e.id == "typographer":
            return "(JBool typographer)"
        if isinstance(e, ast.Name) and e.id == "config":
            return f"(JOpaque {cs('config')})"
        if isinstance(e, ast.Compare):
            return f"(JBool {self.atom(e)})"
        self.err(e, "argument value not understood")

    def kwargs(self, call, skip_first=True):
        out = []
        for a in call.args[1:] if skip_first else call.args:
            if isinstance(a, ast.Starred):
                out.append(f"({cs('*')}, {self.value(a.value)})")
            else:
                self.err(call, "positional argument after the plugin")
        for k in call.keywords:
            if k.arg is None:
                self.err(call, "**kwargs")
            out.append(f"({cs(k.arg)}, {self.value(k.value)})")
        return "[" + "; ".join(out) + "]"

    # ---- tests
    def atom(self, e):
        if isinstance(e, ast.Compare) and len(e.ops) == 1 and isinstance(e.ops[0], ast.In) \
                and isinstance(e.left, ast.Constant) and isinstance(e.left.value, str) \
                and ast.unparse(e.comparators[0]) == "config.enable_extensions":
            if e.left.value not in self.tested:
                self.tested.append(e.left.value)
            return f"(ext_in {cs(e.left.value)} config)"
        if isinstance(e, ast.Attribute) and isinstance(e.value, ast.Name) and e.value.id == "config":
            return f"(cfg_flag {cs(e.attr)} config)"
        if ast.unparse(e) == "md.linkify is not None":
            return "has_linkify"
        if isinstance(e, ast.Constant) and isinstance(e.value, bool):
            return "true" if e.value else "false"
        if isinstance(e, ast.Name) and e.id == "md":
            return "md"
        self.err(e, "expression is not in the domain mapping")

    # ---- method chains
    def chain(self, e):
        """MarkdownIt("preset", renderer_cls=renderer).enable(..).use(..)... -> (preset, [steps])"""
        steps = []
        while isinstance(e, ast.Call) and isinstance(e.func, ast.Attribute):
            steps.append(self.step(e))
            e = e.func.value
        if not (isinstance(e, ast.Call) and isinstance(e.func, ast.Name) and e.func.id == "MarkdownIt" and len(e.args) == 1
                and isinstance(e.args[0], ast.Constant) and isinstance(e.args[0].value, str)
                and [(k.arg, ast.unparse(k.value)) for k in e.keywords] == [("renderer_cls", "renderer")]):
            self.err(e, "parser construction not understood")
        return e.args[0].value, list(reversed(steps))

    def step(self, call):
        m = call.func.attr
        if m == "enable" and len(call.args) == 1 and not call.keywords and isinstance(call.args[0], ast.Constant) \
                and isinstance(call.args[0].value, str):
            return f"PEnable {cs(call.args[0].value)}"
        if m == "disable" and len(call.args) == 2 and ast.unparse(call.args[1]) == "True" and isinstance(call.args[0], ast.Name):
            return f"PDisable {call.args[0].id}"
        if m == "use" and call.args and isinstance(call.args[0], ast.Name):
            return f"PUse {cs(call.args[0].id)} {self.kwargs(call)}"
        self.err(call, "parser method call not understood")

    def stmt_atom(self, s):
        if isinstance(s, ast.Assign) and len(s.targets) == 1 and isinstance(s.targets[0], ast.Name) and s.targets[0].id == "md":
            preset, steps = self.chain(s.value)
            return f"let md := mk_md {cs(preset)} [" + "; ".join(steps) + "] in"
        if isinstance(s, ast.Expr) and isinstance(s.value, ast.Call) and isinstance(s.value.func, ast.Attribute):
            c = s.value
            tgt = ast.unparse(c.func.value)
            if tgt == "md" and c.func.attr in ("enable", "disable", "use"):
                return f"let md := md_step md ({self.step(c)}) in"
            if tgt == "md.options" and c.func.attr == "update" and len(c.args) == 1 and isinstance(c.args[0], ast.Dict):
                items = []
                for k, v in zip(c.args[0].keys, c.args[0].values):
                    if not (isinstance(k, ast.Constant) and isinstance(k.value, str)):
                        self.err(s, "option key")
                    items.append(f"({cs(k.value)}, {self.value(v)})")
                return "let md := md_options md [" + "; ".join(items) + "] in"
            if tgt == "md.linkify" and c.func.attr == "set" and len(c.args) == 1 and isinstance(c.args[0], ast.Dict):
                items = [f"({cs(k.value)}, {self.value(v)})" for k, v in zip(c.args[0].keys, c.args[0].values)]
                return "let md := md_step md (PLinkifySet [" + "; ".join(items) + "]) in"
        if isinstance(s, ast.Assign) and len(s.targets) == 1 and isinstance(s.targets[0], ast.Name) \
                and s.targets[0].id == "typographer" and isinstance(s.value, ast.Constant) and isinstance(s.value.value, bool):
            return f"let typographer := {'true' if s.value.value else 'false'} in"
        return None

    def check_all_used(self):
        pass


def other_extension_uses(repo: Path):
    """extension names used in the package outside create_md_parser"""
    out = []
    for p in sorted((repo / "myst_parser").rglob("*.py")):
        rel = "myst_parser/" + p.relative_to(repo / "myst_parser").as_posix()
        if rel in (SRC, "myst_parser/config/main.py", "myst_parser/_docs.py"):
            continue
        for n in ast.walk(ast.parse(p.read_text())):
            if isinstance(n, ast.Compare) and len(n.ops) == 1 and isinstance(n.ops[0], (ast.In, ast.NotIn)) \
                    and isinstance(n.left, ast.Constant) and isinstance(n.left.value, str):
                r = ast.unparse(n.comparators[0])
                if r.endswith("enable_extensions") or r.endswith("['myst_enable_extensions']"):
                    out.append((n.left.value, f"{rel}:{n.lineno}"))
            if isinstance(n, ast.Call) and isinstance(n.func, ast.Attribute) and n.func.attr in ("add", "discard", "remove") \
                    and ast.unparse(n.func.value).endswith("enable_extensions") and len(n.args) == 1 \
                    and isinstance(n.args[0], ast.Constant) and isinstance(n.args[0].value, str):
                out.append((n.args[0].value, f"{rel}:{n.lineno}"))
    return out


def generate(repo: Path):
    src = (repo / SRC).read_text()
    fn = find_function(ast.parse(src), "create_md_parser")
    if [a.arg for a in fn.args.args] != ["config", "renderer"]:
        raise Untranslatable("create_md_parser: signature changed")
    w = Mdit()
    body = w.function(fn, "create_md_parser_src", [("has_linkify", "bool"), ("config", "Cfg.config")])
    others = other_extension_uses(repo)
    names_other = list(dict.fromkeys(n for n, _ in others))
    lst = lambda names: "[\n" + ";\n".join(f"  {cs(n)}  (* {n} *)" for n in names) + "\n]"
    text = ("(* GENERATED by gen/c13_mdit.py from myst_parser/parsers/mdit.py - do not edit *)\n"
            "From Coq Require Import List NArith ZArith Bool.\n"
            "From MV Require Import Base.PyStr Base.Res Cfg.StrOps Cfg.Cfg Cfg.MdParserPrelude.\n"
            "Import ListNotations.\nOpen Scope N_scope.\n\n"
            "(* create_md_parser, statement by statement: config -> abstract parser description *)\n" + body +
            "\n(* extension names tested in create_md_parser, in source order *)\n"
            f"Definition mdit_tested_extensions : list str := {lst(w.tested)}.\n\n"
            "(* extension names used elsewhere in the package: " + "; ".join(f"{n} {loc}" for n, loc in others) + " *)\n"
            f"Definition other_tested_extensions : list str := {lst(names_other)}.\n")
    return text, {"tested": w.tested, "others": others, "hash": hashlib.sha256(src.encode()).hexdigest()[:16]}


if __name__ == "__main__":
    import sys
    print(generate(Path(sys.argv[1] if len(sys.argv) > 1 else "/repo"))[0])
