"""Round 3: regenerate CODE for C10 from the sources -> coq/Gen/SlugSrc.v

* default_slugify (base.py) and slugify (anchors plug-in): the step sequence read by gen/c10_unicode.py emitted as a
  Gallina composition over the library functions of Sect/Slug.v;
* compute_unique_slug (base.py) and unique_slug (plug-in): statement by statement with gen/c10_walk.py.

Domain mapping (TRUSTED): str = list of code points; `x in slugs` on a dict / set / iterable of str = mem_str on the
list of its elements; `slugs.add(u)` = u :: slugs; f"{a}-{i}" = a ++ "-" ++ show i (str(int) = PyStr.show);
`token_tree.to_tokens()[1].children or []` = the list of (type, content) of the heading's inline children;
`"".join(c.content for c in children if c.type in [...])` = flat_map; a call of the slug function may raise (res);
`while` runs on the fuel |slugs|+1 (C10_unique_terminates shows it is never exhausted)."""
from __future__ import annotations

import ast
from pathlib import Path

from gen.py2coq import Untranslatable, coq_str, find_function
from gen.c10_walk import Walk
from gen import c10_unicode

TYPE_NAMES = {"text": "TText", "code_inline": "TCodeInline"}


def steps_term(steps, cls, arg):
    t = arg
    for s in steps:
        if s == "strip":
            t = f"(strip is_space {t})"
        elif s == "lower":
            t = f"(lower {t})"
        elif isinstance(s, tuple) and s[0] == "replace" and len(s[1]) == 1 and len(s[2]) == 1:
            t = f"(replace_c {ord(s[1])} {ord(s[2])} {t})"
        else:
            raise Untranslatable(f"slugify step {s!r}")
    return f"re_sub_neg is_word {cls} {t}"


class Expr:
    """expression hook; `types` maps local names to 'str' | 'N'"""

    def __init__(self, types, children_expr, slug_call=None):
        self.types = dict(types)
        self.children_expr = children_expr   # source text that denotes the inline children
        self.slug_call = slug_call           # name of the raising slug function variable

    def __call__(self, e, w):
        if isinstance(e, ast.Name):
            return e.id, False
        if isinstance(e, ast.Constant) and isinstance(e.value, int) and not isinstance(e.value, bool):
            return f"{e.value}", False
        if isinstance(e, ast.Compare) and len(e.ops) == 1 and isinstance(e.ops[0], ast.In) \
                and isinstance(e.left, ast.Name) and isinstance(e.comparators[0], ast.Name) \
                and self.types.get(e.left.id) == "str" and self.types.get(e.comparators[0].id) == "strs":
            return f"mem_str {e.left.id} {e.comparators[0].id}", False
        if isinstance(e, ast.JoinedStr):
            parts = []
            for v in e.values:
                if isinstance(v, ast.Constant) and isinstance(v.value, str):
                    parts.append(coq_str(v.value))
                elif isinstance(v, ast.FormattedValue) and isinstance(v.value, ast.Name) and v.conversion == -1 and v.format_spec is None:
                    ty = self.types.get(v.value.id)
                    if ty == "str":
                        parts.append(v.value.id)
                    elif ty == "N":
                        parts.append(f"show {v.value.id}")
                    else:
                        raise Untranslatable(f"f-string value {v.value.id} of unknown type")
                else:
                    raise Untranslatable("f-string part " + ast.dump(v)[:80])
            return "(" + " ++ ".join(parts) + ")", False
        if isinstance(e, ast.IfExp) and ast.unparse(e) == "default_slugify if slug_func is None else slug_func":
            return "match slug_func with None => default_slugify | Some __f => __f end", False
        if isinstance(e, ast.Call) and isinstance(e.func, ast.Name) and e.func.id == self.slug_call \
                and len(e.args) == 1 and isinstance(e.args[0], ast.Name) and not e.keywords:
            return f"{e.func.id} {e.args[0].id}", True
        # "".join(child.content for child in <children> if child.type in [...])
        if isinstance(e, ast.Call) and isinstance(e.func, ast.Attribute) and e.func.attr == "join" \
                and isinstance(e.func.value, ast.Constant) and e.func.value.value == "" and len(e.args) == 1 \
                and isinstance(e.args[0], ast.GeneratorExp):
            g = e.args[0]
            if len(g.generators) != 1 or g.generators[0].is_async:
                raise Untranslatable("comprehension shape")
            c = g.generators[0]
            if not isinstance(c.target, ast.Name) or ast.unparse(c.iter) != self.children_expr:
                raise Untranslatable("comprehension iterates over " + ast.unparse(c.iter))
            v = c.target.id
            if ast.unparse(g.elt) != f"{v}.content":
                raise Untranslatable("comprehension element " + ast.unparse(g.elt))
            if len(c.ifs) != 1:
                raise Untranslatable("comprehension filter")
            f = c.ifs[0]
            if not (isinstance(f, ast.Compare) and len(f.ops) == 1 and isinstance(f.ops[0], ast.In)
                    and ast.unparse(f.left) == f"{v}.type" and isinstance(f.comparators[0], (ast.List, ast.Tuple, ast.Set))):
                raise Untranslatable("comprehension filter " + ast.unparse(f))
            names = []
            for el in f.comparators[0].elts:
                if not (isinstance(el, ast.Constant) and el.value in TYPE_NAMES):
                    raise Untranslatable("token type " + ast.unparse(el))
                names.append(TYPE_NAMES[el.value])
            return (f"flat_map (fun {v} => if type_in (fst {v}) [{'; '.join(names)}] then snd {v} else []) children"), False
        raise Untranslatable("expression " + ast.unparse(e)[:100])


def gen_compute_unique_slug(src: str) -> str:
    fn = find_function(ast.parse(src), "compute_unique_slug")
    if [a.arg for a in fn.args.args] != ["token_tree", "slugs", "slug_func"]:
        raise Untranslatable("compute_unique_slug signature")
    # local names are free: types are inferred from the defining expressions
    ex = Expr({"slugs": "strs"}, "<unknown>", slug_call="slug_func")
    names = {}

    def hook(s, rest, w):
        if isinstance(s, ast.Assign) and len(s.targets) == 1 and isinstance(s.targets[0], ast.Name):
            n, v = s.targets[0].id, ast.unparse(s.value)
            if v == "token_tree.to_tokens()":
                names["tokens"] = n
                return w.block(rest)
            if "tokens" in names and v == names["tokens"] + "[1]":
                ex.children_expr = n + ".children or []"      # the inline token of the heading
                return w.block(rest)
        # record the types of the locals as they are defined
        if isinstance(s, ast.Assign) and all(isinstance(t, ast.Name) for t in s.targets):
            v = s.value
            ty = None
            if isinstance(v, ast.Constant) and isinstance(v.value, int):
                ty = "N"
            elif isinstance(v, (ast.JoinedStr,)) or (isinstance(v, ast.Call) and (ast.unparse(v.func) in ("slug_func",) or
                                                     (isinstance(v.func, ast.Attribute) and v.func.attr == "join"))):
                ty = "str"
            elif isinstance(v, ast.Name) and v.id in ex.types:
                ty = ex.types[v.id]
            if ty:
                for t in s.targets:
                    ex.types[t.id] = ty
        return None
    w = Walk(ex, fuel="S (length slugs)", stmt_hook=hook)
    body = w.block(list(fn.body))
    return ("Definition compute_unique_slug_src (default_slugify : str -> res str) (children : list (ttype * str))\n"
            "  (slugs : list str) (slug_func : option (str -> res str)) : res str :=\n" + body + ".\n")


def add_hook(s, rest, w):
    # slugs.add(uniq); return uniq   ->  Ok (uniq, uniq :: slugs)
    if isinstance(s, ast.Expr) and isinstance(s.value, ast.Call) and ast.unparse(s.value.func) == "slugs.add" \
            and len(s.value.args) == 1 and isinstance(s.value.args[0], ast.Name):
        x = s.value.args[0].id
        if len(rest) != 1 or ast.unparse(rest[0]) != "return " + x:
            raise Untranslatable("unique_slug tail")
        return f"Ok ({x}, {x} :: slugs)"
    return None


def gen_unique_slug(src: str) -> str:
    fn = find_function(ast.parse(src), "unique_slug")
    if [a.arg for a in fn.args.args] != ["slug", "slugs"]:
        raise Untranslatable("unique_slug signature")
    ex = Expr({"slug": "str", "slugs": "strs"}, "<none>")

    def hook(s, rest, w):
        r = add_hook(s, rest, w)
        if r is not None:
            return r
        if isinstance(s, ast.Assign) and all(isinstance(t, ast.Name) for t in s.targets):
            v = s.value
            ty = "N" if isinstance(v, ast.Constant) and isinstance(v.value, int) else \
                "str" if isinstance(v, ast.JoinedStr) else ex.types.get(v.id) if isinstance(v, ast.Name) else None
            if ty:
                for t in s.targets:
                    ex.types[t.id] = ty
        return None
    w = Walk(ex, fuel="S (length slugs)", stmt_hook=hook)
    body = w.block(list(fn.body))
    return ("Definition unique_slug_src (slug : str) (slugs : list str) : res (str * list str) :=\n" + body + ".\n")


def generate(repo: Path, plugin_file: Path):
    base_src = (repo / "myst_parser/mdit_to_docutils/base.py").read_text()
    plug_src = plugin_file.read_text()
    rpat, rsteps = c10_unicode.render_side(base_src)
    ppat, psteps = c10_unicode.plugin_side(plug_src)
    text = "\n".join([
        "(* GENERATED by gen/c10_src.py from myst_parser/mdit_to_docutils/base.py and mdit_py_plugins/anchors/index.py - do not edit *)",
        "From Coq Require Import List NArith Arith Bool.",
        "From MV Require Import Base.PyStr Base.Res Sect.Slug Sect.SlugTables Sect.SlugSrcLib Gen.PyUnicodeSlug.",
        "Import ListNotations.",
        "Local Open Scope N_scope.",
        "",
        "Section Fns.",
        "  Variable lower : str -> str.",
        "  Variable is_space is_word : N -> bool.",
        "  (* base.py default_slugify *)",
        "  Definition default_slugify_src (title : str) : str :=",
        "    " + steps_term(rsteps, "render_class", "title") + ".",
        "  (* plug-in slugify *)",
        "  Definition plugin_slugify_src (title : str) : str :=",
        "    " + steps_term(psteps, "plugin_class", "title") + ".",
        "End Fns.",
        "",
        "(* base.py compute_unique_slug *)",
        gen_compute_unique_slug(base_src),
        "(* plug-in unique_slug *)",
        gen_unique_slug(plug_src),
    ])
    return text
