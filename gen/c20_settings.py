"""C20 translator (fail-closed ast): every place where MyST hands a document / settings / state / inliner object to
docutils code, with the expression that provides it -> coq/Gen/SettingsSites.v.

docutils' own checks (raw role / raw directive / csv-table :file: / rST include) read
`state.document.settings` / `inliner.document.settings`; they honour the user's settings only if that object IS the
main document's settings object.  The table records, per site, where the object comes from:

  PMain        Parser.parse: parser.options["document"] = document          (the document docutils created)
  POptions     DocutilsRenderer.setup_render: self.document = options.get("document", ...)
  PRenderer    a mock's __init__: self.document = renderer.document
  PSelf        a call that passes self.document
  PSettings    render_restructuredtext: newdoc.settings = self.document.settings, newdoc handed to the rST parser
  PMock cls    a call that passes a mock built from the renderer (MockState(self, ...), MockInliner(self), ...)
  POther       anything else (the theorem then fails)
"""
from __future__ import annotations

import ast
import hashlib
from pathlib import Path

from gen.py2coq import Untranslatable

MOCKS = ["MockInliner", "MockState", "MockStateMachine", "MockIncludeDirective"]


def coq_str(s: str) -> str:
    return "[" + "; ".join(str(ord(c)) for c in s) + "]"


def cls_method(tree, cls, name):
    for n in ast.walk(tree):
        if isinstance(n, ast.ClassDef) and n.name == cls:
            for m in n.body:
                if isinstance(m, ast.FunctionDef) and m.name == name:
                    return m
    raise Untranslatable(f"{cls}.{name} not found")


def assigns_to(fn, target_text):
    out = []
    for n in ast.walk(fn):
        if isinstance(n, (ast.Assign, ast.AnnAssign)) and n.value is not None:
            tg = n.targets[0] if isinstance(n, ast.Assign) else n.target
            if ast.unparse(tg) == target_text:
                out.append(n.value)
    return out


def scan(repo: Path):
    mock = ast.parse((repo / "myst_parser/mocking.py").read_text(encoding="utf8"))
    base = ast.parse((repo / "myst_parser/mdit_to_docutils/base.py").read_text(encoding="utf8"))
    dparse = ast.parse((repo / "myst_parser/parsers/docutils_.py").read_text(encoding="utf8"))
    sites = []

    def add(where, what, expr, prov):
        sites.append({"where": where, "what": what, "expr": expr, "prov": prov})

    # the root: the document docutils created is what the renderer works on
    parse = cls_method(dparse, "Parser", "parse")
    vals = assigns_to(parse, "parser.options['document']")
    if len(vals) != 1:
        raise Untranslatable("Parser.parse: parser.options['document'] must be assigned exactly once")
    add("Parser.parse", "parser.options['document']", ast.unparse(vals[0]),
        "PMain" if ast.unparse(vals[0]) == "document" else "POther")
    setup = cls_method(base, "DocutilsRenderer", "setup_render")
    vals = assigns_to(setup, "self.document")
    if len(vals) != 1:
        raise Untranslatable("setup_render: self.document must be assigned exactly once")
    add("DocutilsRenderer.setup_render", "self.document", ast.unparse(vals[0]),
        "POptions" if ast.unparse(vals[0]) == "options.get('document', make_document())" else "POther")
    # nobody else may rebind the renderer's document
    for n in ast.walk(base):
        if isinstance(n, ast.ClassDef):
            for m in n.body:
                if isinstance(m, ast.FunctionDef) and m.name != "setup_render" and assigns_to(m, "self.document"):
                    raise Untranslatable(f"{n.name}.{m.name} rebinds self.document")
    # the mocks
    for cls in MOCKS:
        init = cls_method(mock, cls, "__init__")
        first = init.args.args[1].arg if len(init.args.args) > 1 else None
        vals = assigns_to(init, "self.document")
        if len(vals) != 1:
            raise Untranslatable(f"{cls}.__init__: self.document must be assigned exactly once")
        e = ast.unparse(vals[0])
        add(f"{cls}.__init__", "self.document", e, "PRenderer" if (first == "renderer" and e == "renderer.document") else "POther")
        for m in [x for n in ast.walk(mock) if isinstance(n, ast.ClassDef) and n.name == cls for x in n.body
                  if isinstance(x, ast.FunctionDef) and x.name != "__init__"]:
            if assigns_to(m, "self.document") or assigns_to(m, "self.document.settings"):
                raise Untranslatable(f"{cls}.{m.name} rebinds self.document")
    # MockState's memo hands the same document on
    init = cls_method(mock, "MockState", "__init__")
    for n in ast.walk(init):
        if isinstance(n, ast.ClassDef):
            for a in n.body:
                if isinstance(a, ast.Assign) and ast.unparse(a.targets[0]) == "document":
                    e = ast.unparse(a.value)
                    add("MockState.__init__ memo", "Struct.document", e, "PSelf" if e == "self.document" else "POther")
    # render_restructuredtext
    rr = cls_method(base, "DocutilsRenderer", "render_restructuredtext")
    newdoc = assigns_to(rr, "newdoc")
    sett = assigns_to(rr, "newdoc.settings")
    if len(newdoc) != 1 or ast.unparse(newdoc[0]) != "make_document()":
        raise Untranslatable("render_restructuredtext: newdoc = make_document() expected")
    if len(sett) > 1:
        raise Untranslatable("render_restructuredtext: newdoc.settings assigned more than once")
    e = ast.unparse(sett[0]) if sett else "<not assigned>"
    add("DocutilsRenderer.render_restructuredtext", "newdoc.settings", e,
        "PSettings" if e == "self.document.settings" else "POther")
    calls = [n for n in ast.walk(rr) if isinstance(n, ast.Call) and ast.unparse(n.func).endswith(".parse")]
    if len(calls) != 1 or ast.unparse(calls[0].func) != "MockRSTParser().parse" or ast.unparse(calls[0].args[1]) != "newdoc":
        raise Untranslatable("render_restructuredtext: MockRSTParser().parse(pseudosource, newdoc) expected")
    # the settings must be assigned before the parse call
    if sett and sett[0].lineno > calls[0].lineno:
        add("DocutilsRenderer.render_restructuredtext", "order", "settings assigned after parse", "POther")
    # calls into docutils from the renderer
    def call_sites(fn, where):
        local = {}
        for n in ast.walk(fn):
            if isinstance(n, ast.Assign) and isinstance(n.targets[0], ast.Name) and isinstance(n.value, ast.Call):
                local[n.targets[0].id] = n.value
        for n in ast.walk(fn):
            if not isinstance(n, ast.Call):
                continue
            f = ast.unparse(n.func)
            if f in MOCKS:
                a0 = ast.unparse(n.args[0]) if n.args else ""
                add(where, f + "(...)", a0, f"PMock" if a0 in ("self", "self.renderer", "renderer") else "POther")
            elif f == "directives.directive":
                e = ast.unparse(n.args[2])
                add(where, "directives.directive(.., document)", e, "PSelf" if e == "self.document" else "POther")
            elif f == "role_func":
                e = ast.unparse(n.args[4])
                src = local.get(e)
                ok = src is not None and ast.unparse(src.func) == "MockInliner" and ast.unparse(src.args[0]) == "self"
                add(where, "role_func(.., inliner)", e if src is None else ast.unparse(src), "PMock" if ok else "POther")
            elif f == "directive_class":
                kw = {k.arg: ast.unparse(k.value) for k in n.keywords}
                for key, mockcls in (("state", "MockState"), ("state_machine", "MockStateMachine")):
                    src = local.get(kw.get(key, ""))
                    ok = src is not None and ast.unparse(src.func) == mockcls and ast.unparse(src.args[0]) == "self"
                    add(where, f"directive_class(.., {key}=)", kw.get(key, "<missing>") if src is None else ast.unparse(src),
                        "PMock" if ok else "POther")
    call_sites(cls_method(base, "DocutilsRenderer", "run_directive"), "DocutilsRenderer.run_directive")
    call_sites(cls_method(base, "DocutilsRenderer", "render_myst_role"), "DocutilsRenderer.render_myst_role")
    call_sites(cls_method(mock, "MockIncludeDirective", "run"), "MockIncludeDirective.run")
    call_sites(cls_method(mock, "MockState", "__init__"), "MockState.__init__")
    return sites


def generate(repo: Path):
    sites = scan(repo)
    rows = []
    for s in sites:
        rows.append(f"  (* {s['where']}: {s['what']} <- {s['expr']} *)\n"
                    f"  {{| ss_where := {coq_str(s['where'])}; ss_prov := {s['prov']} |}}")
    text = ("(* GENERATED by gen/c20_settings.py from the working tree - do not edit *)\n"
            "From Coq Require Import List NArith Bool.\nFrom MV Require Import Base.PyStr Nest.Raw.\n"
            "Import ListNotations.\nOpen Scope N_scope.\n\n"
            "Definition settings_sites : list settings_site := [\n" + ";\n".join(rows) + "\n].\n")
    return text, {"sites": sites, "sha": hashlib.sha256(text.encode()).hexdigest()[:16]}
